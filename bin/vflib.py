#!/usr/bin/env python3
"""Shared machinery of the pion/sctp verification runner: build the in-package harness from
/repo's current working tree, run TLC, validate recorded traces, write evidence, match known
findings.  Nothing here decides a property: verdicts come from TLC evaluating the TLA+ monitors
on traces recorded from the real code, or from lock-step replay of TLC-generated behaviours."""
import glob
import hashlib
import json
import os
import re
import shutil
import subprocess
import sys
import tempfile
import time
from concurrent.futures import ThreadPoolExecutor

ROOT = os.path.dirname(os.path.dirname(os.path.abspath(__file__)))
REPO = os.environ.get("VF_REPO", "/repo")
SPEC = os.path.join(ROOT, "spec")
HARNESS = os.path.join(ROOT, "harness")
EVID = os.environ.get("VF_EVIDENCE_DIR", os.path.join(ROOT, "evidence"))
OUT = os.environ.get("VF_OUT_DIR", os.path.join(ROOT, "out"))
GOENV = dict(os.environ, GOTOOLCHAIN="local", GOFLAGS="-mod=mod", GOPROXY="off", GONOSUMDB="*", GONOSUMCHECK="1")
GOENV.pop("GOSUMDB", None)
GO = shutil.which("go1.26.8") or "/usr/local/bin/go1.26.8"
NCPU = os.cpu_count() or 4


class MachineryError(Exception):
    pass


def log(*a):
    print("[vcheck]", *a, file=sys.stderr, flush=True)


class Scratch:
    def __init__(self):
        base = os.environ.get("TMPDIR", "/tmp")
        self.dir = tempfile.mkdtemp(prefix="verif.", dir=base)

    def path(self, *p):
        d = os.path.join(self.dir, *p)
        return d

    def mkdir(self, *p):
        d = os.path.join(self.dir, *p)
        os.makedirs(d, exist_ok=True)
        return d

    def cleanup(self):
        if os.environ.get("VF_KEEP"):   # development aid: keep traces and TLC output
            log("scratch kept:", self.dir)
            return
        shutil.rmtree(self.dir, ignore_errors=True)


def repo_tree_hash():
    try:
        h = hashlib.sha256()
        for f in sorted(glob.glob(os.path.join(REPO, "*.go"))):
            if f.endswith("_test.go"):
                continue
            h.update(f.encode())
            h.update(open(f, "rb").read())
        return h.hexdigest()[:16]
    except Exception:
        return "unknown"


def build_harness(scr, race=False, tags="verif"):
    """go test -c of /repo's package with /verif/harness/*_test.go overlaid. Returns binary path."""
    overlay = {"Replace": {}}
    for f in sorted(glob.glob(os.path.join(HARNESS, "*_test.go"))):
        overlay["Replace"][os.path.join(REPO, "zz_" + os.path.basename(f))] = f
    ov = scr.path("overlay.json")
    json.dump(overlay, open(ov, "w"))
    binp = scr.path("sctp.race.test" if race else "sctp.test")
    cmd = [GO, "test", "-c", "-vet=off", "-overlay=" + ov, "-o", binp]
    if tags:
        cmd += ["-tags", tags]
    if race:
        cmd += ["-race"]
    cmd += ["."]
    t0 = time.time()
    p = subprocess.run(cmd, cwd=REPO, env=GOENV, capture_output=True, text=True)
    if p.returncode != 0:
        raise MachineryError("harness build failed:\n" + p.stdout[-4000:] + p.stderr[-4000:])
    log("built harness in %.1fs%s" % (time.time() - t0, " (race)" if race else ""))
    return binp


def run_harness(binp, mode, outdir, env=None, timeout=1800):
    e = dict(os.environ)
    e.update({"VF_MODE": mode, "VF_OUT": outdir})
    if env:
        e.update({k: str(v) for k, v in env.items()})
    os.makedirs(outdir, exist_ok=True)
    try:
        p = subprocess.run([binp, "-test.run", "^TestVF$", "-test.timeout", "%ds" % (timeout + 60)], env=e,
                           capture_output=True, text=True, timeout=timeout, cwd=outdir)
    except subprocess.TimeoutExpired:
        raise MachineryError("harness mode %s timed out after %ds" % (mode, timeout))
    return p


def run_shards(binp, mode, outdir, nshards, env, timeout=1800):
    """Run nshards harness processes in parallel (VF_SHARD=k). Returns list of CompletedProcess."""
    def one(k):
        ee = dict(env)
        ee["VF_SHARD"] = k
        return run_harness(binp, mode, outdir, ee, timeout)
    with ThreadPoolExecutor(max_workers=min(nshards, NCPU)) as ex:
        return list(ex.map(one, range(nshards)))


TLC_CP = "/opt/veriftools/tla/tla2tools.jar:/opt/veriftools/tla/CommunityModules-deps.jar"


def run_tlc(scr, module, cfg, env=None, workers=1, timeout=600, extra=None, heap=None, name=None, dfs=False):
    """Run TLC on spec/<module>.tla with spec/<cfg> in a private scratch copy. Returns dict."""
    name = name or (module + "-" + os.path.splitext(os.path.basename(cfg))[0])
    wd = scr.mkdir("tlc", name + "-" + str(abs(hash((time.time(), name))) % 100000))
    for f in glob.glob(os.path.join(SPEC, "*.tla")):
        shutil.copy(f, wd)
    shutil.copy(os.path.join(SPEC, cfg), os.path.join(wd, os.path.basename(cfg)))
    java = ["java", "-XX:+UseParallelGC", "-Xss64m"]
    if heap:
        java += ["-Xmx" + heap]
    if dfs:
        java += ["-Dtlc2.tool.queue.IStateQueue=StateDeque"]
    cmd = java + ["-cp", TLC_CP, "tlc2.TLC", "-workers", str(workers), "-metadir", os.path.join(wd, "md"),
                  "-config", os.path.basename(cfg)] + (extra or []) + [module + ".tla"]
    e = dict(os.environ)
    if env:
        e.update({k: str(v) for k, v in env.items()})
    t0 = time.time()
    try:
        p = subprocess.run(["timeout", str(timeout)] + cmd, cwd=wd, env=e, capture_output=True, text=True)
    except Exception as ex:  # pragma: no cover
        raise MachineryError("TLC failed to start: %s" % ex)
    out = p.stdout + p.stderr
    res = {"name": name, "cmd": " ".join(cmd[cmd.index("tlc2.TLC"):]), "rc": p.returncode, "out": out, "wall_s": round(time.time() - t0, 1),
           "generated": 0, "distinct": 0, "ok": False, "timeout": p.returncode == 124, "wd": wd}
    m = re.findall(r"(\d+) states generated, (\d+) distinct states found", out)
    if m:
        res["generated"], res["distinct"] = int(m[-1][0]), int(m[-1][1])
    res["ok"] = "Model checking completed. No error has been found." in out
    res["invariant_violated"] = re.findall(r"Invariant (\S+) is violated", out)
    res["property_violated"] = re.findall(r"Temporal properties were violated|Action property (\S+) is violated", out)
    res["postcondition_failed"] = "Postcondition" in out and "is false" in out or "violated" in out and "POSTCONDITION" in out
    res["sim_traces"] = 0
    ms = re.findall(r"The number of states generated: (\d+)", out)
    if ms:
        res["generated"] = max(res["generated"], int(ms[-1]))
    return res


def parse_viols(out):
    """Extract VFVIOL / VFSCEN lines printed by the trace specifications."""
    viols, scens = [], []
    for line in out.splitlines():
        if line.startswith('<<"VFVIOL"'):
            m = re.match(r'<<"VFVIOL", "(.*)">>\s*$', line)
            if m:
                s = m.group(1).encode().decode("unicode_escape") if False else m.group(1).replace('\\"', '"').replace("\\\\", "\\")
                try:
                    viols.append(json.loads(s))
                except Exception:
                    viols.append({"mon": "PARSE", "raw": s})
        elif line.startswith('<<"VFSCEN"'):
            m = re.match(r'<<"VFSCEN", "(.*)", (\d+), (\d+)>>', line)
            if m:
                scens.append((m.group(1), int(m.group(2)), int(m.group(3))))
    return viols, scens


def validate_traces(scr, files, module="ObsTrace", cfg="ObsTrace.cfg", timeout=1800, heap="6g", env=None):
    """TLC trace validation of each NDJSON file (in parallel). Returns (viols, stats)."""
    files = [f for f in files if os.path.exists(f) and os.path.getsize(f) > 0]

    def one(f):
        e = {"VF_TRACE": f}
        if env:
            e.update(env)
        r = run_tlc(scr, module, cfg, env=e, workers=1, timeout=timeout, heap=heap,
                    name="val-" + os.path.basename(f))
        r["file"] = f
        return r
    with ThreadPoolExecutor(max_workers=max(1, min(len(files), NCPU // 2))) as ex:
        rs = list(ex.map(one, files))
    viols, stats = [], {"states": 0, "transitions": 0, "scenarios": 0, "events": 0, "files": len(files), "tlc": []}
    for r in rs:
        v, sc = parse_viols(r["out"])
        nlines = sum(1 for _ in open(r["file"]))
        stats["events"] += nlines
        if not r["ok"]:
            # a trace the specification cannot follow to its end is a machinery failure, not a verdict
            tail = "\n".join(r["out"].splitlines()[-40:])
            raise MachineryError("trace validation did not complete for %s (rc=%s):\n%s" % (r["file"], r["rc"], tail))
        for x in v:
            x["file"] = r["file"]
        viols += v
        stats["states"] += r["distinct"]
        stats["transitions"] += r["generated"]
        stats["scenarios"] += len(sc)
        stats["tlc"].append({"file": os.path.basename(r["file"]), "distinct": r["distinct"], "wall_s": r["wall_s"]})
    return viols, stats


# ------------------------------------------------------------------ known findings

def load_known():
    p = os.path.join(ROOT, "KNOWN_FINDINGS.json")
    if not os.path.exists(p):
        return []
    return json.load(open(p)).get("findings", [])


def match_known(v, known, prop):
    """A violation is covered by a finding only if property, monitor and every witness predicate match."""
    for k in known:
        if k.get("status") != "known" or k.get("property") != prop:
            continue
        if k.get("monitor") and k["monitor"] != v.get("mon"):
            continue
        ok = True
        for key, pat in (k.get("witness") or {}).items():
            val = v.get(key)
            if val is None and key.startswith("w["):
                try:
                    val = v.get("w")[int(key[2:-1])]
                except Exception:
                    val = None
            if not re.search(pat, json.dumps(val) if not isinstance(val, str) else val):
                ok = False
                break
        if ok:
            return k
    return None


# ------------------------------------------------------------------ replay files & evidence

def save_replay(prop, v, extra_files=None, lines_from=None):
    os.makedirs(os.path.join(OUT, "replays"), exist_ok=True)
    h = hashlib.sha256(json.dumps(v, sort_keys=True).encode()).hexdigest()[:10]
    path = os.path.join(OUT, "replays", "%s-%s.json" % (prop, h))
    rec = {"property": prop, "violation": v, "repo_tree": repo_tree_hash()}
    # attach the scenario's slice of the trace
    f = v.get("file")
    if f and os.path.exists(f) and v.get("scen"):
        sl, on = [], False
        for line in open(f):
            try:
                e = json.loads(line)
            except Exception:
                continue
            if e.get("ev") in ("cfg", "mwcfg"):
                on = e.get("label") == v["scen"]
            if on:
                sl.append(e)
        rec["trace"] = sl[:20000]
    json.dump(rec, open(path, "w"))
    return path


def write_evidence(prop, tier, seed, level, coverage, assumptions, wall, violations):
    os.makedirs(EVID, exist_ok=True)
    ev = {"property_id": prop, "tier": tier, "seed": int(seed), "level": level, "coverage": coverage,
          "assumptions": assumptions, "wall_s": round(wall, 1), "violations": violations}
    json.dump(ev, open(os.path.join(EVID, prop + ".json"), "w"), indent=1)
    return ev
