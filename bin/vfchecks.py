"""Per-property check definitions for vcheck."""
import glob
import json
import os
import re
import sys
import time

import vflib as L


class Ctx:
    def __init__(self, prop, tier, seed, scr):
        self.prop, self.tier, self.seed, self.scr = prop, tier, seed, scr
        self.viols = []          # violations attributed to this property
        self.other = {}          # monitor -> count of violations of other properties seen (informative)
        self.unexplained = {}    # ... of which not covered by a known finding of the owning property
        self.drift_guard = []    # replay families whose behaviours the real code could not follow (see finish)
        self.design = []         # design-level TLC runs
        self.trace_stats = {"states": 0, "transitions": 0, "scenarios": 0, "events": 0, "files": 0}
        self.replayed = 0        # behaviours / operations replayed into the real code
        self.samples = []
        self.notes = []
        self.assumptions = []
        self.distinct = set()
        self.evaluations = 0
        self.exhaustive = None
        self.rule = ""
        self.level = "model_checking"
        self._bin = {}
        self.quick = tier == "quick"

    # ---- building blocks
    def harness(self, race=False):
        if race not in self._bin:
            self._bin[race] = L.build_harness(self.scr, race=race)
        return self._bin[race]

    def tlc_design(self, module, cfg, workers=None, timeout=900, extra=None, heap="12g", expect_ok=True, env=None):
        r = L.run_tlc(self.scr, module, cfg, workers=workers or L.NCPU, timeout=timeout, extra=extra, heap=heap, env=env)
        rec = {"module": module, "cfg": cfg, "distinct": r["distinct"], "generated": r["generated"], "wall_s": r["wall_s"],
               "ok": r["ok"], "cmd": r["cmd"]}
        self.design.append(rec)
        if r["timeout"]:
            raise L.MachineryError("TLC %s/%s timed out after %ds" % (module, cfg, timeout))
        if expect_ok and not r["ok"]:
            tail = "\n".join(r["out"].splitlines()[-60:])
            raise L.MachineryError("design-level TLC run %s/%s did not pass (a design-level counterexample is a lead, "
                                   "not a verdict; fix the specification or replay it):\n%s" % (module, cfg, tail))
        return r

    def validate(self, files, module="ObsTrace", cfg="ObsTrace.cfg", env=None, claim_all=None):
        """claim_all="Cxx_Tag": every monitor violated in these traces counts for this property (renamed
        Cxx_Tag_<monitor>) -- used where the scenarios themselves are the property's subject (wrap bases)."""
        viols, st = L.validate_traces(self.scr, files, module=module, cfg=cfg, env=env)
        for k in ("states", "transitions", "scenarios", "events", "files"):
            self.trace_stats[k] += st[k]
        mine = self.monitors()
        for v in viols:
            mon = v.get("mon", "")
            if claim_all and not mon.startswith("DRIFT_") and not any(mon.startswith(p) for p in mine):
                if L.match_known(v, L.load_known(), mon[:3]):
                    self.other[mon] = self.other.get(mon, 0) + 1   # a known finding of its own property
                    continue
                v["mon"] = mon = claim_all + "_" + mon
            if any(mon.startswith(p) for p in mine):
                self.viols.append(v)
            else:
                # monitors of other properties: counted; those that are not a known finding of their own property are
                # listed separately (on the unchanged tree that list must be empty: each entry is either a defect the
                # owning check would report with these scenarios, or a false alarm in waiting)
                self.other[mon] = self.other.get(mon, 0) + 1
                if not mon.startswith("DRIFT_") and not L.match_known(v, L.load_known(), mon[:3]):
                    self.unexplained[mon] = self.unexplained.get(mon, 0) + 1
                    if os.environ.get("VF_DEBUG_OTHER") and self.unexplained[mon] <= 3:
                        L.log("other:", mon, v.get("scen"), json.dumps(v.get("w"))[:200], v.get("line"))
        return viols

    def monitors(self):
        # a certified deadlock of the real code during a scenario defeats whatever that scenario was checking
        return MONITOR_PREFIX.get(self.prop, [self.prop + "_"]) + EXTRA.get(self.prop, []) + ["C09_Deadlock"]

    def add_violation(self, mon, scen, w, file=None):
        self.viols.append({"mon": mon, "scen": scen, "w": w, "file": file, "line": 0})

    # ---- wrap up
    def finish(self, wall):
        known = L.load_known()
        unknown, seen_known = [], {}
        for v in self.viols:
            # a monitor of another property that this check claims as well (EXTRA) may hit that property's listed finding
            k = L.match_known(v, known, self.prop) or L.match_known(v, known, str(v.get("mon", ""))[:3])
            if k:
                seen_known.setdefault(k["id"], (k, v))
            else:
                unknown.append(v)
        for kid, (k, v) in sorted(seen_known.items()):
            print("KNOWN-FINDING: property=%s %s [%s; e.g. scenario %s witness %s]" % (k.get("property", self.prop), k.get("summary", ""), kid, v.get("scen"), json.dumps(v.get("w"))))
        reported = {}
        for v in unknown:
            key = (v.get("mon"), re.sub(r"\d+", "N", str(v.get("scen"))))
            if key in reported:
                reported[key][1] += 1
                continue
            path = L.save_replay(self.prop, v)
            reported[key] = [path, 1, v]
        for (mon, scl), (path, n, v) in reported.items():
            print("VIOLATION property=%s replay=%s monitor=%s scenario=%s witness=%s count=%d" % (self.prop, path, mon, v.get("scen"), json.dumps(v.get("w")), n))
        cov = {
            "states": sum(d["distinct"] for d in self.design) + self.trace_stats["states"],
            "transitions": sum(d["generated"] for d in self.design) + self.trace_stats["transitions"],
            "traces_validated_against_impl": self.trace_stats["scenarios"],
            "samples": self.samples[:6] or ["(none)"],
            "design_level_tlc": self.design,
            "trace_validation": self.trace_stats,
            "behaviours_replayed_into_impl": self.replayed,
            "evaluations": max(1, self.evaluations or (self.trace_stats["scenarios"] + self.replayed)),
            "distinct_nontrivial": len(self.distinct),
            "rule": self.rule,
            "known_findings_reproduced": sorted(seen_known.keys()),
            "violations_of_other_properties_seen": self.other,
            "other_property_violations_not_explained_by_known_findings": self.unexplained,
            "notes": self.notes,
            "repo_tree": L.repo_tree_hash(),
        }
        if self.exhaustive is not None:
            cov["exhaustive"] = self.exhaustive
        L.write_evidence(self.prop, self.tier, self.seed, self.level, cov, self.assumptions, wall, len(unknown))
        if unknown:
            return 1
        if self.drift_guard:
            # the code did not follow the model's schedules and no monitor says why: the binding is broken, not the property
            raise L.MachineryError("; ".join(self.drift_guard))
        print("OK property=%s tier=%s states=%d traces=%d replayed=%d wall=%.0fs" % (self.prop, self.tier, cov["states"], cov["traces_validated_against_impl"], self.replayed, wall))
        return 0


MONITOR_PREFIX = {}
# monitors of other families that also decide a property in the scenarios of its own family
EXTRA = {"C18": ["C01_ReadNext", "C14_SequenceNumber", "C02_Delivered", "C06_"],
         # a certified deadlock of the real code is a violation of whichever of these properties' scenarios hit it
         "C04": ["C09_Deadlock", "C09_NoLeak"]}
CHECKS = {}


def check(prop, prefixes=None):
    def deco(f):
        CHECKS[prop] = f
        if prefixes:
            MONITOR_PREFIX[prop] = prefixes
        return f
    return deco


# ------------------------------------------------------------------ shared: seeded transfer runs

def xfer_traces(ctx, profiles, n_quick, n_thorough, shards=None, extra_env=None):
    """Run seeded transfer scenarios on the real code and return the NDJSON files."""
    binp = ctx.harness()
    n = n_quick if ctx.quick else n_thorough
    shards = shards or (8 if ctx.quick else 16)
    per = max(1, (n + shards - 1) // shards)
    out = ctx.scr.mkdir("xfer-" + "-".join(profiles)[:40])
    env = {"VF_N": per, "VF_SEED": ctx.seed, "VF_PROFILE": ",".join(profiles)}
    if extra_env:
        env.update(extra_env)
    ps = L.run_shards(binp, "xfer", out, shards, env)
    for p in ps:
        if p.returncode != 0:
            raise L.MachineryError("harness xfer failed:\n" + (p.stdout + p.stderr)[-3000:])
    files = sorted(glob.glob(os.path.join(out, "xfer-*.ndjson")))
    # distinct non-trivial scenario classes: (profile, config signature) of scenarios that had faults or >1 stream
    for f in files:
        for line in open(f):
            if line.startswith('{"A":') or '"ev":"cfg"' in line[:4000]:
                try:
                    e = json.loads(line)
                except Exception:
                    continue
                if e.get("ev") == "cfg":
                    sig = (e["label"].split("#")[0], e["A"]["il"], e["B"]["il"], e["A"]["mtu"], e["B"]["mtu"], e["A"]["buf"], e["B"]["buf"],
                           e["A"]["zc"], e["B"]["zc"], e["A"]["wrapdist"] < 10000, e["B"]["wrapdist"] < 10000, e["A"]["sched"])
                    ctx.distinct.add(sig)
                    if len(ctx.samples) < 3:
                        ctx.samples.append({"scenario": e["label"], "A": e["A"], "B": e["B"]})
    ctx.rule = ("seeded scenarios over the configuration lattice (interleaving, zero checksum, MTU, buffer, scheduler, initial TSN incl. "
                "wrap offsets) x workload x per-packet fault decisions; distinct = distinct (profile, configuration signature) classes; "
                "every scenario has >= 4 messages and a fault/heal phase, so all are non-trivial")
    return files


def tlc_behaviours(ctx, module, cfg, num, depth, seed=None, workers=8, timeout=600, cap=None, bfs=False, expect_violation=None):
    """Generate behaviours with `tlc -simulate` (or breadth-first when bfs: the cfg's constraint prints and cuts at
    its depth); the model prints <<"BEHAVIOUR", json>>. expect_violation names an invariant of a NEGATIVE CONTROL
    configuration that TLC must find violated (its counterexample history is the behaviour).
    Returns (path of a file with one JSON array per line, count)."""
    per = max(1, num // workers)
    extra = [] if (bfs or expect_violation) else ["-simulate", "num=%d" % per, "-depth", str(depth), "-seed", str(seed if seed is not None else ctx.seed)]
    r = L.run_tlc(ctx.scr, module, cfg, workers=workers, timeout=timeout, heap="4g", extra=extra)
    if expect_violation:
        if expect_violation not in r["invariant_violated"]:
            raise L.MachineryError("negative control %s/%s: invariant %s was expected to be violated\n%s" % (module, cfg, expect_violation, r["out"][-1500:]))
    elif r["timeout"] or "Error:" in r["out"]:
        raise L.MachineryError("behaviour generation %s/%s failed:\n%s" % (module, cfg, "\n".join(r["out"].splitlines()[-30:])))
    path = os.path.join(r["wd"], "behaviours.jsonl")
    seen = set()
    allb = []
    for line in r["out"].splitlines():
        m = re.match(r'<<"BEHAVIOUR", "(.*)">>\s*$', line)
        if m:
            js = m.group(1).replace('\\"', '"').replace("\\\\", "\\")
            if js not in seen:
                seen.add(js)
                allb.append(js)
    if cap and len(allb) > cap:
        # the simulator prints every successor that satisfies the emission condition, so behaviours come
        # in clusters sharing a long prefix: keep an evenly spread subset
        import random
        rnd = random.Random(seed if seed is not None else ctx.seed)
        allb = rnd.sample(allb, cap)
        seen = set(allb)
    with open(path, "w") as f:
        for js in allb:
            f.write(js + "\n")
    ctx.design.append({"module": module, "cfg": cfg, "mode": "negative-control" if expect_violation else ("bfs-export" if bfs else "simulate"), "distinct": 0, "generated": r["generated"], "behaviours": len(seen),
                       "wall_s": r["wall_s"], "ok": True, "cmd": r["cmd"]})
    if not seen:
        raise L.MachineryError("no behaviours produced by %s/%s" % (module, cfg))
    return path, len(seen)


def recv_component(ctx, pfx):
    """RecvTSN: design-level exhaustive check, TLC behaviours replayed into the real structure, and
    real-structure traces validated by TLC (monitor prefix pfx)."""
    binp = ctx.harness()
    ctx.tlc_design("MC_RecvTSN", "MC_RecvTSN_bfs4.cfg" if ctx.quick else "MC_RecvTSN_bfs5.cfg", timeout=1500)
    # direction A: specification behaviours -> real code, at absolute bases incl. the 2^32 wrap
    for w in ([2112, 8448] if ctx.quick else [2048, 2112, 8448, 40000]):
        path, nb = tlc_behaviours(ctx, "MC_RecvTSN", "MC_RecvTSN_%d.cfg" % w, 64 if ctx.quick else 400, 16)
        out = ctx.scr.mkdir("recvreplay")
        p = L.run_harness(binp, "recv-replay", out, {"VF_IN": path, "VF_W": w, "VF_SEED": ctx.seed, "VF_NBASES": 24 if ctx.quick else 60})
        if p.returncode != 0:
            raise L.MachineryError("recv-replay failed: " + (p.stdout + p.stderr)[-2000:])
        res = json.load(open(os.path.join(out, "recv-replay-%d.json" % w)))
        ctx.replayed += res["ops"]
        ctx.evaluations += res["ops"]
        for m in res["mismatches"]:
            ctx.add_violation(pfx + "_RecvTSN_" + m["field"], "recv-replay W=%d base=%d" % (w, m["base"]),
                              [m["op"], m["arg"], w, "nearwrap" if m.get("wrapdist", 1 << 30) < 3 * w else "far", m["step"]])
        if len(ctx.samples) < 4:
            ctx.samples.append({"recv_behaviour": open(path).readline()[:600]})
    # direction B: real structure -> TLC
    out = ctx.scr.mkdir("recvtrace")
    env = {"VF_N": 60 if ctx.quick else 1500, "VF_NOPS": 60, "VF_SEED": ctx.seed}
    if pfx == "C16":
        env["VF_WRAPONLY"] = "1"
    ps = L.run_shards(binp, "recv-trace", out, 4 if ctx.quick else 16, env)
    for p in ps:
        if p.returncode != 0:
            raise L.MachineryError("recv-trace failed: " + (p.stdout + p.stderr)[-2000:])
    ctx.validate(sorted(glob.glob(os.path.join(out, "recv-*.ndjson"))), module="RecvTSNTrace", cfg="RecvTSNTrace.cfg", env={"VF_MONPFX": pfx})
    ctx.distinct.add(("recv-component", pfx))


def reasm_component(ctx, pfx, replay=True):
    """Reasm: exhaustive TLC on the bounded universe, behaviours replayed into the real
    reassemblyQueue (several SSN/MID/TSN bases incl. wraps), real traces validated by TLC."""
    binp = ctx.harness()
    for il in ("TRUE", "FALSE"):
        ctx.tlc_design("MC_Reasm", "MC_Reasm_%s_bfs%d.cfg" % (il, 8 if ctx.quick else 10), timeout=1500)
        if replay:
            path, nb = tlc_behaviours(ctx, "MC_Reasm", "MC_Reasm_%s_sim.cfg" % il, 48 if ctx.quick else 400, 18)
            out = ctx.scr.mkdir("reasmreplay")
            p = L.run_harness(binp, "reasm-replay", out, {"VF_IN": path, "VF_IL": "1" if il == "TRUE" else "0", "VF_SEED": ctx.seed,
                                                          "VF_NBASES": 10 if ctx.quick else 24})
            if p.returncode != 0:
                raise L.MachineryError("reasm-replay failed: " + (p.stdout + p.stderr)[-2000:])
            res = json.load(open(os.path.join(out, "reasm-replay-%s.json" % ("idata" if il == "TRUE" else "data"))))
            ctx.replayed += res["ops"]
            ctx.evaluations += res["ops"]
            for m in res["mismatches"]:
                ctx.add_violation(pfx + "_Reasm_" + m["field"], "reasm-replay %s base=%d" % ("idata" if il == "TRUE" else "data", m["base"]),
                                  [m["op"], "idata" if il == "TRUE" else "data", "wrapbase" if m["base"] in (1, 2, 3, 6, 7) else "plainbase", m["step"]])
            if len(ctx.samples) < 5:
                ctx.samples.append({"reasm_behaviour": open(path).readline()[:500]})
    out = ctx.scr.mkdir("reasmtrace")
    ps = L.run_shards(binp, "reasm-trace", out, 4 if ctx.quick else 16, {"VF_N": 100 if ctx.quick else 2000, "VF_SEED": ctx.seed})
    for p in ps:
        if p.returncode != 0:
            raise L.MachineryError("reasm-trace failed: " + (p.stdout + p.stderr)[-2000:])
    ctx.validate(sorted(glob.glob(os.path.join(out, "reasm-*.ndjson"))), module="ReasmTrace", cfg="ReasmTrace.cfg", env={"VF_MONPFX": pfx})
    ctx.distinct.add(("reasm-component", pfx))


def directed_traces(ctx, mode, shards, env=None):
    binp = ctx.harness()
    out = ctx.scr.mkdir(mode)
    e = {"VF_NSHARDS": shards, "VF_SEED": ctx.seed}
    if env:
        e.update(env)
    ps = L.run_shards(binp, mode, out, shards, e)
    for p in ps:
        if p.returncode != 0:
            raise L.MachineryError("harness %s failed:\n" % mode + (p.stdout + p.stderr)[-3000:])
    files = sorted(glob.glob(os.path.join(out, mode + "-*.ndjson")))
    for f in files:
        for line in open(f):
            if '"ev":"cfg"' in line:
                try:
                    lab = json.loads(line)["label"]
                except Exception:
                    continue
                ctx.distinct.add((mode, lab.split("#")[0]))
    return files


def transfer_family(ctx, design=True, pr=False):
    """Transfer.tla engine slice: exhaustive TLC (quick constants) + TLC-simulated environment schedules
    replayed content-keyed on real associations."""
    binp = ctx.harness()
    if design:
        ctx.tlc_design("MC_Transfer", "MC_Transfer_quick.cfg", timeout=900, heap="14g")
    out = ctx.scr.mkdir("xrpr" if pr else "xr")
    for shape, cfg in ((1, "MC_Transfer_sim.cfg"), (2, "MC_Transfer_sim2.cfg"), (3, "MC_Transfer_sim3.cfg")):
        if ctx.quick and shape == 3:
            continue
        path, nb = tlc_behaviours(ctx, "MC_Transfer", cfg, 400 if ctx.quick else 6000, 60, seed=ctx.seed * 10 + shape,
                                  cap=120 if ctx.quick else 3000)
        ps = L.run_shards(binp, "xfer-replay", out, 4, {"VF_IN": path, "VF_SHAPE": shape, "VF_NSHARDS": 4, "VF_PR": 1 if pr else 0})
        for p in ps:
            if p.returncode != 0:
                raise L.MachineryError("xfer-replay failed: " + (p.stdout + p.stderr)[-2000:])
        ctx.replayed += nb
        ctx.distinct.add(("transfer-schedules", shape))
        if len(ctx.samples) < 4:
            ctx.samples.append({"transfer_schedule": open(path).readline()[:600]})
    return sorted(glob.glob(os.path.join(out, "xrpr-*.ndjson" if pr else "xr-*.ndjson")))


ALL_PROFILES = ["basic", "lossy", "reorder", "zwin", "pr", "wrap", "il", "tiny", "clean"]


@check("C01", ["C01_"])
def c01(ctx):
    files = transfer_family(ctx)
    files += xfer_traces(ctx, ["basic", "lossy", "reorder", "wrap", "il", "tiny", "zwin", "big"], 160, 4000)
    # a fully reliable ordered stream next to a partially reliable one that abandons messages (fragmented reliable
    # messages losing their last fragment once): the reliable stream must not notice
    files += directed_traces(ctx, "prdir", 8, {"VF_FULL": "0" if ctx.quick else "1", "VF_ONLY": "relfrag"})
    if not ctx.quick:
        reasm_component(ctx, "C01")
    # the peer's chunks arrive bundled differently from how pion packetises them ([SACK, DATA], [DATA, RE-CONFIG, SACK] ...)
    files += directed_traces(ctx, "rebundle", 8, {"VF_N": 24 if ctx.quick else 400})
    ctx.validate(files)


@check("C05", ["C05_"])
def c05(ctx):
    recv_component(ctx, "C05")
    files = transfer_family(ctx)
    files += xfer_traces(ctx, ["lossy", "reorder", "wrap", "pr", "zwin", "basic"], 160, 4000)
    ctx.validate(files)


@check("C06", ["C06_"])
def c06(ctx):
    recv_component(ctx, "C06")
    files = xfer_traces(ctx, ["pr", "pr", "lossy", "reorder", "il"], 160, 4000)
    files += transfer_family(ctx, design=False, pr=True)   # Transfer.tla environment schedules under partial reliability
    # what a partially reliable stream gives up must not take reliable traffic of the same association with it
    files += directed_traces(ctx, "prdir", 8, {"VF_FULL": "0" if ctx.quick else "1", "VF_ONLY": "relfrag"})
    # retransmission limits while the peer's window is closed (window probes are transmissions too)
    files += directed_traces(ctx, "zwdir", 6, {"VF_ONLY": "prtrue"})
    ctx.validate(files)


@check("C11", ["C11_"])
def c11(ctx):
    reasm_component(ctx, "C11")
    files = xfer_traces(ctx, ["zwin", "pr", "lossy", "reorder", "il", "basic"], 160, 4000)
    files += directed_traces(ctx, "zwdir", 6)
    # an I-FORWARD-TSN (from a foreign stack) that skips an ordered and an unordered message of one stream at once
    files += directed_traces(ctx, "foreign", 2, {"VF_ONLY": "ifwd-both"})
    # stream resets with a reader that has not read everything yet (known finding F23 reproduces here)
    files += reconfig_family(ctx, light=ctx.quick)
    ctx.validate(files)


@check("C02", ["C02_"])
def c02(ctx):
    files = transfer_family(ctx)
    files += xfer_traces(ctx, ["zwin", "lossy", "reorder", "wrap", "basic", "il", "tiny", "zwin"], 200, 5000)
    files += lockorder_family(ctx)
    ctx.validate(files)


def prsctp_family(ctx):
    """PrSctp.tla engine slice (abandonment, Advanced.Peer.Ack.Point, FORWARD-TSN content, receiver skip): exhaustive
    TLC, negative control (ack point stepping over gap-acked chunks must destroy a reliable message) whose
    counterexamples are replayed too, breadth-first behaviours replayed content-keyed on real associations."""
    binp = ctx.harness()
    for c in (("q0", "q1") if ctx.quick else ("q0", "q1", "r0", "r1")):
        ctx.tlc_design("MC_PrSctp", "MC_PrSctp_%s.cfg" % c, workers=8, timeout=3000, heap="12g")
    out = ctx.scr.mkdir("xrprm")
    files = []
    for rl, cfgs in ((0, ["MC_PrSctp_neg.cfg", "MC_PrSctp_emit10.cfg"] + ([] if ctx.quick else ["MC_PrSctp_emit8.cfg", "MC_PrSctp_emit12.cfg"])),
                     (1, ["MC_PrSctp_emit10_rl1.cfg"] + ([] if ctx.quick else ["MC_PrSctp_emit12_rl1.cfg"]))):
        paths = []
        for cfg in cfgs:
            if cfg.endswith("neg.cfg"):
                paths.append(tlc_behaviours(ctx, "MC_PrSctp", cfg, 1, 1, workers=2, expect_violation="NoReliableSkippedP")[0])
            else:
                paths.append(tlc_behaviours(ctx, "MC_PrSctp", cfg, 1, 10, workers=4, bfs=True, cap=200 if ctx.quick else 4000, timeout=1200)[0])
        allb = os.path.join(out, "behaviours-rl%d.jsonl" % rl)
        with open(allb, "w") as f:
            for p in paths:
                f.write(open(p).read())
        nb = sum(1 for _ in open(allb))
        ps = L.run_shards(binp, "xfer-replay", out, 4, {"VF_IN": allb, "VF_NSHARDS": 4, "VF_PRMODEL": 1, "VF_RL": rl})
        for p in ps:
            if p.returncode != 0:
                raise L.MachineryError("xfer-replay (PrSctp) failed: " + (p.stdout + p.stderr)[-2000:])
        ctx.replayed += nb
    ctx.distinct.add(("prsctp-schedules",))
    return sorted(glob.glob(os.path.join(out, "xrprm*.ndjson")))


@check("C07", ["C07_"])
def c07(ctx):
    reasm_component(ctx, "C07", replay=not ctx.quick)
    files = xfer_traces(ctx, ["pr", "pr", "pr", "lossy", "il"], 120, 5000)
    files += directed_traces(ctx, "prdir", 8 if ctx.quick else 16, {"VF_FULL": "0" if ctx.quick else "1"})
    files += directed_traces(ctx, "foreign", 2, {"VF_ONLY": "ifwd-both"})
    files += transfer_family(ctx, design=False, pr=True)   # Transfer.tla environment schedules under partial reliability
    files += prsctp_family(ctx)
    ctx.exhaustive = True
    ctx.notes.append("prdir: every set of <= 2 dropped (message, fragment) first transmissions over 3 message shapes x ordered/unordered x DATA/I-DATA "
                     "(+ lost FORWARD-TSN, differently configured receiver, mixed ordering variants) is enumerated")
    ctx.validate(files)


@check("C15", ["C15_"])
def c15(ctx):
    files = directed_traces(ctx, "reconfig", 8, {"VF_FULL": "0"})
    files += directed_traces(ctx, "api", 8)
    files += xfer_traces(ctx, ["basic", "lossy", "pr", "zwin", "il", "reorder"], 160, 4000)
    ctx.validate(files)


def timers_component(ctx):
    """Timers.tla: exhaustive TLC over start/stop/close/advance interleavings of the rtx and ack timers,
    TLC behaviours replayed lock-step into the real rtxTimer/ackTimer in virtual time, and the real
    rtoManager's outputs validated against RtoNext."""
    binp = ctx.harness()
    for mr, mx in ((2, 4000), (0, 60000)) + (() if ctx.quick else ((0, 4000), (2, 60000))):
        ctx.tlc_design("MC_Timers", "MC_Timers_%d_%d.cfg" % (mr, mx), workers=4, timeout=600)
        path, nb = tlc_behaviours(ctx, "MC_Timers", "MC_Timers_%d_%d_sim.cfg" % (mr, mx), 160 if ctx.quick else 4000, 16)
        out = ctx.scr.mkdir("timers")
        p = L.run_harness(binp, "timers-replay", out, {"VF_IN": path, "VF_MAXRETRANS": mr, "VF_RTOMAX": mx})
        if p.returncode != 0:
            raise L.MachineryError("timers-replay failed: " + (p.stdout + p.stderr)[-2000:])
        res = json.load(open(os.path.join(out, "timers-replay-%d-%d.json" % (mr, mx))))
        ctx.replayed += res["ops"]
        ctx.evaluations += res["ops"]
        for m in res["mismatches"]:
            ctx.add_violation("C19_Timers_" + m["field"], "timers-replay maxRetrans=%d rtoMax=%d" % (mr, mx), [m["op"], m["arg"], m["got"], m["step"]])
        if len(ctx.samples) < 2:
            ctx.samples.append({"timers_behaviour": open(path).readline()[:500]})
    out = ctx.scr.mkdir("rto")
    p = L.run_harness(binp, "rto-trace", out, {"VF_SEED": ctx.seed, "VF_N": 200 if ctx.quick else 5000})
    if p.returncode != 0:
        raise L.MachineryError("rto-trace failed: " + (p.stdout + p.stderr)[-2000:])
    ctx.validate([os.path.join(out, "rto-0.ndjson")], module="RtoTrace", cfg="RtoTrace.cfg")
    ctx.distinct.add(("timers-component",))


@check("C19", ["C19_"])
def c19(ctx):
    timers_component(ctx)
    files = transfer_family(ctx, design=False)
    files += directed_traces(ctx, "api", 8)
    files += xfer_traces(ctx, ["reorder", "lossy", "basic", "clean"], 160, 4000)
    ctx.validate(files)


@check("C16", ["C16_"])
def c16(ctx):
    binp = ctx.harness()
    for m in (8, 16, 32, 64):
        ctx.tlc_design("MC_Serial", "MC_Serial_%d.cfg" % m, workers=4, timeout=300)
    out = ctx.scr.mkdir("sna")
    p = L.run_harness(binp, "sna-trace", out, {"VF_SEED": ctx.seed, "VF_N": 5000 if ctx.quick else 100000})
    if p.returncode != 0:
        raise L.MachineryError("sna-trace failed: " + (p.stdout + p.stderr)[-2000:])
    ctx.validate([os.path.join(out, "sna-0.ndjson")], module="SerialTrace", cfg="SerialTrace.cfg")
    recv_component(ctx, "C16")
    reasm_component(ctx, "C16", replay=not ctx.quick)
    files = directed_traces(ctx, "wrapdiff", 8 if ctx.quick else 16, {"VF_N": 3 if ctx.quick else 40, "VF_NBASES": 4 if ctx.quick else 10})
    files += xfer_traces(ctx, ["wrap"], 48, 2000)
    files += directed_traces(ctx, "prdir", 8, {"VF_FULL": "0" if ctx.quick else "1", "VF_ONLY": "wrap"})
    # blocking writes that time out holding the last SSN / MID before the wrap: the roll-back crosses it
    files += directed_traces(ctx, "api", 8, {"VF_ONLY": "blockwrite"})
    # every property monitor must hold in runs whose sequence numbers cross their wraps
    ctx.validate(files, claim_all="C16_AtWrap")
    ctx.notes.append("wrap invisibility is decided by validating runs at wrap bases (TSN) and with SSN/MID counters preset below their wraps, "
                     "normalised, against the base-free specifications; a trace-equality differential between bases was removed (false alarms from "
                     "legitimate scheduling differences). All 2^32 pairs of 16-bit values are NOT enumerated (laws for M<=64 + boundary grid + sample)")


@check("C17", ["C17_"])
def c17(ctx):
    binp = ctx.harness()
    for m in ("msg", "rr", "wfq"):
        ctx.tlc_design("MC_Sched", "MC_Sched_%s_bfs%d.cfg" % (m, 6 if ctx.quick else 7), timeout=2400, heap="16g")
        path, nb = tlc_behaviours(ctx, "MC_Sched", "MC_Sched_%s_sim.cfg" % m, 32 if ctx.quick else 300, 26)
        out = ctx.scr.mkdir("schedreplay")
        p = L.run_harness(binp, "sched-replay", out, {"VF_IN": path, "VF_SCHED": m})
        if p.returncode != 0:
            raise L.MachineryError("sched-replay failed: " + (p.stdout + p.stderr)[-2000:])
        res = json.load(open(os.path.join(out, "sched-replay-%s.json" % m)))
        ctx.replayed += res["ops"]
        ctx.evaluations += res["ops"]
        for mm in res["mismatches"]:
            ctx.add_violation("C17_Sched_" + mm["field"], "sched-replay %s" % m, [mm["op"], m, mm["step"]])
        if len(ctx.samples) < 3:
            ctx.samples.append({"sched_behaviour": open(path).readline()[:500]})
    out = ctx.scr.mkdir("schedtrace")
    ps = L.run_shards(binp, "sched-trace", out, 4 if ctx.quick else 16, {"VF_N": 90 if ctx.quick else 1500, "VF_SEED": ctx.seed})
    for p in ps:
        if p.returncode != 0:
            raise L.MachineryError("sched-trace failed: " + (p.stdout + p.stderr)[-2000:])
    ctx.validate(sorted(glob.glob(os.path.join(out, "sched-*.ndjson"))), module="SchedTrace", cfg="SchedTrace.cfg")
    ctx.distinct.add(("sched-component",))
    files = xfer_traces(ctx, ["il", "il", "basic", "pr", "lossy"], 120, 3000)
    # a chunk of the kind that was NOT negotiated is a protocol violation wherever its TSN lies (adversary classes *wrong*)
    out = ctx.scr.mkdir("advkind")
    ps = L.run_shards(binp, "adversary", out, 8, {"VF_NSHARDS": 8, "VF_ONLY": "wrong"})
    crash_as_violation(ctx, ps, out, "adversary", "C17_Panic")
    files += sorted(glob.glob(os.path.join(out, "adversary-*.ndjson")))
    # "interleaved framing exactly when both enabled it" also for associations started from exchanged tokens, with
    # and without association options that contradict the token (hs-tokens-*, hs-tokens-mis-*)
    files += directed_traces(ctx, "hs-special", 1)
    # a peer that lists I-DATA and FORWARD-TSN but not I-FORWARD-TSN
    files += directed_traces(ctx, "foreign", 2, {"VF_ONLY": "ext-no-ifwd"})
    ctx.validate(files)


def handshake_family(ctx, opts_quick=(0, 5, 10, 15), nbeh_quick=40, nbeh_thorough=400):
    """Handshake.tla: exhaustive TLC per (role, option) case + behaviours replayed on the real code."""
    from concurrent.futures import ThreadPoolExecutor
    binp = ctx.harness()
    roles = (1, 2, 3)
    opts = opts_quick if ctx.quick else tuple(range(16))
    cases = [(r, o) for r in roles for o in opts]

    def design(case):
        r, o = case
        return L.run_tlc(ctx.scr, "MC_Handshake", "MC_Handshake_r%d_o%d.cfg" % (r, o), workers=2, timeout=900, heap="3g")
    with ThreadPoolExecutor(max_workers=8) as ex:
        rs = list(ex.map(design, cases))
    for (r, o), res in zip(cases, rs):
        ctx.design.append({"module": "MC_Handshake", "cfg": "r%d_o%d" % (r, o), "distinct": res["distinct"], "generated": res["generated"],
                           "wall_s": res["wall_s"], "ok": res["ok"], "cmd": res["cmd"]})
        if not res["ok"]:
            raise L.MachineryError("design-level Handshake model r%d o%d did not pass:\n%s" % (r, o, "\n".join(res["out"].splitlines()[-40:])))
    ctx.tlc_design("MC_Handshake", "MC_Handshake_silent.cfg", workers=2, timeout=300)
    out = ctx.scr.mkdir("hs")

    def replay(case):
        r, o = case
        path, nb = tlc_behaviours(ctx, "MC_Handshake", "MC_Handshake_r%d_o%d_sim.cfg" % (r, o), nbeh_quick if ctx.quick else nbeh_thorough, 40,
                                  seed=ctx.seed * 100 + r * 16 + o, workers=2)
        p = L.run_harness(binp, "hs-replay", out, {"VF_IN": path, "VF_ROLE": r, "VF_OPT": o, "VF_NSHARDS": 1, "VF_SHARD": 0})
        if p.returncode != 0:
            raise L.MachineryError("hs-replay failed: " + (p.stdout + p.stderr)[-2000:])
        return path, nb
    with ThreadPoolExecutor(max_workers=6) as ex:
        res = list(ex.map(replay, cases))
    for (path, nb), (r, o) in zip(res, cases):
        ctx.replayed += nb
        ctx.distinct.add(("hs", r, o))
        if len(ctx.samples) < 3:
            ctx.samples.append({"handshake_schedule": open(path).readline()[:700]})
    files = sorted(glob.glob(os.path.join(out, "hs-*.ndjson")))
    files += directed_traces(ctx, "hs-special", 1)
    return files


@check("C04", ["C04_"])
def c04(ctx):
    files = handshake_family(ctx)
    # a peer that lists I-DATA and FORWARD-TSN but not I-FORWARD-TSN: agreement on the forward-TSN variant
    files += directed_traces(ctx, "foreign", 2, {"VF_ONLY": "ext-no-ifwd"})
    ctx.validate(files)
    ctx.rule = ("every (role assignment x option combination) case: exhaustive TLC of Handshake.tla (<=2 losses/delays, <=1 duplicate, all "
                "orders) and TLC-simulated fault schedules replayed on the real code at 4 initial-TSN pairs; plus silent-peer, closed-transport "
                "and out-of-band-token scenarios")


@check("C13", ["C13_"])
def c13(ctx):
    files = directed_traces(ctx, "cksum", 8, {"VF_NFLIPS": 48 if ctx.quick else 250})
    files += handshake_family(ctx, opts_quick=(0, 4, 8, 12), nbeh_quick=20, nbeh_thorough=150)
    files += xfer_traces(ctx, ["basic", "lossy", "pr", "il"], 64, 2000)
    ctx.validate(files)
    ctx.notes.append("cksum: all 4 per-side zero-checksum option combinations x DATA/I-DATA x {wrong, zero, correct, bit-flipped} copies of every genuine "
                     "packet (incl. INIT and COOKIE-ECHO) injected before the genuine one; emission rule monitored on every packet of every run")


def shutdown_family(ctx):
    """Shutdown.tla engine slice: exhaustive TLC (who calls x data outstanding x loss / re-ordering / T2 / T3) and
    breadth-first exported behaviours replayed content-keyed on real associations, judged by ObsTrace (C08)."""
    binp = ctx.harness()
    for c in (("a", "b") if ctx.quick else ("a", "b", "c")):
        ctx.tlc_design("MC_Shutdown", "MC_Shutdown_%s.cfg" % c, workers=8, timeout=1800, heap="8g")
    paths = []
    for d, cap in ((10, 320),) if ctx.quick else ((8, None), (10, 6000), (12, 6000)):
        paths.append(tlc_behaviours(ctx, "MC_Shutdown", "MC_Shutdown_emit%d.cfg" % d, 1, d, workers=4, bfs=True, cap=cap, timeout=1200)[0])
    allb = os.path.join(ctx.scr.mkdir("sr"), "behaviours.jsonl")
    with open(allb, "w") as f:
        for p in paths:
            f.write(open(p).read())
    nb = sum(1 for _ in open(allb))
    out = ctx.scr.mkdir("sr")
    nsh = 8 if ctx.quick else 16
    ps = L.run_shards(binp, "shut-replay", out, nsh, {"VF_IN": allb, "VF_NSHARDS": nsh, "VF_NA": 2, "VF_NB": 1})
    for p in ps:
        if p.returncode != 0:
            raise L.MachineryError("shut-replay failed: " + (p.stdout + p.stderr)[-2000:])
    drift = sum(json.load(open(f))["drift"] for f in glob.glob(os.path.join(out, "sr-*.json")))
    ctx.replayed += nb
    ctx.distinct.add(("shutdown-schedules",))
    ctx.notes.append("Shutdown.tla behaviours replayed: %d, of which the real code could not follow %d (drift, not a verdict)" % (nb, drift))
    if drift * 4 > nb:   # judged at the end: only a machinery failure if no monitor explains it
        ctx.drift_guard.append("more than 25%% of the Shutdown behaviours drifted (%d of %d): model and code disagree on the protocol" % (drift, nb))
    if len(ctx.samples) < 4:
        ctx.samples.append({"shutdown_schedule": open(allb).readline()[:500]})
    return sorted(glob.glob(os.path.join(out, "sr-*.ndjson")))


@check("C08", ["C08_"])
def c08(ctx):
    files = shutdown_family(ctx)
    files += directed_traces(ctx, "shutdown", 12 if ctx.quick else 16, {"VF_FULL": "0" if ctx.quick else "1"})
    ctx.exhaustive = not ctx.quick
    ctx.notes.append("shutdown: who calls (A, B, both) x queued messages x every <=1 (quick: + sampled pairs; thorough: all pairs) loss/duplication "
                     "decision over (kind, sender, ordinal) of DATA/SACK/SHUTDOWN/SHUTDOWN-ACK/SHUTDOWN-COMPLETE")
    files += directed_traces(ctx, "rebundle", 8, {"VF_N": 24 if ctx.quick else 400})   # SHUTDOWN bundled with SACK / DATA
    ctx.validate(files)


def reconfig_family(ctx, light=False):
    """Reconfig.tla engine slice (stream reset protocol for one identifier incl. re-opening, lost/re-ordered RE-CONFIG
    packets, reconfig timer): exhaustive TLC on the model of the code as fixed, negative controls for the two defects
    it found (F21, F22), and TLC behaviours (breadth-first export + the negative controls' counterexamples) replayed
    content-keyed on real associations; the recorded traces are judged by ObsTrace."""
    binp = ctx.harness()
    if not light:
        ctx.tlc_design("Reconfig", "MC_Reconfig_fixed.cfg" if ctx.quick else "MC_Reconfig_fixed3.cfg", timeout=3000, heap="12g")
    paths = []
    for cfg, inv in (("MC_Reconfig_pinned_f21.cfg", "EofOnlyAfterCloseP"), ("MC_Reconfig_pinned_f22.cfg", "NoMidStreamRenumberingP")):
        paths.append(tlc_behaviours(ctx, "Reconfig", cfg, 1, 1, workers=1, expect_violation=inv)[0])
    for d, cap in ((11, 150),) if light else ((11, 240), (13, 360)) if ctx.quick else ((11, None), (13, None), (15, 6000)):
        paths.append(tlc_behaviours(ctx, "Reconfig", "MC_Reconfig_emit%d.cfg" % d, 1, d, workers=4, bfs=True, cap=cap, timeout=1200)[0])
    # hand-written behaviours (teardown racing a pending "in progress" response, ...)
    paths.append(os.path.join(L.SPEC, "Reconfig_directed.jsonl"))
    allb = os.path.join(ctx.scr.mkdir("rr"), "behaviours.jsonl")
    with open(allb, "w") as f:
        for p in paths:
            f.write(open(p).read())
    nb = sum(1 for _ in open(allb))
    out = ctx.scr.mkdir("rr")
    nsh = 8 if ctx.quick else 16
    ps = L.run_shards(binp, "reco-replay", out, nsh, {"VF_IN": allb, "VF_NSHARDS": nsh})
    for p in ps:
        if p.returncode != 0:
            raise L.MachineryError("reco-replay failed: " + (p.stdout + p.stderr)[-2000:])
    drift = sum(json.load(open(f))["drift"] for f in glob.glob(os.path.join(out, "rr-*.json")))
    ctx.replayed += nb
    ctx.distinct.add(("reconfig-schedules",))
    ctx.notes.append("Reconfig.tla behaviours replayed: %d, of which the real code could not follow %d (drift, not a verdict)" % (nb, drift))
    if drift * 5 > nb:
        ctx.drift_guard.append("more than 20%% of the Reconfig behaviours drifted (%d of %d): model and code disagree on the protocol" % (drift, nb))
    if len(ctx.samples) < 4:
        ctx.samples.append({"reconfig_schedule": open(allb).readline()[:500]})
    return sorted(glob.glob(os.path.join(out, "rr-*.ndjson")))


@check("C14", ["C14_"])
def c14(ctx):
    files = reconfig_family(ctx)
    files += directed_traces(ctx, "reconfig", 12 if ctx.quick else 16, {"VF_FULL": "0" if ctx.quick else "1"})
    ctx.notes.append("reconfig: 1-3 streams closing at once x 0/1/3 queued messages x two close/reopen cycles x every single (quick: + sampled pairs; "
                     "thorough: all pairs) loss/duplication decision over (kind, sender, ordinal<=3) of DATA/SACK/RECONFIG")
    files += directed_traces(ctx, "rebundle", 8, {"VF_N": 24 if ctx.quick else 400})   # RE-CONFIG bundled with the DATA / SACK around it
    ctx.validate(files)


@check("C18", ["C18_"])
def c18(ctx):
    files = directed_traces(ctx, "api", 8)
    files += directed_traces(ctx, "shutdown", 8, {"VF_FULL": "0"})
    files += directed_traces(ctx, "reconfig", 8, {"VF_FULL": "0"})
    # vacuity guard: the scenarios this property is about must really have happened in the recorded runs
    need = {"short-buffer read": '"err":"short"', "read deadline expiry": '"err":"deadline"', "rejected oversize write": '"err":"toolarge"',
            "write on a closed stream": '"err":"streamclosed"', "write on an association that is not established": '"err":"notestablished"'}
    seen = {k: 0 for k in need}
    for f in files:
        with open(f) as fh:
            for line in fh:
                if '"ev":"read"' in line or '"ev":"write"' in line:
                    for k, pat in need.items():
                        if pat in line:
                            seen[k] += 1
    ctx.notes.append("api/shutdown/reconfig family coverage (events): " + ", ".join("%s=%d" % kv for kv in sorted(seen.items())))
    for k, v in seen.items():
        if v == 0:
            raise L.MachineryError("vacuous API scenarios: no %s occurred in any recorded scenario" % k)
    files += xfer_traces(ctx, ["basic", "lossy", "il"], 64, 2000)
    # the delivery monitors must keep holding around rejected / failed calls
    ctx.validate(files)


@check("C12", ["C12_"])
def c12(ctx):
    binp = ctx.harness()
    cfg = "MC_Framing_2.cfg" if ctx.quick else "MC_Framing_3.cfg"
    r = L.run_tlc(ctx.scr, "MC_Framing", cfg, workers=8, timeout=1500, heap="8g")
    if not r["ok"]:
        raise L.MachineryError("MC_Framing did not pass:\n" + "\n".join(r["out"].splitlines()[-30:]))
    ctx.design.append({"module": "MC_Framing", "cfg": cfg, "distinct": r["distinct"], "generated": r["generated"], "wall_s": r["wall_s"], "ok": True, "cmd": r["cmd"]})
    path = os.path.join(r["wd"], "bundles.jsonl")
    n = 0
    with open(path, "w") as f:
        for line in r["out"].splitlines():
            m = re.match(r'<<"BEHAVIOUR", "(.*)">>\s*$', line)
            if m:
                f.write(m.group(1).replace('\\"', '"').replace("\\\\", "\\") + "\n")
                n += 1
    ctx.replayed += n
    ctx.exhaustive = True
    ctx.distinct.add(("framing-bundles", n))
    ctx.samples.append({"bundle": open(path).readline().strip()})
    out = ctx.scr.mkdir("framing")
    ps = L.run_shards(binp, "framing", out, 8, {"VF_IN": path, "VF_NSHARDS": 8, "VF_NSEEDS": 2 if ctx.quick else 4})
    for p in ps:
        if p.returncode != 0:
            raise L.MachineryError("framing failed: " + (p.stdout + p.stderr)[-2000:])
    ctx.validate(sorted(glob.glob(os.path.join(out, "framing-*.ndjson"))), module="FramingTrace", cfg="FramingTrace.cfg")
    # every packet emitted by associations in simulated runs
    files = directed_traces(ctx, "api", 8)
    files += directed_traces(ctx, "reconfig", 8, {"VF_FULL": "0"})
    files += directed_traces(ctx, "shutdown", 8, {"VF_FULL": "0"})
    files += xfer_traces(ctx, ["basic", "pr", "il", "lossy", "tiny"], 64, 3000)
    ctx.validate(files)
    # "alone or bundled": the same chunks re-bundled in transit must have the same effect -- every monitor counts here
    ctx.validate(directed_traces(ctx, "rebundle", 8, {"VF_N": 24 if ctx.quick else 400}), claim_all="C12_Bundled")
    ctx.notes.append("every bundle of <= %d chunk variants (31 variants over all 16 chunk kinds) enumerated by TLC, concretised with boundary field values; "
                     "bit-exact fidelity for ALL field values is not claimed (boundary grid)" % (2 if ctx.quick else 3))


def crash_as_violation(ctx, ps, outdir, mode, mon):
    """A harness process that died (a panic in a pion goroutine cannot be recovered from outside) is a
    verdict for the properties whose subject is 'never panics': the journal names the scenario."""
    for k, p in enumerate(ps):
        if p.returncode == 0:
            continue
        text = p.stdout + p.stderr
        scen = "?"
        try:
            scen = json.load(open(os.path.join(outdir, "%s-%d.journal" % (mode, k)))).get("scenario", "?")
        except Exception:
            pass
        if "blocked goroutines remain" in text:
            # synctest: the scenario returned while goroutines of its bubble were still blocked for good
            ctx.add_violation(mon.replace("Panic", "GoroutinesRemainBlocked"), scen, ["a call or background goroutine never terminated"])
        elif "panic:" in text or "fatal error:" in text:
            first = [ln for ln in text.splitlines() if ln.startswith("panic:") or ln.startswith("fatal error:")][:1]
            ctx.add_violation(mon, scen, [first[0][:200] if first else "panic"])
        elif "scenarios hung" in text or "VF-HANG" in text:
            hung = re.findall(r"VF-HANG scenario=(\S+)", text)
            ctx.add_violation(mon.replace("Panic", "Hang"), hung[0] if hung else scen, ["real-time watchdog", hung[:8]])
        else:
            raise L.MachineryError("harness %s failed:\n" % mode + text[-3000:])


@check("C03", ["C03_"])
def c03(ctx):
    binp = ctx.harness()
    # framing level: every length malformation of every enumerated bundle (shared with C12)
    cfg = "MC_Framing_2.cfg"
    r = L.run_tlc(ctx.scr, "MC_Framing", cfg, workers=8, timeout=900, heap="8g")
    if not r["ok"]:
        raise L.MachineryError("MC_Framing did not pass")
    ctx.design.append({"module": "MC_Framing", "cfg": cfg, "distinct": r["distinct"], "generated": r["generated"], "wall_s": r["wall_s"], "ok": True, "cmd": r["cmd"]})
    path = os.path.join(r["wd"], "bundles.jsonl")
    with open(path, "w") as f:
        for line in r["out"].splitlines():
            m = re.match(r'<<"BEHAVIOUR", "(.*)">>\s*$', line)
            if m:
                f.write(m.group(1).replace('\\"', '"').replace("\\\\", "\\") + "\n")
    out = ctx.scr.mkdir("framing")
    ps = L.run_shards(binp, "framing", out, 8, {"VF_IN": path, "VF_NSHARDS": 8, "VF_NSEEDS": 1})
    crash_as_violation(ctx, ps, out, "framing", "C03_Panic")
    ctx.validate(sorted(glob.glob(os.path.join(out, "framing-*.ndjson"))), module="FramingTrace", cfg="FramingTrace.cfg")
    # state x class matrix
    out = ctx.scr.mkdir("adversary")
    ps = L.run_shards(binp, "adversary", out, 16, {"VF_NSHARDS": 16})
    crash_as_violation(ctx, ps, out, "adversary", "C03_Panic")
    files = sorted(glob.glob(os.path.join(out, "adversary-*.ndjson")))
    for f in files:
        for line in open(f):
            if '"ev":"cfg"' in line:
                ctx.distinct.add(("adv", json.loads(line)["label"].split("#")[0]))
    ctx.exhaustive = True
    # seeded byte-level mutations of genuine packets
    out2 = ctx.scr.mkdir("fuzz")
    ps = L.run_shards(binp, "fuzz", out2, 8 if ctx.quick else 16, {"VF_N": 6 if ctx.quick else 60, "VF_NMUT": 20 if ctx.quick else 30, "VF_SEED": ctx.seed})
    crash_as_violation(ctx, ps, out2, "fuzz", "C03_Panic")
    files += sorted(glob.glob(os.path.join(out2, "fuzz-*.ndjson")))
    # recv component: inbound-driven structure must not panic either
    recv_component(ctx, "C03")
    ctx.validate(files)
    ctx.notes.append("adversary: 8 association situations x 58 invalid/misplaced packet classes x DATA/I-DATA x both endpoints, each followed by normal "
                     "traffic to completion; fuzz: seeded mutations (bit flips, truncation, length edits, splices, garbage) of genuine packets; "
                     "'all byte strings' is sampled, not enumerated (DESIGN section 6)")


EXTRA["C01"] = ["C06_Intact", "C06_Genuine", "C06_AtMostOnce", "C12_Ppi", "C02_Delivered"]   # "payload bytes and payload protocol identifier ... nothing lost, duplicated, altered"
EXTRA["C06"] = ["C01_SkippedReliable", "C02_Delivered", "C01_ReadNext"]   # fully reliable streams next to partially reliable ones
EXTRA["C07"] = ["C01_SkippedReliable", "C02_Delivered", "C01_ReadNext", "C06_Genuine"]   # "never block or destroy anything else": the reliable traffic next to it
EXTRA["C08"] = ["C09_NoLeak"]   # a shutdown that leaves goroutines blocked for good
EXTRA["C14"] = ["C02_Delivered", "C01_ReadNext", "C06_Genuine", "C06_AtMostOnce", "C06_OrderedSubseq"]   # "normal delivery" of a re-opened identifier
EXTRA["C17"] = ["C04_Agreement"]   # "both endpoints use interleaved framing exactly when both enabled it"
EXTRA["C03"] = ["C01_", "C02_Delivered", "C06_Genuine", "C06_AtMostOnce", "C17_WrongKindAbort"]


def lockorder_family(ctx):
    """Real-time lock-order episodes (a slowed-down handler under the association lock vs. an expiring timer):
    the only verdict is a certified lock cycle (C09_Deadlock, claimed by every check)."""
    binp = ctx.harness()
    # design level: the lock hierarchy between association lock and timer mutex (and its negative control)
    ctx.tlc_design("TimerLock", "TimerLock_ok.cfg", workers=2, timeout=300)
    neg = L.run_tlc(ctx.scr, "TimerLock", "TimerLock_neg.cfg", workers=1, timeout=300)
    if "NoDeadlock" not in neg["invariant_violated"]:
        raise L.MachineryError("negative control failed: TimerLock with the mutex held in the callback must deadlock\n" + neg["out"][-1500:])
    ctx.design.append({"module": "TimerLock", "cfg": "TimerLock_neg.cfg (negative control: deadlock expected and found)", "distinct": neg["distinct"],
                       "generated": neg["generated"], "wall_s": neg["wall_s"], "ok": True, "cmd": neg["cmd"]})
    out = ctx.scr.mkdir("lockorder")
    n = 2 if ctx.quick else 6
    ps = L.run_shards(binp, "lockorder-rt", out, n, {})
    for p in ps:
        if p.returncode != 0:
            raise L.MachineryError("lockorder-rt failed: " + (p.stdout + p.stderr)[-2000:])
    ctx.distinct.add(("lock-order-episodes",))
    # association lock vs. stream lock vs. write lock (StreamLock.tla, two negative controls); bound by lockapi-rt: the read
    # loop parked in an inbound handler while every public call on that stream is started
    ctx.tlc_design("StreamLock", "StreamLock_ok.cfg", workers=2, timeout=300)
    for c, why in (("neg_close", "Close keeping the stream lock across the reset request"), ("neg_cb", "the released-bytes callback running under the association lock"),
                   ("neg_rlock", "the write loop taking the stream's read lock twice")):
        neg = L.run_tlc(ctx.scr, "StreamLock", "StreamLock_%s.cfg" % c, workers=1, timeout=300)
        if "NoDeadlock" not in neg["invariant_violated"]:
            raise L.MachineryError("negative control failed: StreamLock with %s must deadlock\n" % why + neg["out"][-1500:])
        ctx.design.append({"module": "StreamLock", "cfg": "StreamLock_%s.cfg (negative control: deadlock expected and found)" % c, "distinct": neg["distinct"],
                           "generated": neg["generated"], "wall_s": neg["wall_s"], "ok": True, "cmd": neg["cmd"]})
    n = 8 if ctx.quick else 16
    ps = L.run_shards(binp, "lockapi-rt", out, n, {})
    for p in ps:
        if p.returncode != 0:
            raise L.MachineryError("lockapi-rt failed: " + (p.stdout + p.stderr)[-2000:])
    ctx.distinct.add(("lock-api-episodes",))
    ps = L.run_shards(binp, "setters-rt", out, 4 if ctx.quick else 8, {})
    for p in ps:
        if p.returncode != 0:
            raise L.MachineryError("setters-rt failed: " + (p.stdout + p.stderr)[-2000:])
    ctx.distinct.add(("setter-stress-episodes",))
    return sorted(glob.glob(os.path.join(out, "lockorder-rt-*.ndjson")) + glob.glob(os.path.join(out, "lockapi-rt-*.ndjson")) + glob.glob(os.path.join(out, "setters-rt-*.ndjson")))


def lifecycle_design(ctx):
    """Lifecycle.tla (PlusCal): goroutine/lock/channel skeleton of one association; TLC checks the lock order
    and `transport closed ~> every goroutine and caller done` under weak fairness. Bound to the code by outcomes:
    its counterexamples are turned into driver scenarios (hs-late-after-fail) and every scenario of the crash /
    storm / handshake families is watched for certified deadlocks and leaked goroutines."""
    # thorough: t2 = two Close callers + blocked reader, 2 packets (4.19 M states, 7.5 min on 6 busy cores), t1 = Close + Abort +
    # reader, 2 packets (7.98 M states, 15 min). The former "full" configuration (both) exceeds 17 M states after 20 min
    # without finishing and is not part of a tier.
    for c in (("q1", "q2", "q3", "q4") if ctx.quick else ("q1", "q2", "q3", "q4", "t2", "t1")):
        ctx.tlc_design("Lifecycle", "Lifecycle_%s.cfg" % c, workers=8 if ctx.quick else L.NCPU, timeout=5400, heap="16g" if c.startswith("t") else "8g")


@check("C09", ["C09_"])
def c09(ctx):
    ctx.level = "fault_enumeration"
    binp = ctx.harness()
    lifecycle_design(ctx)
    hs = directed_traces(ctx, "hs-special", 1)
    out = ctx.scr.mkdir("crash")
    ps = L.run_shards(binp, "crash", out, 16, {"VF_NSHARDS": 16, "VF_STRIDE": 3 if ctx.quick else 1})
    crash_as_violation(ctx, ps, out, "crash", "C09_Panic")
    files = sorted(glob.glob(os.path.join(out, "crash-*.ndjson")))
    for f in files:
        for line in open(f):
            if '"ev":"cfg"' in line:
                lab = json.loads(line)["label"]
                ctx.distinct.add(("crash", re.sub(r"-at\d+#\d+", "", lab)))
    ctx.exhaustive = not ctx.quick
    ctx.notes.append("crash points: 5 base scenarios (handshake, transfer with loss, stream reset, graceful shutdown, blocked blocking writes) x DATA/I-DATA x "
                     "every %s wire event x {Close x3, Abort, read failure, write failure, transport close} x both sides, callers parked in connect, accept, "
                     "read, blocking write and shutdown" % ("third" if ctx.quick else "single"))
    # teardown racing the processing of RE-CONFIG packets (every fourth replayed Reconfig behaviour): timers stopped
    ctx.validate(files + hs + reconfig_family(ctx, light=True))


def race_scan(ctx, ps, out, mode):
    """A Go race detector report in a -race harness process is reported as C20_DataRace."""
    for k, p in enumerate(ps):
        if "WARNING: DATA RACE" in (p.stdout + p.stderr):
            scen = "?"
            try:
                scen = json.load(open(os.path.join(out, "%s-%d.journal" % (mode, k)))).get("scenario", "?")
            except Exception:
                pass
            txt = (p.stdout + p.stderr)
            i = txt.index("WARNING: DATA RACE")
            where = [ln.strip() for ln in txt[i:i + 3000].splitlines() if "pion/sctp." in ln][:2]
            ctx.add_violation("C20_DataRace", scen, where or ["race detector report"])
            # the race detector makes the process exit 66, or the test fail with "race detected during execution of test"
            if p.returncode == 66 or ("race detected during execution of test" in txt and "panic:" not in txt and "VF-HANG" not in txt):
                p.returncode = 0


@check("C20", ["C20_"])
def c20(ctx):
    binp = ctx.harness(race=True)
    out = ctx.scr.mkdir("storm")
    nsh = 8 if ctx.quick else 16
    ps = L.run_shards(binp, "storm", out, nsh, {"VF_N": 3 if ctx.quick else 60, "VF_SEED": ctx.seed, "VF_WATCHDOG_S": 180})
    race_scan(ctx, ps, out, "storm")
    crash_as_violation(ctx, ps, out, "storm", "C20_Panic")
    files = sorted(glob.glob(os.path.join(out, "storm-*.ndjson")))
    for f in files:
        for line in open(f):
            if '"ev":"cfg"' in line:
                ctx.distinct.add(("storm", json.loads(line)["label"]))
    lifecycle_design(ctx)
    files += lockorder_family(ctx)
    ctx.validate(files)
    # concurrent writers on ONE stream (blocking-write mode, short deadlines): WriteSeq.tla + real-time histories
    for c in ("lock", "nb_lock"):
        ctx.tlc_design("WriteSeq", "MC_WriteSeq_%s.cfg" % c, workers=4, timeout=600)
    for c in ("nolock", "nb_nolock"):
        neg = L.run_tlc(ctx.scr, "WriteSeq", "MC_WriteSeq_%s.cfg" % c, workers=2, timeout=300)
        if "GaplessInv" not in neg["invariant_violated"]:
            raise L.MachineryError("negative control failed: WriteSeq without the write lock must violate GaplessInv\n" + neg["out"][-1500:])
        ctx.design.append({"module": "WriteSeq", "cfg": "MC_WriteSeq_%s.cfg (negative control: violation expected and found)" % c, "distinct": neg["distinct"],
                           "generated": neg["generated"], "wall_s": neg["wall_s"], "ok": True, "cmd": neg["cmd"]})
    mw = ctx.scr.mkdir("mw")
    ps = L.run_shards(binp, "mw-rt", mw, 4 if ctx.quick else 16, {"VF_N": 3 if ctx.quick else 12, "VF_SEED": ctx.seed})
    race_scan(ctx, ps, mw, "mw-rt")
    crash_as_violation(ctx, ps, mw, "mw-rt", "C20_Panic")
    # ... and of an ordinary association while Shutdown is called concurrently
    ps = L.run_shards(binp, "mw-shut", mw, 4 if ctx.quick else 16, {"VF_N": 25 if ctx.quick else 120, "VF_SEED": ctx.seed})
    race_scan(ctx, ps, mw, "mw-shut")
    crash_as_violation(ctx, ps, mw, "mw-shut", "C20_Panic")
    # ... and writers entering / blocked in WriteSCTP while Close, Abort, Shutdown or a transport failure tears it down
    ps = L.run_shards(binp, "mw-close", mw, 4 if ctx.quick else 16, {"VF_N": 40 if ctx.quick else 200, "VF_SEED": ctx.seed})
    race_scan(ctx, ps, mw, "mw-close")
    crash_as_violation(ctx, ps, mw, "mw-close", "C20_Panic")
    ctx.validate(sorted(glob.glob(os.path.join(mw, "mw-rt-*.ndjson")) + glob.glob(os.path.join(mw, "mw-shut-*.ndjson")) + glob.glob(os.path.join(mw, "mw-close-*.ndjson"))),
                 module="WriteSeqTrace", cfg="WriteSeqTrace.cfg")
    ctx.distinct.add(("multi-writer-one-stream",))
    ctx.notes.append("mw-rt: 2-4 goroutines per stream write concurrently on the same stream of a blocking-write association with 0.5-15 ms deadlines "
                     "against a slow reader, in REAL time (a writer waiting on the stream's write mutex is not durably blocked for testing/synctest); "
                     "only timing-independent set laws are judged (WriteSeqTrace.tla)")
    ctx.notes.append("storms: one writer per stream on 3-6 streams per side, accept/read goroutines per stream, observers calling every accessor, "
                     "re-entrant low-threshold callbacks, heartbeats, stream closes, then concurrent Shutdown/Close/Abort; free-running lossy network; "
                     "binary built with -race (a race report is reported as C20_DataRace: that is the Go race detector's verdict, not a TLA+ one)")


EXTRA["C20"] = ["C09_Deadlock", "C09_CallsReturn", "C09_NoLeak", "C09_NoWriteAfterClose", "C01_", "C06_", "C18_", "C05_", "C12_", "C17_", "C14_SequenceNumber"]


@check("C10", ["C10_"])
def c10(ctx):
    files = transfer_family(ctx)
    files += xfer_traces(ctx, ["zwin", "lossy", "basic", "tiny", "big", "il"], 160, 4000)
    # what pion itself never sends: a SACK without progress that takes window back
    files += directed_traces(ctx, "foreign", 3, {"VF_ONLY": "window-shrink"})
    ctx.validate(files)


def replay(path):
    rec = json.load(open(path))
    print(json.dumps(rec.get("violation"), indent=1))
    print("trace events:", len(rec.get("trace", [])))
    return 0
