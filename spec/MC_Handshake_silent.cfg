SPECIFICATION Spec
CONSTANTS
 RoleCase = 1
 OptCase = 0
 SilentPeer = TRUE
 Client <- MCClient
 IL <- MCIL
 ZC <- MCZC
 Silent <- MCSilent
 MaxDrop = 1
 MaxDup = 0
 MaxRetry = 8
 Depth = 30
INVARIANTS TypeOK Agreement ConnectOk NoHang SilentFails
VIEW View
CHECK_DEADLOCK FALSE
