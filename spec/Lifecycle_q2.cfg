SPECIFICATION Spec
CONSTANTS
 MaxPkts = 2
 T1Retries = 1
 Closers = {6}
 Aborters = {}
 Readers = {}
 defaultInitValue = defaultInitValue
INVARIANT LockOrder
PROPERTY TerminatesWhenClosed
CHECK_DEADLOCK FALSE
