SPECIFICATION Spec
CONSTANTS
 IL = FALSE
 Depth = 10
INVARIANTS BytesExact TypeOK NoSplice AtMostOnce OrderedInOrder
VIEW View
CHECK_DEADLOCK FALSE
