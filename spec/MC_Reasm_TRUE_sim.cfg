SPECIFICATION Spec
CONSTANTS
 IL = TRUE
 Depth = 16
INVARIANTS BytesExact TypeOK NoSplice AtMostOnce OrderedInOrder
CONSTRAINT Emit
CHECK_DEADLOCK FALSE
