SPECIFICATION Spec
CONSTANTS
 W = 40000
 Depth = 14
INVARIANTS TypeOK SackSound
PROPERTY CumMonotone
CONSTRAINT Emit
CHECK_DEADLOCK FALSE
