-------------------------------- MODULE Timers --------------------------------
(***************************************************************************)
(* Specification of the retransmission timer (pion/sctp rtx_timer.go:      *)
(* rtxTimer) and the delayed-ack timer (ack_timer.go) with an explicit     *)
(* clock in milliseconds (C19):                                            *)
(*  - consecutive expiries are min(rto * 2^n, rtoMax) apart;               *)
(*  - with a retry limit N > 0 there are exactly N timeout callbacks and   *)
(*    then one failure callback; with N = 0 the timer never gives up;      *)
(*  - no callback after stop or close; start is a no-op unless stopped;    *)
(*  - the ack timer fires once, 200 ms after start.                        *)
(* The RTO manager (RFC 6298 smoothing, clamped to [1 s, rtoMax]) is       *)
(* specified in integer microseconds in RtoNext.                           *)
(***************************************************************************)
EXTENDS Integers, Sequences, TLC, Json

MinI(a, b) == IF a <= b THEN a ELSE b
MaxI(a, b) == IF a >= b THEN a ELSE b
Pow2(n) == IF n >= 20 THEN 1048576 ELSE 2 ^ n
Interval(rto, n, rtoMax) == MinI(rto * Pow2(n), rtoMax)

\* ---- rtxTimer: [st, rto, n, at] ; st in "stopped"/"started"/"closed"; at = deadline
RtxInit == [st |-> "stopped", rto |-> 0, n |-> 0, at |-> 0]
RtxStart(t, now, rto, rtoMax) ==
  IF t.st # "stopped" THEN <<t, FALSE>>
  ELSE <<[st |-> "started", rto |-> rto, n |-> 0, at |-> now + Interval(rto, 0, rtoMax)], TRUE>>
RtxStop(t) == IF t.st = "started" THEN [t EXCEPT !.st = "stopped", !.at = 0] ELSE t
RtxClose(t) == [t EXCEPT !.st = "closed", !.at = 0]
\* the expiry at time t.at: <<new timer, callback>> with callback = <<"timeout", n>> or <<"failure">>
RtxFire(t, maxRetrans, rtoMax) ==
  LET n1 == t.n + 1 IN
  IF maxRetrans = 0 \/ n1 <= maxRetrans
  THEN <<[t EXCEPT !.n = n1, !.at = t.at + Interval(t.rto, n1, rtoMax)], <<"timeout", n1>>>>
  ELSE <<[t EXCEPT !.st = "stopped", !.n = n1, !.at = 0], <<"failure", n1>>>>

\* ---- ackTimer: [st, at]
AckInit == [st |-> "stopped", at |-> 0]
AckStart(t, now) == IF t.st # "stopped" THEN <<t, FALSE>> ELSE <<[st |-> "started", at |-> now + 200], TRUE>>
AckStop(t) == IF t.st = "started" THEN [st |-> "stopped", at |-> 0] ELSE t
AckClose(t) == [st |-> "closed", at |-> 0]
AckFire(t) == [st |-> "stopped", at |-> 0]

\* ---- RTO manager in microseconds (srtt, rttvar, rto), rtt sample in microseconds
RtoInit == [srtt |-> 0, rttvar |-> 0, rto |-> 1000000]
AbsI(x) == IF x < 0 THEN -x ELSE x
RtoNext(m, rtt, rtoMaxUs) ==
  LET sr == IF m.srtt = 0 THEN rtt ELSE (7 * m.srtt + rtt) \div 8
      rv == IF m.srtt = 0 THEN rtt \div 2 ELSE (3 * m.rttvar + AbsI(m.srtt - rtt)) \div 4
  IN [srtt |-> sr, rttvar |-> rv, rto |-> MinI(MaxI(sr + 4 * rv, 1000000), rtoMaxUs)]
=============================================================================
