SPECIFICATION TSpec
CONSTRAINT HighWater
POSTCONDITION Accepted
CHECK_DEADLOCK FALSE
