SPECIFICATION Spec
CONSTANT M = 8
INVARIANT Laws
