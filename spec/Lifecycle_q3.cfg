SPECIFICATION Spec
CONSTANTS
 MaxPkts = 1
 T1Retries = 1
 Closers = {}
 Aborters = {8}
 Readers = {5}
 defaultInitValue = defaultInitValue
INVARIANT LockOrder
PROPERTY TerminatesWhenClosed
CHECK_DEADLOCK FALSE
