------------------------------ MODULE MC_PrSctp ------------------------------
EXTENDS PrSctp
\* stream 1 (limited): one message, then the reliable stream's two-fragment message, then one more on each
MCMsgs == <<<<1, 1>>, <<2, 2>>, <<1, 1>>, <<2, 1>>>>
=============================================================================
