------------------------------ MODULE MC_PrSctp ------------------------------
EXTENDS PrSctp
CONSTANT Small
\* stream 1 (limited): one message, then the reliable stream's two-fragment message, then one more on each
MCMsgs == IF Small THEN <<<<1, 1>>, <<2, 2>>, <<1, 1>>>> ELSE <<<<1, 1>>, <<2, 2>>, <<1, 1>>, <<2, 1>>>>
=============================================================================
