SPECIFICATION Spec
CONSTANTS
 NA = 2
 NB = 1
 N <- MCN
 Who = {0}
 MaxDrop = 1
 MaxT2 = 2
 MaxT3 = 2
 Depth = 99
INVARIANTS TypeOK GracefulMeansDelivered ShutdownAckSound AckdSound NoStall

VIEW View
CHECK_DEADLOCK FALSE
