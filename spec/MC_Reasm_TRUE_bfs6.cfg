SPECIFICATION Spec
CONSTANTS
 IL = TRUE
 Depth = 6
INVARIANTS BytesExact TypeOK NoSplice AtMostOnce OrderedInOrder
VIEW View
CHECK_DEADLOCK FALSE
