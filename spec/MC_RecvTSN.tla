----------------------------- MODULE MC_RecvTSN -----------------------------
(***************************************************************************)
(* Bounded model of RecvTSN that generates behaviours (operation sequences *)
(* with the specification's expected results) for lock-step replay against *)
(* the real receivePayloadQueue, and checks the structure's invariants and *)
(* the SACK-soundness facts C05 relies on.                                 *)
(***************************************************************************)
EXTENDS RecvTSN, TLC, Json
CONSTANTS W,        \* tracking window (maxTSNOffset rounded up to a multiple of 64)
          Depth     \* behaviour length
VARIABLES q, ops, everPushed, skipped

\* offsets (relative to the current cumulative TSN) used as operation arguments: around 0, around
\* the 64-bit word boundaries of the bitmap, around the window edge, and 4096 (the aliasing distance
\* of the default ring near the 2^32 wrap)
Offs == {-1, 0, 1, 2, 3, 5, 62, 63, 64, 65, 66, 127, 128, 129, 191, 192, 193, W - 65, W - 64, W - 63, W - 1, W, W + 1, 4095, 4096, 4097}

vars == <<q, ops, everPushed, skipped>>

Snap(op, arg, ret) == [op |-> op, arg |-> arg, ret |-> ret, cum |-> q'.cum, n |-> Cardinality(q'.held),
                       tail |-> RTail(q'), gaps |-> RGaps(q'), dups |-> q'.dups]

Init == q = RInit(0) /\ ops = <<>> /\ everPushed = {} /\ skipped = 0

DoPush(o) == LET t == q.cum + o r == RPush(q, W, t) IN
  /\ q' = r[1] /\ ops' = Append(ops, Snap("push", t, r[2]))
  /\ everPushed' = (IF r[2] THEN everPushed \cup {t} ELSE everPushed) /\ UNCHANGED skipped
DoCanPush(o) == LET t == q.cum + o IN
  /\ q' = q /\ ops' = Append(ops, Snap("canpush", t, RCanPush(q, W, t))) /\ UNCHANGED <<everPushed, skipped>>
DoHas(o) == LET t == q.cum + o IN
  /\ q' = q /\ ops' = Append(ops, Snap("has", t, RHas(q, t))) /\ UNCHANGED <<everPushed, skipped>>
DoPop(f) == LET r == RPop(q, f) IN
  /\ q' = r[1] /\ ops' = Append(ops, Snap("pop", IF f THEN 1 ELSE 0, r[2]))
  /\ skipped' = (IF f /\ ~r[2] THEN q.cum + 1 ELSE skipped) /\ UNCHANGED everPushed
DoAdvance(o) == LET n == q.cum + o IN
  /\ q' = RAdvance(q, n) /\ ops' = Append(ops, Snap("advance", n, TRUE))
  /\ skipped' = (IF n > skipped THEN n ELSE skipped) /\ UNCHANGED everPushed
DoPopDups == LET r == RPopDups(q) IN
  /\ q' = r[1] /\ ops' = Append(ops, [Snap("popdups", 0, TRUE) EXCEPT !.dups = r[2]]) /\ UNCHANGED <<everPushed, skipped>>

Next == /\ Len(ops) < Depth
        /\ \/ \E o \in Offs : DoPush(o) \/ DoCanPush(o) \/ DoHas(o)
           \/ \E f \in BOOLEAN : DoPop(f)
           \/ \E o \in {x \in Offs : x > -2} : DoAdvance(o)
           \/ DoPopDups
Spec == Init /\ [][Next]_vars

TypeOK == RTypeOK(q, W)
\* what a SACK built from this state would claim is true (C05 at component level)
SackSound == /\ \A t \in q.held : t \in everPushed
             /\ \A i \in DOMAIN RGaps(q) : \A k \in (RGaps(q)[i][1])..(RGaps(q)[i][2]) : (q.cum + k) \in q.held
             /\ \A t \in 1..q.cum : t \in everPushed \/ t <= skipped
CumMonotone == [][q'.cum >= q.cum]_vars

\* exhaustive runs identify states by the structure's state, not by the path that led there
View == <<q, everPushed, skipped, Len(ops)>>

Emit == Len(ops) < Depth \/ PrintT(<<"BEHAVIOUR", ToJson(ops)>>)
=============================================================================
