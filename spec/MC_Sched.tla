------------------------------ MODULE MC_Sched ------------------------------
(***************************************************************************)
(* Bounded model of Sched: all push/pop sequences over 3 streams with      *)
(* message lengths 1..3 fragments and chunk lengths {1,2,4}, weights       *)
(* {1,2,4}.  Checks the fairness statements of C17 and emits behaviours    *)
(* for replay against the real pendingQueue.                               *)
(***************************************************************************)
EXTENDS Sched, Json
CONSTANTS Mode, Depth, MaxQueued, Lens, MaxFrag
VARIABLES s, ops, nextId, served, openMsg

vars == <<s, ops, nextId, served, openMsg>>
Streams == {1, 2, 3}
W == 1 :> 1 @@ 2 :> 2 @@ 3 :> 4
Lmax == 4
AbsI(x) == IF x < 0 THEN -x ELSE x

\* served[<<i,j>>] = <<chunks of i, chunks of j, scaled bytes of i, scaled bytes of j>> popped since i and j
\* became continuously backlogged together; reset when either runs empty
Pairs == {p \in Streams \X Streams : p[1] < p[2]}
Init == /\ s = SchedInit(Mode) /\ ops = <<>> /\ nextId = 1
        /\ served = [p \in Pairs |-> <<0, 0, 0, 0>>]
        /\ openMsg = [sid \in Streams |-> 0]      \* fragments still to push for the message in progress on sid

Both(st, p) == p[1] \in Backlogged(st) /\ p[2] \in Backlogged(st)

\* a writer pushes the next fragment of its message (all fragments of a message are pushed in order)
\* without interleaving all fragments of a message are enqueued under one lock hold: a new message
\* may only start when no other message is half-pushed
DoPush(sid, len, nfrag) ==
  /\ s.nc < MaxQueued
  /\ (Mode = "msg" => \A o \in Streams \ {sid} : openMsg[o] = 0)
  /\ LET cont == openMsg[sid] > 0
         left == IF cont THEN openMsg[sid] - 1 ELSE nfrag - 1
         c == [id |-> nextId, sid |-> sid, len |-> len, b |-> ~cont, e |-> left = 0, u |-> (Mode = "msg" /\ sid = 3)]
         s2 == SchedPush(s, c, W[sid])
     IN /\ s' = s2 /\ nextId' = nextId + 1
        /\ openMsg' = [openMsg EXCEPT ![sid] = left]
        /\ ops' = Append(ops, [op |-> "push", c |-> c, w |-> W[sid], nb |-> s2.nb, nc |-> s2.nc])
        /\ served' = [p \in Pairs |-> IF Both(s2, p) /\ ~Both(s, p) THEN <<0, 0, 0, 0>> ELSE served[p]]
DoPeek == LET pk == SchedPeek(s) IN
  /\ s' = pk[1]
  /\ ops' = Append(ops, [op |-> "peek", id |-> IF pk[2] = NoChunk THEN 0 ELSE pk[2].id, nb |-> s.nb, nc |-> s.nc])
  /\ UNCHANGED <<nextId, served, openMsg>>
DoPop == LET pk == SchedPeek(s) c == pk[2] s2 == SchedPop(s) IN
  /\ c # NoChunk
  /\ s' = s2
  /\ ops' = Append(ops, [op |-> "pop", id |-> c.id, nb |-> s2.nb, nc |-> s2.nc])
  /\ served' = [p \in Pairs |->
        IF ~Both(s, p) THEN served[p]
        ELSE LET v == served[p]
                 v2 == IF c.sid = p[1] THEN <<v[1] + 1, v[2], v[3] + c.len * (Scale \div W[p[1]]), v[4]>>
                       ELSE IF c.sid = p[2] THEN <<v[1], v[2] + 1, v[3], v[4] + c.len * (Scale \div W[p[2]])>> ELSE v
             IN v2]
  /\ UNCHANGED <<nextId, openMsg>>

Next == /\ Len(ops) < Depth
        /\ \/ \E sid \in Streams, len \in Lens, nf \in 1..MaxFrag : DoPush(sid, len, nf)
           \/ DoPeek \/ DoPop
Spec == Init /\ [][Next]_vars

\* ---- C17 at component level
\* round-robin: two continuously backlogged streams are served within one chunk of each other
RRFair == Mode = "rr" => \A p \in Pairs : Both(s, p) => AbsI(served[p][1] - served[p][2]) <= 1
\* WFQ: weight-normalised service within one maximum-size chunk per stream
WFQFair == Mode = "wfq" => \A p \in Pairs : Both(s, p) =>
              AbsI(served[p][3] - served[p][4]) <= Lmax * (Scale \div W[p[1]]) + Lmax * (Scale \div W[p[2]])
\* counters are exact
Counters == s.nc >= 0 /\ s.nb >= 0 /\ (s.nc = 0 => s.nb = 0)
\* message mode: the fragments of a message leave back to back (C01 / C17 ConsecutiveTSN)
View == <<s, nextId, served, openMsg, Len(ops)>>
Emit == Len(ops) < Depth \/ PrintT(<<"BEHAVIOUR", ToJson(ops)>>)
=============================================================================
