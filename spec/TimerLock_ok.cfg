SPECIFICATION Spec
CONSTANTS
 Handlers = {1, 2, 3}
 Rounds = 2
 HoldMutexInCallback = FALSE
INVARIANTS NoDeadlock LockOrder Mutex
CHECK_DEADLOCK FALSE
