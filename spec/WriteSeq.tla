------------------------------ MODULE WriteSeq ------------------------------
(***************************************************************************)
(* Concurrent Stream.WriteSCTP calls on ONE stream of a blocking-write      *)
(* association (stream.go WriteSCTP :300-350, association.go               *)
(* sendPayloadData :3925-3975).  A call                                    *)
(*   1. takes the per-stream write lock (only in blocking-write mode),     *)
(*   2. packetize: takes the next stream sequence number (SSN, or MID with *)
(*      interleaving) under the stream lock,                               *)
(*   3. sendPayloadData: waits until no other write is pending             *)
(*      (writePending) or its deadline expires; on success the chunks are  *)
(*      queued and writePending is set, on failure nothing is queued,      *)
(*   4. on failure rolls the sequence number back (seq - 1),               *)
(*   5. releases the write lock.                                           *)
(* The write loop drains the queue and clears writePending at any time.    *)
(* C20 / C18: whatever the interleaving, the numbers of the messages that  *)
(* were accepted are exactly 0 .. n-1, each used once, and a failed write  *)
(* leaves no trace -- otherwise the receiver's ordered stream stalls for   *)
(* ever on the missing number.  UseLock = FALSE is the negative control    *)
(* (TLC must find the hole) in both modes: Blocking (seeded change C20)    *)
(* and non-blocking (the pinned code: defect F24, found on the real code   *)
(* by the family mw-shut); the trace specification WriteSeqTrace checks    *)
(* the same law (Gapless) on histories of real concurrent writers.         *)
(***************************************************************************)
EXTENDS WriteSeqLaw, TLC

CONSTANTS Writers, MaxCalls,
          Blocking,   \* blocking-write mode: a send waits while another write is pending and may time out
          UseLock     \* the per-stream write lock is taken (code as fixed: always; pinned: only when Blocking)

VARIABLES seq,        \* the stream's next sequence number
          wlock,      \* holder of the write lock or 0
          pending,    \* association.writePending
          pc,         \* per writer: "idle" | "locked" | "taken" | "failed" | "unlock"
          mine,       \* per writer: the number taken by the call in progress
          calls,      \* per writer: calls started
          queued,     \* set of <<number, writer, call>> accepted for transmission
          est         \* the association is in the established state (Shutdown / Close end it, once)
vars == <<seq, wlock, pending, pc, mine, calls, queued, est>>

Init == /\ seq = 0 /\ wlock = 0 /\ pending = FALSE
        /\ pc = [w \in Writers |-> "idle"] /\ mine = [w \in Writers |-> -1]
        /\ calls = [w \in Writers |-> 0] /\ queued = {} /\ est = TRUE

Begin(w) == /\ pc[w] = "idle" /\ calls[w] < MaxCalls
            /\ IF UseLock THEN wlock = 0 /\ wlock' = w ELSE UNCHANGED wlock
            /\ calls' = [calls EXCEPT ![w] = @ + 1]
            /\ pc' = [pc EXCEPT ![w] = "locked"]
            /\ UNCHANGED <<seq, pending, mine, queued, est>>
Packetize(w) == /\ pc[w] = "locked"
                /\ mine' = [mine EXCEPT ![w] = seq] /\ seq' = seq + 1
                /\ pc' = [pc EXCEPT ![w] = "taken"]
                /\ UNCHANGED <<wlock, pending, calls, queued, est>>
SendOk(w) == /\ pc[w] = "taken" /\ est /\ (Blocking => ~pending)
             /\ pending' = (Blocking \/ pending)
             /\ queued' = queued \cup {<<mine[w], w, calls[w]>>}
             /\ pc' = [pc EXCEPT ![w] = "unlock"]
             /\ UNCHANGED <<seq, wlock, mine, calls, est>>
SendTimeout(w) == /\ pc[w] = "taken" /\ ((Blocking /\ pending) \/ ~est)   \* the deadline expires while waiting, or the state check fails
                  /\ pc' = [pc EXCEPT ![w] = "failed"]
                  /\ UNCHANGED <<seq, wlock, pending, mine, calls, queued, est>>
Rollback(w) == /\ pc[w] = "failed"
               /\ seq' = seq - 1
               /\ pc' = [pc EXCEPT ![w] = "unlock"]
               /\ UNCHANGED <<wlock, pending, mine, calls, queued, est>>
Unlock(w) == /\ pc[w] = "unlock"
             /\ wlock' = IF UseLock THEN 0 ELSE wlock
             /\ pc' = [pc EXCEPT ![w] = "idle"] /\ mine' = [mine EXCEPT ![w] = -1]
             /\ UNCHANGED <<seq, pending, calls, queued, est>>
Drain == /\ pending /\ pending' = FALSE
         /\ UNCHANGED <<seq, wlock, pc, mine, calls, queued, est>>
\* Shutdown / Close: the association leaves the established state; later sends fail on the state check
Leave == /\ est /\ est' = FALSE /\ UNCHANGED <<seq, wlock, pending, pc, mine, calls, queued>>

Next == Drain \/ Leave \/ \E w \in Writers : Begin(w) \/ Packetize(w) \/ SendOk(w) \/ SendTimeout(w) \/ Rollback(w) \/ Unlock(w)
Spec == Init /\ [][Next]_vars

Quiescent == \A w \in Writers : pc[w] = "idle"
Nums == [m \in {<<q[2], q[3]>> : q \in queued} |-> (CHOOSE q \in queued : q[2] = m[1] /\ q[3] = m[2])[1]]
\* at quiescence the accepted numbers are gapless and the counter stands right behind them
GaplessInv == Quiescent => Gapless(Nums) /\ seq = Cardinality(queued)
\* numbers never collide, even mid-flight
NoDuplicate == \A a, b \in queued : a[1] = b[1] => a = b
LockInv == UseLock => \A w \in Writers : pc[w] # "idle" => wlock = w
=============================================================================
