SPECIFICATION Spec
CONSTANT MaxBundle = 2
INVARIANTS Laws Malformed
CONSTRAINT Emit
CHECK_DEADLOCK FALSE
