------------------------------- MODULE Framing -------------------------------
(***************************************************************************)
(* Structural specification of SCTP packet framing (pion/sctp packet.go,   *)
(* chunkheader.go, chunk_*.go at the level of lengths): a packet is a      *)
(* 12-byte common header followed by TLV chunks, each padded to a multiple *)
(* of four bytes; the meaning of a chunk depends only on the bytes inside  *)
(* its own declared length (C12), and a decoder rejects every layout whose *)
(* lengths are inconsistent (C03).                                         *)
(*                                                                         *)
(* An abstract chunk is [k, vlen]: kind and value length.  A layout is the *)
(* sequence of segments a decoder walks over: [typ, dlen, avail] = type,   *)
(* declared length, bytes actually available from the chunk start.         *)
(***************************************************************************)
EXTENDS Integers, Sequences, FiniteSets, FiniteSetsExt, TLC, Json

Pad(n) == (4 - (n % 4)) % 4
Padded(n) == n + Pad(n)
ChunkLen(c) == 4 + c.vlen                       \* declared length: header + value, WITHOUT padding
RECURSIVE BundleLen(_)
BundleLen(b) == IF b = <<>> THEN 0 ELSE Padded(ChunkLen(Head(b))) + BundleLen(Tail(b))
PacketLen(b) == 12 + BundleLen(b)

\* offsets at which each chunk of a bundle starts
RECURSIVE Offsets(_, _)
Offsets(b, at) == IF b = <<>> THEN <<>> ELSE <<at>> \o Offsets(Tail(b), at + Padded(ChunkLen(Head(b))))

\* the decoder's walk over a byte string of `total` bytes whose chunk headers declare the lengths
\* dlens[1], dlens[2], ... (a header that lies beyond the end of the string is simply never read: a
\* string cut exactly at a chunk boundary is a valid shorter packet).  Result: "ok", or the reason for
\* rejecting the whole packet.
RECURSIVE Walk(_, _, _)
Walk(total, dlens, at) ==
  IF at = total THEN "ok"
  ELSE IF total - at < 4 THEN "reject:trailing"
  ELSE IF dlens = <<>> THEN "reject:extra-bytes"
  ELSE LET d == Head(dlens) IN
       IF d < 4 THEN "reject:len-lt-4"
       ELSE IF at + d > total THEN "reject:len-beyond"
       ELSE IF at + Padded(d) > total THEN "reject:missing-padding"
       ELSE Walk(total, Tail(dlens), at + Padded(d))

\* ---- laws checked by TLC on the bounded universe (MC_Framing)
\* encode/decode: the walk over an encoded bundle accepts it and finds exactly its chunks
RECURSIVE Count(_, _, _)
Count(total, dlens, at) == IF at >= total \/ dlens = <<>> THEN 0 ELSE 1 + Count(total, Tail(dlens), at + Padded(Head(dlens)))
RoundTrip(b) == /\ Walk(PacketLen(b), [i \in DOMAIN b |-> ChunkLen(b[i])], 12) = "ok"
                /\ Count(PacketLen(b), [i \in DOMAIN b |-> ChunkLen(b[i])], 12) = Len(b)
\* bundle independence: the boundaries of chunk i depend only on the chunks before it, the bytes a
\* chunk owns never extend into its successor
Independent(b) == \A i \in DOMAIN b : i < Len(b) =>
                     Offsets(b, 12)[i] + Padded(ChunkLen(b[i])) = Offsets(b, 12)[i + 1]
\* a packet is a multiple of four bytes long
Aligned(b) == PacketLen(b) % 4 = 0
=============================================================================
