SPECIFICATION Spec
CONSTANTS
 RoleCase = 2
 OptCase = 12
 SilentPeer = FALSE
 Client <- MCClient
 IL <- MCIL
 ZC <- MCZC
 Silent <- MCSilent
 MaxDrop = 2
 MaxDup = 1
 MaxRetry = 3
 Depth = 30
INVARIANTS TypeOK Agreement ConnectOk NoHang SuccessWithinBudget SilentFails
PROPERTY Stable
VIEW View
CHECK_DEADLOCK FALSE
