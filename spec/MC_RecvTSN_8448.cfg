SPECIFICATION Spec
CONSTANTS
 W = 8448
 Depth = 14
INVARIANTS TypeOK SackSound
PROPERTY CumMonotone
CONSTRAINT Emit
CHECK_DEADLOCK FALSE
