SPECIFICATION Spec
CONSTANT M = 32
INVARIANT Laws
