SPECIFICATION Spec
CONSTRAINT HighWater
POSTCONDITION Accepted
CHECK_DEADLOCK FALSE
