------------------------------ MODULE Handshake ------------------------------
(***************************************************************************)
(* Engine specification, association set-up slice (pion/sctp               *)
(* association.go: initClient/initServer, handleInit, handleInitAck,       *)
(* handleCookieEcho, handleCookieAck, T1-init / T1-cookie, establish).     *)
(*                                                                         *)
(* Two endpoints (0, 1), each a client (sends INIT) or a server (waits),   *)
(* a network that may lose, duplicate, delay and reorder packets within a  *)
(* fault budget, and an explicit clock so that retransmission timers fire  *)
(* in the order of their deadlines (exponential back-off, bounded          *)
(* retries).  One action per critical section of the code.                 *)
(*                                                                         *)
(* Properties (C04): agreement on negotiated features, stability of an     *)
(* established association under late/duplicated handshake packets,        *)
(* connect returns (success or error) -- no hang.                          *)
(***************************************************************************)
EXTENDS Integers, Sequences, FiniteSets, TLC, Json

CONSTANTS Client,    \* [0..1 -> BOOLEAN]: TRUE = sends INIT (client), FALSE = server
          IL,        \* [0..1 -> BOOLEAN]: local interleaving option
          ZC,        \* [0..1 -> BOOLEAN]: local zero-checksum acceptance
          Silent,    \* [0..1 -> BOOLEAN]: the endpoint never starts (a peer that never answers)
          MaxDrop, MaxDup, MaxRetry, Depth

EP == {0, 1}
Peer(e) == 1 - e
Kinds == {"init", "initack", "cookieecho", "cookieack"}

VARIABLES st,      \* association state
          stored,  \* chunk stored for retransmission: "none" / "init" / "cookieecho"
          t1,      \* [e -> [i |-> deadline or 0, c |-> deadline or 0, ni |-> expiries, nc |-> expiries]]
          neg,     \* [e -> [peerIL, sendZ, useIL]] negotiated view
          cookie,  \* e has created its state cookie
          ret,     \* result of the connect call: "none" (not started), "pending", "ok", "err"
          net,     \* packets in flight: [from, k, n] (n = ordinal of that kind sent by from)
          held,    \* packets the network delays across timer expiries (each costs one unit of the loss budget)
          seen,    \* packets already handed over once (their remaining copies are duplicates)
          sent,    \* [e -> [kind -> count]]
          now, drops, dups,
          ops      \* environment history (for schedule extraction)

vars == <<st, stored, t1, neg, cookie, ret, net, held, seen, sent, now, drops, dups, ops>>

Init ==
  /\ st = [e \in EP |-> "closed"] /\ stored = [e \in EP |-> "none"]
  /\ t1 = [e \in EP |-> [i |-> 0, c |-> 0, ni |-> 0, nc |-> 0]]
  /\ neg = [e \in EP |-> [peerIL |-> FALSE, sendZ |-> FALSE, useIL |-> FALSE]]
  /\ cookie = [e \in EP |-> FALSE] /\ ret = [e \in EP |-> "none"]
  /\ net = {} /\ held = {} /\ seen = {} /\ sent = [e \in EP |-> [k \in Kinds |-> 0]]
  /\ now = 0 /\ drops = 0 /\ dups = 0 /\ ops = <<>>

Interval(n) == IF n >= 6 THEN 60 ELSE 2 ^ n          \* min(rto * 2^n, rtoMax) with rto = 1 s, rtoMax = 60 s

\* ---- sending (control queue -> wire is one step here: the writer gathers immediately)
Send(e, k) == [from |-> e, k |-> k, n |-> sent[e][k] + 1]

\* ---- API: the connect call of endpoint e
Start(e) ==
  /\ ret[e] = "none" /\ ~Silent[e]
  /\ ret' = [ret EXCEPT ![e] = "pending"]
  /\ IF Client[e]
     THEN /\ st' = [st EXCEPT ![e] = "cookieWait"] /\ stored' = [stored EXCEPT ![e] = "init"]
          /\ net' = net \cup {Send(e, "init")} /\ sent' = [sent EXCEPT ![e]["init"] = @ + 1]
          /\ t1' = [t1 EXCEPT ![e].i = now + Interval(0), ![e].ni = 0]
     ELSE UNCHANGED <<st, stored, net, sent, t1>>
  /\ ops' = Append(ops, [op |-> "start", e |-> e])
  /\ UNCHANGED <<neg, cookie, now, drops, dups, held, seen>>

\* ---- handlers (one critical section each); to = receiver, p = packet; keep = TRUE when the network
\*      duplicates the packet (a copy stays in flight)
Rem(p, keep) == IF keep THEN net ELSE net \ {p}
Establish(e, n0) == [n0 EXCEPT !.useIL = IL[e] /\ n0.peerIL]

HInit(to, p, keep) ==
  IF st[to] \in {"closed", "cookieWait", "cookieEchoed"}
  THEN /\ neg' = [neg EXCEPT ![to].peerIL = IL[p.from], ![to].sendZ = IF ZC[p.from] THEN TRUE ELSE @,
                             ![to].useIL = IL[to] /\ IL[p.from]]
       /\ cookie' = [cookie EXCEPT ![to] = TRUE]
       /\ net' = Rem(p, keep) \cup {Send(to, "initack")} /\ sent' = [sent EXCEPT ![to]["initack"] = @ + 1]
       /\ UNCHANGED <<st, stored, t1, ret>>
  ELSE /\ net' = Rem(p, keep) /\ UNCHANGED <<st, stored, t1, neg, cookie, ret, sent>>   \* error logged, ignored

HInitAck(to, p, keep) ==
  IF st[to] = "cookieWait"
  THEN /\ neg' = [neg EXCEPT ![to].peerIL = IL[p.from], ![to].sendZ = IF ZC[p.from] THEN TRUE ELSE @,
                             ![to].useIL = IL[to] /\ IL[p.from]]
       /\ stored' = [stored EXCEPT ![to] = "cookieecho"]
       /\ t1' = [t1 EXCEPT ![to].i = 0, ![to].c = now + Interval(0), ![to].nc = 0]
       /\ st' = [st EXCEPT ![to] = "cookieEchoed"]
       /\ net' = Rem(p, keep) \cup {Send(to, "cookieecho")} /\ sent' = [sent EXCEPT ![to]["cookieecho"] = @ + 1]
       /\ UNCHANGED <<cookie, ret>>
  ELSE /\ net' = Rem(p, keep) /\ UNCHANGED <<st, stored, t1, neg, cookie, ret, sent>>

\* completeHandshake(nil): the connect call returns ok if it is still waiting
Complete(e, r0) == IF r0[e] = "pending" THEN [r0 EXCEPT ![e] = "ok"] ELSE r0

HCookieEcho(to, p, keep) ==
  IF ~cookie[to] THEN /\ net' = Rem(p, keep) /\ UNCHANGED <<st, stored, t1, neg, cookie, ret, sent>>
  ELSE IF st[to] = "established"
  THEN /\ net' = Rem(p, keep) \cup {Send(to, "cookieack")} /\ sent' = [sent EXCEPT ![to]["cookieack"] = @ + 1]
       /\ UNCHANGED <<st, stored, t1, neg, cookie, ret>>
  ELSE IF st[to] \in {"closed", "cookieWait", "cookieEchoed"}
  THEN /\ t1' = [t1 EXCEPT ![to].i = 0, ![to].c = 0]
       /\ stored' = [stored EXCEPT ![to] = "none"]
       /\ neg' = [neg EXCEPT ![to] = Establish(to, @)]
       /\ st' = [st EXCEPT ![to] = "established"]
       /\ ret' = Complete(to, ret)
       /\ net' = Rem(p, keep) \cup {Send(to, "cookieack")} /\ sent' = [sent EXCEPT ![to]["cookieack"] = @ + 1]
       /\ UNCHANGED cookie
  ELSE /\ net' = Rem(p, keep) /\ UNCHANGED <<st, stored, t1, neg, cookie, ret, sent>>

HCookieAck(to, p, keep) ==
  IF st[to] = "cookieEchoed"
  THEN /\ t1' = [t1 EXCEPT ![to].c = 0]
       /\ stored' = [stored EXCEPT ![to] = "none"]
       /\ neg' = [neg EXCEPT ![to] = Establish(to, @)]
       /\ st' = [st EXCEPT ![to] = "established"]
       /\ ret' = Complete(to, ret)
       /\ net' = Rem(p, keep) /\ UNCHANGED <<cookie, sent>>
  ELSE /\ net' = Rem(p, keep) /\ UNCHANGED <<st, stored, t1, neg, cookie, ret, sent>>

Handle(to, p, keep) ==
  CASE p.k = "init" -> HInit(to, p, keep)
    [] p.k = "initack" -> HInitAck(to, p, keep)
    [] p.k = "cookieecho" -> HCookieEcho(to, p, keep)
    [] p.k = "cookieack" -> HCookieAck(to, p, keep)

\* ---- environment: the network
\* the server side only reads packets once its read loop runs (after Start)
CanRecv(e) == ret[e] # "none"
Deliver(p) ==
  /\ p \in net /\ CanRecv(Peer(p.from))
  /\ Handle(Peer(p.from), p, FALSE)
  /\ seen' = seen \cup {p}
  /\ ops' = Append(ops, [op |-> "deliver", from |-> p.from, k |-> p.k, n |-> p.n])
  /\ UNCHANGED <<now, drops, dups, held>>
\* a duplicate: the packet is handled and a copy stays in the network
Dup(p) ==
  /\ p \in net /\ CanRecv(Peer(p.from)) /\ dups < MaxDup /\ p \notin seen
  /\ Handle(Peer(p.from), p, TRUE)
  /\ dups' = dups + 1 /\ seen' = seen \cup {p}
  /\ ops' = Append(ops, [op |-> "dup", from |-> p.from, k |-> p.k, n |-> p.n])
  /\ UNCHANGED <<now, drops, held>>
\* loss (discarding the remaining copy of a duplicated packet is free)
Drop(p) ==
  /\ p \in net /\ (drops < MaxDrop \/ p \in seen)
  /\ net' = net \ {p} /\ drops' = IF p \in seen THEN drops ELSE drops + 1
  /\ ops' = Append(ops, [op |-> "drop", from |-> p.from, k |-> p.k, n |-> p.n])
  /\ UNCHANGED <<st, stored, t1, neg, cookie, ret, sent, now, dups, held, seen>>
\* delay: the packet is held back across timer expiries and may arrive at any later moment
Hold(p) ==
  /\ p \in net /\ held = {} /\ (drops < MaxDrop \/ p \in seen)
  /\ net' = net \ {p} /\ held' = {p} /\ drops' = IF p \in seen THEN drops ELSE drops + 1
  /\ ops' = Append(ops, [op |-> "hold", from |-> p.from, k |-> p.k, n |-> p.n])
  /\ UNCHANGED <<st, stored, t1, neg, cookie, ret, sent, now, dups, seen>>
Release(p) ==
  /\ p \in held /\ CanRecv(Peer(p.from))
  /\ held' = {}
  /\ Handle(Peer(p.from), p, TRUE)     \* "keep": p is not in net, nothing to remove
  /\ ops' = Append(ops, [op |-> "release", from |-> p.from, k |-> p.k, n |-> p.n])
  /\ UNCHANGED <<now, drops, dups, seen>>

\* ---- environment: time passes until the earliest armed T1 timer(s) expire
Deadlines == {t1[e].i : e \in {x \in EP : t1[x].i > 0}} \cup {t1[e].c : e \in {x \in EP : t1[x].c > 0}}
\* (both connect calls are made before virtual time first advances: the start ORDER and the
\*  deliveries in between are explored, an arbitrarily late peer is the "silent peer" configuration)
Tick ==
  /\ Deadlines # {} /\ \A e \in EP : ret[e] # "none" \/ Silent[e]
  /\ \A p \in net : Silent[Peer(p.from)]          \* everything in flight was delivered, lost or held back
  /\ LET d == CHOOSE x \in Deadlines : \A y \in Deadlines : x <= y
         fireI(e) == t1[e].i = d
         fireC(e) == t1[e].c = d
         \* expiry n within the retry limit: retransmit the stored chunk and re-arm; otherwise failure
         okI(e) == fireI(e) /\ t1[e].ni + 1 <= MaxRetry
         okC(e) == fireC(e) /\ t1[e].nc + 1 <= MaxRetry
     IN
       /\ now' = d
       /\ t1' = [e \in EP |->
                  [i |-> IF fireI(e) THEN (IF okI(e) THEN d + Interval(t1[e].ni + 1) ELSE 0) ELSE t1[e].i,
                   c |-> IF fireC(e) THEN (IF okC(e) THEN d + Interval(t1[e].nc + 1) ELSE 0) ELSE t1[e].c,
                   ni |-> IF fireI(e) THEN t1[e].ni + 1 ELSE t1[e].ni,
                   nc |-> IF fireC(e) THEN t1[e].nc + 1 ELSE t1[e].nc]]
       /\ net' = net \cup {Send(e, "init") : e \in {x \in EP : okI(x) /\ stored[x] = "init"}}
                     \cup {Send(e, "cookieecho") : e \in {x \in EP : okC(x) /\ stored[x] = "cookieecho"}}
       /\ sent' = [e \in EP |-> [k \in Kinds |->
                     sent[e][k] + (IF (k = "init" /\ okI(e) /\ stored[e] = "init") \/ (k = "cookieecho" /\ okC(e) /\ stored[e] = "cookieecho") THEN 1 ELSE 0)]]
       \* retry budget exhausted: completeHandshake(err) -- the connect call returns an error
       /\ ret' = [e \in EP |-> IF ((fireI(e) /\ ~okI(e)) \/ (fireC(e) /\ ~okC(e))) /\ ret[e] = "pending" THEN "err" ELSE ret[e]]
  /\ ops' = Append(ops, [op |-> "tick"])
  /\ UNCHANGED <<st, stored, neg, cookie, drops, dups, held, seen>>

Next == /\ Len(ops) < Depth
        /\ \/ \E e \in EP : Start(e)
           \/ \E p \in net : Deliver(p) \/ Drop(p) \/ Dup(p) \/ Hold(p)
           \/ \E p \in held : Release(p)
           \/ Tick
Spec == Init /\ [][Next]_vars

\* ---------------------------------------------------------------- properties (C04)
Both == st[0] = "established" /\ st[1] = "established"
\* interleaving on exactly when both enabled it; zero checksums sent only if the peer accepts them
Agreement == /\ \A e \in EP : st[e] = "established" => neg[e].useIL = (IL[0] /\ IL[1])
             /\ \A e \in EP : neg[e].sendZ => ZC[Peer(e)]
\* the connect call reports success only for an established association
ConnectOk == \A e \in EP : ret[e] = "ok" => st[e] = "established"
\* late / duplicated handshake packets never disturb an established association
Stable == [][\A e \in EP : st[e] = "established" => (st'[e] = "established" /\ neg'[e] = neg[e])]_vars
\* nobody hangs: each connect call eventually returns
TypeOK == \A e \in EP : st[e] \in {"closed", "cookieWait", "cookieEchoed", "established"}
\* a run is finished when nothing is in flight and no timer is armed
Done == (\A p \in net : Silent[Peer(p.from)]) /\ Deadlines = {} /\ \A e \in EP : ret[e] # "none" \/ Silent[e]
\* when a run is finished both calls have returned; with faults within the retry budget both succeeded
\* a silent peer gives the client an error in bounded time: sum of the back-off intervals
SilentFails == \A e \in EP : (Silent[Peer(e)] /\ Client[e] /\ Deadlines = {} /\ ret[e] # "none") => ret[e] = "err"
NoHang == Done => \A e \in EP : Client[e] => ret[e] \in {"ok", "err"}
SuccessWithinBudget == (Done /\ MaxDrop <= MaxRetry /\ \A e \in EP : ~Silent[e]) => (Both /\ \A e \in EP : ret[e] = "ok")

\* exhaustive runs identify a state by the protocol state, not by the path
View == <<st, stored, t1, neg, cookie, ret, net, held, seen, sent, now, drops, dups>>
Final == [op |-> "final", ret0 |-> ret[0], ret1 |-> ret[1], st0 |-> st[0], st1 |-> st[1],
          useil0 |-> neg[0].useIL, useil1 |-> neg[1].useIL, sendz0 |-> neg[0].sendZ, sendz1 |-> neg[1].sendZ]
Emit == ~(Done \/ Len(ops) >= Depth) \/ PrintT(<<"BEHAVIOUR", ToJson(Append(ops, Final))>>)
=============================================================================
