------------------------------ MODULE MC_Timers ------------------------------
(***************************************************************************)
(* Bounded model: start / stop / close at any moment racing the expiries,  *)
(* for one rtxTimer and one ackTimer.  Checks the C19 timer laws and emits *)
(* behaviours (operations with the callbacks the specification expects,    *)
(* time-stamped) for lock-step replay against the real timers in virtual   *)
(* time.                                                                   *)
(***************************************************************************)
EXTENDS Timers
CONSTANTS MaxRetrans, RtoMax, Depth
VARIABLES rtx, ack, now, ops, cbs, lastFire, dead

vars == <<rtx, ack, now, ops, cbs, lastFire, dead>>
Rtos == {1000, 3000}
Init == rtx = RtxInit /\ ack = AckInit /\ now = 0 /\ ops = <<>> /\ cbs = <<>> /\ lastFire = -1 /\ dead = FALSE

Log(op, arg, ret, newcbs, at) == Append(ops, [op |-> op, arg |-> arg, ret |-> ret, t |-> at, cbs |-> newcbs])

DoStart(r) == LET x == RtxStart(rtx, now, r, RtoMax) IN
  /\ rtx' = x[1] /\ ops' = Log("start", r, x[2], <<>>, now) /\ lastFire' = IF x[2] THEN -1 ELSE lastFire
  /\ UNCHANGED <<ack, now, cbs, dead>>
DoStop == /\ rtx' = RtxStop(rtx) /\ ops' = Log("stop", 0, TRUE, <<>>, now) /\ dead' = TRUE /\ UNCHANGED <<ack, now, cbs, lastFire>>
DoClose == /\ rtx' = RtxClose(rtx) /\ ops' = Log("close", 0, TRUE, <<>>, now) /\ dead' = TRUE /\ UNCHANGED <<ack, now, cbs, lastFire>>
DoAckStart == LET x == AckStart(ack, now) IN
  /\ ack' = x[1] /\ ops' = Log("ackstart", 0, x[2], <<>>, now) /\ UNCHANGED <<rtx, now, cbs, lastFire, dead>>
DoAckStop == /\ ack' = AckStop(ack) /\ ops' = Log("ackstop", 0, TRUE, <<>>, now) /\ UNCHANGED <<rtx, now, cbs, lastFire, dead>>
\* time passes until the earliest armed deadline; that timer fires
Deadlines == (IF rtx.st = "started" THEN {rtx.at} ELSE {}) \cup (IF ack.st = "started" THEN {ack.at} ELSE {})
DoAdvance ==
  /\ Deadlines # {}
  /\ LET d == CHOOSE x \in Deadlines : \A y \in Deadlines : x <= y
         fr == rtx.st = "started" /\ rtx.at = d
         fa == ack.st = "started" /\ ack.at = d
         x == RtxFire(rtx, MaxRetrans, RtoMax)
         new == (IF fr THEN <<[k |-> x[2][1], n |-> x[2][2], t |-> d]>> ELSE <<>>) \o (IF fa THEN <<[k |-> "ack", n |-> 0, t |-> d]>> ELSE <<>>)
     IN /\ now' = d
        /\ rtx' = IF fr THEN x[1] ELSE rtx
        /\ ack' = IF fa THEN AckFire(ack) ELSE ack
        /\ cbs' = cbs \o new
        /\ ops' = Log("advance", d - now, TRUE, new, d)
        /\ lastFire' = IF fr THEN d ELSE lastFire
        /\ dead' = IF fr /\ x[1].st = "started" THEN FALSE ELSE dead
\* a short sleep that expires nothing
DoIdle == /\ (Deadlines = {} \/ \A d \in Deadlines : d > now + 100)
          /\ now' = now + 100 /\ ops' = Log("advance", 100, TRUE, <<>>, now + 100) /\ UNCHANGED <<rtx, ack, cbs, lastFire, dead>>

Next == /\ Len(ops) < Depth
        /\ \/ \E r \in Rtos : DoStart(r)
           \/ DoStop \/ DoClose \/ DoAckStart \/ DoAckStop \/ DoAdvance \/ DoIdle
Spec == Init /\ [][Next]_vars

\* ---- C19 timer laws
\* consecutive expiries of one start are min(rto*2^n, rtoMax) apart
BackoffInv == rtx.st = "started" /\ rtx.n > 0 => rtx.at - lastFire = Interval(rtx.rto, rtx.n, RtoMax)
\* bounded retries: never more than MaxRetrans timeouts in a row, then a failure
Bounded == MaxRetrans > 0 => rtx.n <= MaxRetrans + 1
NoGiveUp == (MaxRetrans = 0 /\ rtx.st = "started") => rtx.at > now \/ rtx.at = now
\* a timer that is not started has no deadline: nothing can fire after stop / close
Quiet == rtx.st # "started" => rtx.at = 0
AckOnce == ack.st = "started" => ack.at <= now + 200
Laws == BackoffInv /\ Bounded /\ Quiet /\ AckOnce
View == <<rtx, ack, now, lastFire, Len(ops)>>
Emit == Len(ops) < Depth \/ PrintT(<<"BEHAVIOUR", ToJson(ops)>>)
=============================================================================
