SPECIFICATION Spec
CONSTANT M = 16
INVARIANT Laws
