---------------------------- MODULE MC_Handshake ----------------------------
EXTENDS Handshake
CONSTANTS RoleCase, OptCase, SilentPeer
\* role assignments: 1 = client/server, 2 = server/client, 3 = both clients
MCClient == CASE RoleCase = 1 -> (0 :> TRUE @@ 1 :> FALSE) [] RoleCase = 2 -> (0 :> FALSE @@ 1 :> TRUE) [] OTHER -> (0 :> TRUE @@ 1 :> TRUE)
\* option combination 0..15: bit0 IL[0], bit1 IL[1], bit2 ZC[0], bit3 ZC[1]
Bit(x, b) == (x \div (2 ^ b)) % 2 = 1
MCIL == (0 :> Bit(OptCase, 0) @@ 1 :> Bit(OptCase, 1))
MCZC == (0 :> Bit(OptCase, 2) @@ 1 :> Bit(OptCase, 3))
MCSilent == (0 :> FALSE @@ 1 :> SilentPeer)
=============================================================================
