------------------------------ MODULE RecvTSN ------------------------------
(***************************************************************************)
(* Abstract specification of the receiver's record of received TSNs        *)
(* (pion/sctp receive_payload_queue.go).  Sequence numbers are unbounded   *)
(* integers relative to the peer's initial TSN: the real structure must    *)
(* behave like this for EVERY absolute base, in particular across the      *)
(* 2^32 wrap (properties C05, C11, C16, C02).                              *)
(*                                                                         *)
(* State: cum  - cumulative TSN (everything <= cum is received/skipped)    *)
(*        held - received TSNs above cum (all within (cum, cum+W])         *)
(*        dups - duplicate TSNs reported since the last PopDups            *)
(* The operators below are pure (state in, state/result out) so that the   *)
(* engine specification and the trace specifications reuse them.           *)
(***************************************************************************)
EXTENDS Integers, Sequences, FiniteSets, FiniteSetsExt

RInit(c) == [cum |-> c, held |-> {}, dups |-> <<>>]

RTail(q) == IF q.held = {} THEN q.cum ELSE Max(q.held)
RHas(q, t) == t \in q.held
RCanPush(q, W, t) == t \notin q.held /\ t > q.cum /\ t <= q.cum + W

\* push: returns <<new state, accepted?>>
RPush(q, W, t) ==
  IF t > q.cum + W THEN <<q, FALSE>>
  ELSE IF t <= q.cum \/ t \in q.held THEN <<[q EXCEPT !.dups = Append(@, t)], FALSE>>
  ELSE <<[q EXCEPT !.held = @ \cup {t}], TRUE>>

\* pop: advance the cumulative point by one if cum+1 is held (or if forced)
RPop(q, force) ==
  IF (q.cum + 1) \in q.held THEN <<[q EXCEPT !.cum = @ + 1, !.held = @ \ {q.cum + 1}], TRUE>>
  ELSE IF force THEN <<[q EXCEPT !.cum = @ + 1], FALSE>>
  ELSE <<q, FALSE>>

\* forward-TSN: move the cumulative point to n, forgetting what is at or below it
RAdvance(q, n) == IF n <= q.cum THEN q ELSE [q EXCEPT !.cum = n, !.held = {t \in @ : t > n}]

RPopDups(q) == <<[q EXCEPT !.dups = <<>>], q.dups>>

\* gap ack blocks: maximal runs of held TSNs as offsets from cum, ascending
RECURSIVE RunEnd(_, _)
RunEnd(S, t) == IF (t + 1) \in S THEN RunEnd(S, t + 1) ELSE t
RECURSIVE GapsFrom(_, _, _)
GapsFrom(S, c, from) ==
  LET rest == {t \in S : t >= from} IN
  IF rest = {} THEN <<>>
  ELSE LET s == Min(rest) e == RunEnd(S, s) IN <<(<<s - c, e - c>>)>> \o GapsFrom(S, c, e + 1)
RGaps(q) == GapsFrom(q.held, q.cum, q.cum + 1)

\* invariants of the abstract structure
RTypeOK(q, W) == /\ \A t \in q.held : t > q.cum /\ t <= q.cum + W
                 /\ Cardinality(q.held) <= W
=============================================================================
