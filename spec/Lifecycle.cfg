SPECIFICATION Spec
CONSTANTS
 MaxPkts = 2
 T1Retries = 1
 defaultInitValue = defaultInitValue
INVARIANT LockOrder
PROPERTY TerminatesWhenClosed
CHECK_DEADLOCK FALSE
