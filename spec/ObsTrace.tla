------------------------------ MODULE ObsTrace ------------------------------
(***************************************************************************)
(* Observable-level trace specification for pion/sctp associations.        *)
(*                                                                         *)
(* Input: an NDJSON trace recorded by the harness (/verif/harness) from    *)
(* two REAL associations running in a synctest bubble over a driver-owned  *)
(* network.  One line = one event.  Every event is consumed by exactly one *)
(* action below; the actions rebuild, from observable events only (API     *)
(* calls and results, packets decoded by the harness's own decoder,        *)
(* driver decisions, and a few projected quantities the properties name),  *)
(* the history the properties talk about, and evaluate the property        *)
(* monitors in every step.  A failed monitor does not stop TLC: it is      *)
(* recorded in `viol` with a structured witness and printed when the       *)
(* scenario ends, so that one run reports every violation (needed to keep  *)
(* known findings from masking new ones).                                  *)
(*                                                                         *)
(* The trace is linear (no silent steps): acceptance = TLC reaches line    *)
(* Len(Trace)+1.  A step no action can take is a machinery failure.        *)
(***************************************************************************)
EXTENDS Integers, Sequences, FiniteSets, TLC, Json, IOUtils, SequencesExt, FiniteSetsExt, Functions, Reasm

Trace == ndJsonDeserialize(IOEnv.VF_TRACE)

VARIABLES
  l,        \* next trace line
  scen,     \* label of the current scenario
  cfg,      \* the scenario's "cfg" record
  msg,      \* message id -> its write event (accepted or not)
  order,    \* <<ep,sid>> -> Seq(id): accepted non-empty writes, in return order
  reads,    \* <<ep,sid>> -> Seq(read event)
  ch,       \* ep -> [tsn -> chunk record + transmission counters]
  hi,       \* ep -> highest TSN put on the wire so far (-1 initially)
  pkt,      \* pid -> [ep, ck, forged, t, chunks]
  rcvd,     \* ep -> set of peer TSNs handed to ep in DATA/I-DATA chunks
  skipTo,   \* ep -> highest new cumulative TSN of a FORWARD-TSN handed to ep (-1)
  ackCum,   \* ep -> highest cumulative ack handed to ep (as a sender) (-1)
  ackGap,   \* ep -> TSNs above ackCum gap-acked towards ep
  arw,      \* ep -> last advertised receiver window handed to ep
  outst,    \* ep -> recomputed outstanding (unacknowledged) user bytes
  lastSack, \* ep -> cumulative TSN of the last SACK ep emitted (-1)
  sackEv,   \* ep -> the last SACK chunk ep emitted since its previous snapshot, or <<>>
  sn,       \* ep -> last snapshot
  step,     \* the driver action that opened the current step
  newData,  \* ep -> Seq([after, before]) new user data sent since ep's previous snapshot
  misc,     \* small per-scenario bookkeeping record
  rs,       \* <<ep,sid>> -> Reasm state: the specification's own reassembly state of the receiver
  acc,      \* ep -> set of peer TSNs ep has accepted (stored) so far
  viol      \* set of violation records of the current scenario

vars == <<l, scen, cfg, msg, order, reads, ch, hi, pkt, rcvd, skipTo, ackCum, ackGap, arw, outst,
          lastSack, sackEv, sn, step, newData, misc, rs, acc, viol>>

EP == {0, 1}
Peer(e) == 1 - e
NoSnap == [none |-> TRUE]
E == Trace[l]
IsEv(name) == l <= Len(Trace) /\ Trace[l].ev = name
Cfg(e) == IF e = 0 THEN cfg.A ELSE cfg.B
UseIL == cfg.A.il /\ cfg.B.il
\* e told its peer that zero checksums are acceptable (with the DTLS method): it enabled them and its parameter was not
\* rewritten in transit to name another method
\* e's Supported Extensions reached the peer without I-FORWARD-TSN (a foreign stack, or rewritten in transit)
NoIfwd(e) == "noifwd" \in DOMAIN Cfg(e) /\ Cfg(e).noifwd
\* partial reliability needs a forward-TSN variant both sides can use: the plain one without interleaving, the I- one with it
PrUsable(e) == IF UseIL THEN ~NoIfwd(0) /\ ~NoIfwd(1) ELSE TRUE
ZcAnn(e) == Cfg(e).zc /\ ~("zcforeign" \in DOMAIN Cfg(e) /\ Cfg(e).zcforeign)
Get(f, k, d) == IF k \in DOMAIN f THEN f[k] ELSE d
Upd(f, k, v) == (k :> v) @@ f
V(mon, w) == [mon |-> mon, line |-> l, scen |-> scen, w |-> w]
MaxI(a, b) == IF a >= b THEN a ELSE b
\* maximum / minimum of a non-empty set of integers in linear time (FiniteSetsExt's Max / Min are CHOOSE-based: quadratic, and a
\* garbled SACK can name tens of thousands of TSNs); FoldSet is evaluated by a Java override
MaxF(S) == LET a == CHOOSE x \in S : TRUE IN FoldSet(LAMBDA x, best : IF x > best THEN x ELSE best, a, S)
MinF(S) == LET a == CHOOSE x \in S : TRUE IN FoldSet(LAMBDA x, best : IF x < best THEN x ELSE best, a, S)
MinI(a, b) == IF a <= b THEN a ELSE b
SeqSet(s) == {s[i] : i \in DOMAIN s}

\* misc: probe    - ep -> TSN of the last chunk sent while nothing was outstanding (window probe), -1
\*       thr      - <<ep,sid>> -> buffered-amount low threshold installed by the application
\*       cbs      - <<ep,sid>> -> low-threshold callbacks seen since ep's previous snapshot
\*       ackDue   - ep -> virtual time by which ep owes a SACK for data it was handed, -1 if none
\*       incn     - <<ep,sid>> -> incarnation counter (open/accept events)
\*       t3h      - ep -> last T3-rtx expiry seen: time, interval since the expiry before it (0 = not consecutive),
\*                  sender's cumulative ack point and expiry counter at that moment
\*       miss     - ep -> miss indications (RFC 4960 7.2.4) of ep's outstanding chunks recomputed from the SACKs handed to
\*                  it: s under the strictest reading (HTNA = highest TSN newly acknowledged), l under the loosest (highest
\*                  TSN the SACK acknowledges); ok = the recomputation saw every outstanding chunk so far
\*       shutTx   - ep -> virtual time of the last SHUTDOWN / SHUTDOWN-ACK chunk ep put on the wire, -1 if none
\*       lossSig  - the chunks whose third miss indication was caused by the packet handed over in line `line`
\*       wfail    - <<ep,sid>> of streams on which a write failed since ep's previous snapshot (the bytes of the
\*                  rejected write were visible in the buffered amount only while the call was blocked)
MiscInit == [probe |-> [e \in EP |-> -1], thr |-> <<>>, cbs |-> <<>>, ackDue |-> [e \in EP |-> -1],
             incn |-> <<>>, fwdMax |-> [e \in EP |-> -1],
             nack |-> [line |-> 0, to |-> -1, set |-> {}, hb |-> FALSE], teardown |-> FALSE, calls |-> <<>>, inj |-> <<>>, dead |-> [e \in EP |-> FALSE], abortRx |-> [e \in EP |-> FALSE], fuzzed |-> FALSE, abortSeen |-> [e \in EP |-> FALSE], shutAt |-> <<>>, shutRet |-> <<>>, closedInc |-> <<>>, wdl |-> <<>>, rdl |-> <<>>, reqs |-> <<>>, gen |-> <<>>, performed |-> {}, genAtRx |-> <<>>, rsGen |-> <<>>,
             pendReads |-> <<>>, hbCalls |-> <<>>, hbSeen |-> {}, txn |-> [e \in EP |-> 0], wfail |-> {}, rdBase |-> <<>>, rdOut |-> <<>>, bwOwed |-> {}, forged |-> FALSE,
             connClosed |-> [e \in EP |-> FALSE], abortTx |-> [e \in EP |-> FALSE], shutTx |-> [e \in EP |-> -1], miss |-> [e \in EP |-> [s |-> <<>>, l |-> <<>>, ok |-> TRUE]], lossSig |-> [line |-> 0, to |-> -1, set |-> {}],
             t3h |-> [e \in EP |-> [t |-> -1, iv |-> 0, cum |-> -1, n |-> -1]]]

InitVars ==
  /\ scen = "" /\ cfg = [none |-> TRUE]
  /\ msg = <<>> /\ order = <<>> /\ reads = <<>>
  /\ ch = [e \in EP |-> <<>>] /\ hi = [e \in EP |-> -1]
  /\ pkt = <<>>
  /\ rcvd = [e \in EP |-> {}] /\ skipTo = [e \in EP |-> -1]
  /\ ackCum = [e \in EP |-> -1] /\ ackGap = [e \in EP |-> {}]
  /\ arw = [e \in EP |-> 0] /\ outst = [e \in EP |-> 0]
  /\ lastSack = [e \in EP |-> -1] /\ sackEv = [e \in EP |-> <<>>]
  /\ sn = [e \in EP |-> NoSnap]
  /\ step = [ev |-> "none"]
  /\ newData = [e \in EP |-> <<>>]
  /\ misc = MiscInit
  /\ rs = <<>> /\ acc = [e \in EP |-> {}]
  /\ viol = {}

Init == l = 1 /\ InitVars /\ TLCSet(1, 0)

(***************************************************************************)
(* Scenario boundaries                                                     *)
(***************************************************************************)
TrCfg ==
  /\ IsEv("cfg")
  /\ scen' = E.label /\ cfg' = E
  /\ msg' = <<>> /\ order' = <<>> /\ reads' = <<>>
  /\ ch' = [e \in EP |-> <<>>] /\ hi' = [e \in EP |-> -1]
  /\ pkt' = <<>>
  /\ rcvd' = [e \in EP |-> {}] /\ skipTo' = [e \in EP |-> -1]
  /\ ackCum' = [e \in EP |-> -1] /\ ackGap' = [e \in EP |-> {}]
  \* started from exchanged tokens there is no INIT / INIT-ACK on the wire: the peer's window is the one in its token
  /\ arw' = [e \in EP |-> IF "tokens" \in DOMAIN E /\ E.tokens THEN (IF e = 0 THEN E.B.buf ELSE E.A.buf) ELSE 0] /\ outst' = [e \in EP |-> 0]
  /\ lastSack' = [e \in EP |-> -1] /\ sackEv' = [e \in EP |-> <<>>]
  /\ sn' = [e \in EP |-> NoSnap]
  /\ step' = [ev |-> "none"]
  /\ newData' = [e \in EP |-> <<>>]
  /\ misc' = MiscInit
  /\ rs' = <<>> /\ acc' = [e \in EP |-> {}]
  /\ viol' = {}
  /\ l' = l + 1

(***************************************************************************)
(* API: write                                                              *)
(***************************************************************************)
WriteViol(e) ==
  {V("C18_TooLargeRejected", <<e.id, e.len>>) : x \in {1} \cap (IF e.len > Cfg(e.ep).maxmsg /\ e.ok THEN {1} ELSE {})}
  \cup {V("C18_TooLargeError", <<e.id, e.len, e.err>>) : x \in {1} \cap (IF e.len > Cfg(e.ep).maxmsg /\ ~e.ok /\ e.err # "toolarge" THEN {1} ELSE {})}
  \cup {V("C18_ShortCount", <<e.id, e.len, e.n>>) : x \in {1} \cap (IF e.ok /\ e.n # e.len THEN {1} ELSE {})}

\* The call is logged before WriteSCTP runs (the writer goroutine may put chunks on the wire before
\* the call returns); the message is registered provisionally as accepted and confirmed or
\* withdrawn by the "write" event logged at the call's return (its linearization point for errors).
TrWCall ==
  /\ IsEv("wcall")
  /\ msg' = (E.id :> (E @@ [inc |-> Get(misc.incn, <<E.ep, E.sid>>, 0), callLine |-> l, snapSt |-> IF sn[E.ep] = NoSnap THEN "none" ELSE sn[E.ep].st])) @@ msg
  /\ LET k == <<E.ep, E.sid>> IN
       order' = IF E.len > 0 THEN (k :> Append(Get(order, k, <<>>), E.id)) @@ order ELSE order
  /\ step' = E
  /\ l' = l + 1
  /\ UNCHANGED <<scen, cfg, reads, ch, hi, pkt, rcvd, skipTo, ackCum, ackGap, arw, outst, lastSack, sackEv, sn, newData, misc, rs, acc, viol>>

TrWrite ==
  /\ IsEv("write")
  /\ msg' = (E.id :> (E @@ [inc |-> msg[E.id].inc, callLine |-> msg[E.id].callLine, snapSt |-> msg[E.id].snapSt, retLine |-> l])) @@ msg
  \* blocking-write mode: the call returns only after everything written before it was handed over for
  \* transmission. "Handed over" is not yet "on the wire" at the instant of the return (the write loop puts the
  \* gathered packets on the transport after releasing the lock), so the obligation is recorded here and judged
  \* at the endpoint's next quiescent point: every message whose write had RETURNED successfully before this
  \* call was made has then been put on the wire at least once (C18_BlockingWriteWaits)
  /\ misc' = IF ~E.ok THEN [misc EXCEPT !.wfail = @ \cup {<<E.ep, E.sid>>}]
             ELSE IF Cfg(E.ep).bw
             THEN LET earlier == {id \in DOMAIN msg : msg[id].ep = E.ep /\ msg[id].ok /\ msg[id].len > 0 /\ msg[id].ev = "write"
                                                        /\ msg[id].retLine < msg[E.id].callLine}
                      unsent == {id \in earlier : ~\E t \in DOMAIN ch[E.ep] : ch[E.ep][t].id = id /\ ch[E.ep][t].e}
                  IN [misc EXCEPT !.bwOwed = @ \cup {<<E.ep, E.id, x>> : x \in unsent}]
             ELSE misc
  /\ LET k == <<E.ep, E.sid>> IN
       order' = IF ~E.ok /\ E.len > 0
                THEN (k :> SelectSeq(Get(order, k, <<>>), LAMBDA x : x # E.id)) @@ order
                ELSE order
  /\ viol' = viol \cup WriteViol(E)
              \cup (IF E.ok /\ sn[E.ep] # NoSnap /\ sn[E.ep].st # "established" /\ msg[E.id].snapSt # "established"
                    THEN {V("C18_WriteNotEstablishedRejected", <<E.ep, E.sid, E.id, sn[E.ep].st>>)} ELSE {})
              \cup (IF ~E.ok /\ E.err \in {"deadline", "ctx"} /\ Get(misc.wdl, <<E.ep, E.sid>>, 0) > 0 /\ E.t < misc.wdl[<<E.ep, E.sid>>]
                    THEN {V("C18_WriteDeadlineEarly", <<E.ep, E.id, E.t, misc.wdl[<<E.ep, E.sid>>]>>)} ELSE {})
              \cup (IF E.ok /\ Get(misc.closedInc, <<E.ep, E.sid>>, 0) >= msg[E.id].inc /\ msg[E.id].inc > 0
                    THEN {V("C18_WriteOnClosedStreamRejected", <<E.ep, E.sid, E.id>>)} ELSE {})
              \cup (IF E.ok /\ E.ep \in DOMAIN misc.shutAt /\ msg[E.id].callLine > misc.shutAt[E.ep]
                    THEN {V("C08_WriteAfterShutdownRejected", <<E.ep, E.sid, E.id>>)} ELSE {})
              \* a blocking write that was still waiting (the system was quiescent) when this endpoint's Shutdown was called is a
              \* write on an association that is no longer established by the time it could be queued: it is rejected
              \cup (IF E.ok /\ Cfg(E.ep).bw /\ "async" \in DOMAIN E /\ E.ep \in DOMAIN misc.shutAt /\ msg[E.id].callLine < misc.shutAt[E.ep]
                    THEN {V("C18_BlockedWriteAcrossShutdown", <<E.ep, E.sid, E.id>>)} ELSE {})
              \cup (IF ~E.ok /\ \E t \in DOMAIN ch[E.ep] : ch[E.ep][t].id = E.id
                    THEN {V("C18_FailedWriteOnWire", <<E.ep, E.sid, E.id, E.err>>)} ELSE {})
  /\ step' = (IF "async" \in DOMAIN E THEN step ELSE E)
  /\ l' = l + 1
  /\ UNCHANGED <<scen, cfg, reads, ch, hi, pkt, rcvd, skipTo, ackCum, ackGap, arw, outst, lastSack, sackEv, sn, newData, rs, acc>>

(***************************************************************************)
(* API: read                                                               *)
(***************************************************************************)
\* position of id in the sending order of its stream (0 if absent)
PosIn(s, id) == IF \E i \in DOMAIN s : s[i] = id THEN CHOOSE i \in DOMAIN s : s[i] = id ELSE 0

ReadViol(e) ==
  LET k    == <<e.ep, e.sid>>
      sk   == <<Peer(e.ep), e.sid>>
      prev == Get(reads, k, <<>>)
      sent == Get(order, sk, <<>>)
      prevIds == {prev[i].id : i \in {j \in DOMAIN prev : prev[j].ok}}
      m    == IF e.id \in DOMAIN msg THEN msg[e.id] ELSE [none |-> TRUE]
      known == e.id \in DOMAIN msg
      pos  == PosIn(sent, e.id)
      \* earlier ordered messages of the stream already delivered
      laterDelivered == {i \in DOMAIN sent : i > pos /\ sent[i] \in prevIds /\ ~msg[sent[i]].unord}
      earlierReliableMissing == {i \in DOMAIN sent : i < pos /\ sent[i] \notin prevIds
                                   /\ ~msg[sent[i]].unord /\ (msg[sent[i]].rtype = 0 \/ msg[sent[i]].ppi = 50)}
  IN
  IF ~e.ok THEN
    \* C18: a read deadline makes the blocked read return at the deadline, not before
    (IF e.err = "deadline" /\ Get(misc.rdl, k, 0) > 0 /\ e.t # misc.rdl[k] /\ "async" \in DOMAIN e
     THEN {V("C18_ReadDeadlineInstant", <<e.ep, e.sid, e.t, misc.rdl[k]>>)} ELSE {})
    \cup
    \* C14: end-of-file only after the writer closed this incarnation, and only after every message it wrote
    (IF e.err = "eof" /\ ~misc.teardown
     THEN LET rinc == Get(misc.incn, k, 0)
              owed == {id \in DOMAIN msg : msg[id].ep = Peer(e.ep) /\ msg[id].sid = e.sid /\ msg[id].ok /\ msg[id].len > 0
                                           /\ msg[id].inc = rinc /\ (msg[id].rtype = 0 \/ msg[id].ppi = 50) /\ id \notin prevIds}
          IN (IF Get(misc.closedInc, sk, 0) < rinc THEN {V("C14_EofOnlyAfterClose", <<e.ep, e.sid, rinc>>)} ELSE {})
             \cup (IF owed # {} THEN {V("C14_EofAfterAllData", <<e.ep, e.sid, CHOOSE id \in owed : TRUE>>)} ELSE {})
     ELSE {})
  ELSE
    (IF e.id = 0 THEN {V("C06_Genuine", <<e.ep, e.sid, e.len, e.ppi>>)} ELSE {})
    \cup (IF e.id # 0 /\ (~known \/ pos = 0) THEN {V("C06_Genuine", <<e.ep, e.sid, e.id>>)} ELSE {})
    \cup (IF known /\ pos # 0 /\ ~m.ok THEN {V("C18_FailedWriteDelivered", <<e.ep, e.sid, e.id>>)} ELSE {})
    \cup (IF e.id # 0 /\ e.id \in prevIds THEN {V("C06_AtMostOnce", <<e.ep, e.sid, e.id>>)} ELSE {})
    \cup (IF known /\ pos # 0 /\ (m.len # e.len \/ m.ppi # e.ppi) THEN {V("C06_Intact", <<e.ep, e.sid, e.id, e.len, e.ppi>>)} ELSE {})
    \cup (IF known /\ pos # 0 /\ ~m.unord /\ laterDelivered # {} THEN {V("C06_OrderedSubseq", <<e.ep, e.sid, e.id>>)} ELSE {})
    \cup (IF \E i \in DOMAIN prev : i > Get(misc.rdBase, k, 0) /\ ~prev[i].ok /\ prev[i].err \notin {"short", "deadline"}
          THEN {V("C08_DataAfterClosure", <<e.ep, e.sid, e.id>>)} ELSE {})
    \cup (IF known /\ pos # 0 /\ ~m.unord /\ earlierReliableMissing # {}
          THEN {V("C01_SkippedReliable", <<e.ep, e.sid, e.id, sent[MinF(earlierReliableMissing)]>>)} ELSE {})

\* The specification's own reassembly state says which message a successful read must return.
ReadSpec(e) ==
  LET k == <<e.ep, e.sid>>
      x == ReasmRead(Get(rs, k, ReasmInit), IF e.ok THEN e.len ELSE e.buf)
  IN x

TrRead ==
  /\ IsEv("read")
  /\ LET k == <<E.ep, E.sid>>
         deferred == "async" \in DOMAIN E
         x == ReadSpec(E)
         specId == IF x[2].kind = "none" THEN 0 ELSE (CHOOSE c \in x[2].S : TRUE).m
         drift == IF deferred THEN FALSE
                  ELSE IF E.ok THEN (x[2].kind = "none" \/ specId # E.id)
                  ELSE IF E.err = "short" THEN x[2].kind # "short" \/ x[2].n # E.len ELSE FALSE
     IN
       /\ reads' = (k :> Append(Get(reads, k, <<>>), E)) @@ reads
       /\ rs' = IF E.ok /\ ~drift /\ ~deferred THEN (k :> x[1]) @@ rs ELSE rs
       /\ misc' = IF deferred THEN [misc EXCEPT !.pendReads = Append(@, E), !.rdOut = Upd(@, k, MaxI(0, Get(@, k, 0) - 1))] ELSE misc
       /\ viol' = viol \cup ReadViol(E)
                   \cup (IF drift THEN {V("C01_ReadNext", <<E.ep, E.sid, E.id, specId, E.err>>)} ELSE {})
  /\ step' = IF "async" \in DOMAIN E THEN step ELSE E
  /\ l' = l + 1
  /\ UNCHANGED <<scen, cfg, msg, order, ch, hi, pkt, rcvd, skipTo, ackCum, ackGap, arw, outst, lastSack, sackEv, sn, newData, acc>>

(***************************************************************************)
(* Wire: packet header written by an endpoint (or forged by the harness)   *)
(***************************************************************************)
HasKind(p, ks) == \E i \in DOMAIN p.kinds : p.kinds[i] \in ks
DataKinds == {"data", "idata"}

TxViol(p) ==
  LET e == p.ep
      mandatory == HasKind(p, {"init", "cookieecho"})
  IN
    (IF p.wf # <<>> THEN {V("C12_WellFormed", <<e, p.pid, p.wf>>)} ELSE {})
    \cup (IF p.ck = "bad" THEN {V("C13_EmitCorrect", <<e, p.pid>>)} ELSE {})
    \cup (IF p.ck = "zero" /\ (mandatory \/ ~ZcAnn(Peer(e))) THEN {V("C13_EmitZeroOnlyNegotiated", <<e, p.pid, p.kinds>>)} ELSE {})
    \cup (IF HasKind(p, DataKinds) /\ p.len > Cfg(e).mtu THEN {V("C10_Mtu", <<e, p.pid, p.len>>)} ELSE {})
    \cup (IF HasKind(p, {"init"}) /\ (p.n # 1 \/ p.vtag # "zero") THEN {V("C12_InitAlone", <<e, p.pid>>)} ELSE {})
    \cup (IF ~p.ports THEN {V("C12_Ports", <<e, p.pid>>)} ELSE {})
    \cup (IF misc.dead[e] THEN {V("C09_NoWriteAfterClose", <<e, "written", p.kinds>>)} ELSE {})

TrTx ==
  /\ IsEv("tx")
  /\ pkt' = (E.pid :> [ep |-> E.ep, ck |-> E.ck, forged |-> FALSE, genuine |-> TRUE, t |-> E.t, kinds |-> E.kinds, chunks |-> <<>>, class |-> "", malformed |-> FALSE]) @@ pkt
  \* C09: the ABORT is the last thing an endpoint puts on the wire ("nothing more is written to the connection")
  /\ viol' = viol \cup TxViol(E) \cup (IF misc.abortTx[E.ep] THEN {V("C09_NothingAfterAbort", <<E.ep, E.pid, E.kinds>>)} ELSE {})
  /\ misc' = [misc EXCEPT !.txn[E.ep] = @ + 1, !.abortTx[E.ep] = @ \/ HasKind(E, {"abort"}),
                           !.abortSeen[E.ep] = @ \/ HasKind(E, {"abort"}),
                           !.teardown = @ \/ HasKind(E, {"abort"})]
  /\ l' = l + 1
  /\ UNCHANGED <<scen, cfg, msg, order, reads, ch, hi, rcvd, skipTo, ackCum, ackGap, arw, outst, lastSack, sackEv, sn, step, newData, rs, acc>>

TrForge ==
  /\ IsEv("forge")
  /\ pkt' = (E.pid :> [ep |-> E.ep, ck |-> E.ck, forged |-> TRUE, genuine |-> E.genuine, t |-> E.t, kinds |-> E.kinds, chunks |-> <<>>, class |-> E.class, malformed |-> E.pwf # <<>>]) @@ pkt
  /\ misc' = [misc EXCEPT !.fuzzed = @ \/ E.class = "mutated", !.forged = @ \/ ~E.genuine]
  /\ l' = l + 1
  /\ UNCHANGED <<scen, cfg, msg, order, reads, ch, hi, rcvd, skipTo, ackCum, ackGap, arw, outst, lastSack, sackEv, sn, step, newData, rs, acc, viol>>

(***************************************************************************)
(* Wire: one chunk of the packet announced by the preceding header         *)
(***************************************************************************)
\* (built by filtering one interval: TLC evaluates UNION with a linear membership search per element -- quadratic, and a garbled
\* SACK can name tens of thousands of TSNs in one block)
GapTSNs(c) == IF c.gaps = <<>> THEN {}
              ELSE LET glo == MinF({c.gaps[i][1] : i \in DOMAIN c.gaps})
                       ghi == MaxF({c.gaps[i][2] : i \in DOMAIN c.gaps})
                   IN {c.cum + k : k \in {j \in glo..ghi : \E i \in DOMAIN c.gaps : j >= c.gaps[i][1] /\ j <= c.gaps[i][2]}}

GapSpan(c) == IF c.gaps = <<>> THEN 0 ELSE MaxF({c.gaps[i][2] : i \in DOMAIN c.gaps}) - MinF({c.gaps[i][1] : i \in DOMAIN c.gaps})
\* t is named by one of the gap-ack blocks of SACK c (no set is built: the blocks of a garbled SACK can span 65 535 TSNs each)
InGaps(c, t) == \E i \in DOMAIN c.gaps : t - c.cum >= c.gaps[i][1] /\ t - c.cum <= c.gaps[i][2]

\* --- DATA / I-DATA written by endpoint e
DataViol(c) ==
  LET e     == c.ep
      isNew == c.tsn \notin DOMAIN ch[e]
      old   == ch[e][c.tsn]
      known == c.id \in DOMAIN msg
      m     == msg[c.id]
      prevC == ch[e][c.tsn - 1]
      ntx   == IF isNew THEN 1 ELSE old.ntx + 1
      late  == IF isNew THEN 0 ELSE old.late + (IF known /\ m.rtype = 2 /\ c.t > old.t0 + m.rval THEN 1 ELSE 0)
  IN
    (IF c.il # UseIL THEN {V("C17_Kind", <<e, c.tsn, c.il>>)} ELSE {})
    \cup (IF isNew /\ c.tsn # hi[e] + 1 THEN {V("C01_TsnConsecutive", <<e, c.tsn, hi[e]>>)} ELSE {})
    \cup (IF c.id = 0 \/ ~known THEN {V("C01_UnknownPayloadOnWire", <<e, c.tsn, c.sid, c.len>>)} ELSE {})
    \cup (IF known /\ ~m.ok THEN {V("C18_FailedWriteOnWire", <<e, c.tsn, c.id>>)} ELSE {})
    \cup (IF known /\ (m.ep # e \/ m.sid # c.sid) THEN {V("C01_WrongStream", <<e, c.tsn, c.id, c.sid>>)} ELSE {})
    \cup (IF known /\ (c.b \/ ~c.il) /\ c.ppi # m.ppi THEN {V("C12_Ppi", <<e, c.tsn, c.id, c.ppi>>)} ELSE {})
    \cup (IF known /\ c.u # m.unord THEN {V("C06_OrderingFlag", <<e, c.tsn, c.id, c.u>>)} ELSE {})
    \cup (IF c.ppi = 50 /\ c.u THEN {V("C06_DcepOrdered", <<e, c.tsn, c.id>>)} ELSE {})
    \cup (IF c.b # (c.fi = 0) THEN {V("C01_FragFlags", <<e, c.tsn, c.id, c.fi>>)} ELSE {})
    \cup (IF ~isNew /\ (old.id # c.id \/ old.fi # c.fi \/ old.len # c.len \/ old.sid # c.sid \/ old.ssn # c.ssn
                        \/ old.mid # c.mid \/ old.fsn # c.fsn \/ old.b # c.b \/ old.e # c.e \/ old.u # c.u)
          THEN {V("C01_RetransmissionIdentical", <<e, c.tsn, c.id>>)} ELSE {})
    \cup (IF isNew /\ ~c.il /\ c.fi > 0 /\ ((c.tsn - 1) \notin DOMAIN ch[e] \/ prevC.id # c.id \/ prevC.fi # c.fi - 1)
          THEN {V("C17_ConsecutiveTSN", <<e, c.tsn, c.id, c.fi>>)} ELSE {})
    \cup (IF c.il /\ c.fsn # c.fi THEN {V("C17_FsnOrder", <<e, c.tsn, c.id, c.fi, c.fsn>>)} ELSE {})
    \* sequence numbers: the n-th ordered (resp. unordered, with interleaving) message of an incarnation
    \* carries SSN / MID n-1 -- in particular a reopened identifier starts again at 0 (C14)
    \cup (IF known /\ isNew /\ c.b /\ (c.il \/ ~c.u) /\ m.ok
          THEN LET same == {id \in DOMAIN msg : msg[id].ep = e /\ msg[id].sid = c.sid /\ msg[id].inc = m.inc /\ msg[id].ok /\ msg[id].len > 0
                                                /\ msg[id].unord = m.unord /\ msg[id].callLine < m.callLine}
                   seq == IF c.il THEN c.mid ELSE c.ssn
                   empties == {id \in DOMAIN msg : msg[id].ep = e /\ msg[id].sid = c.sid /\ msg[id].inc = m.inc /\ msg[id].ok /\ msg[id].len = 0
                                                   /\ msg[id].unord = m.unord /\ msg[id].callLine < m.callLine}
               IN IF seq # Cardinality(same)
                  THEN {V("C14_SequenceNumber", <<e, c.sid, c.id, seq, Cardinality(same), m.inc>>)}
                       \cup (IF empties # {} /\ seq = Cardinality(same) + Cardinality(empties)
                             THEN {V("C18_EmptyWriteNoEffect", <<e, c.sid, c.id, seq, Cardinality(same)>>)} ELSE {})
                  ELSE {}
          ELSE {})
    \cup (IF known /\ m.rtype = 1 /\ m.ppi # 50 /\ ntx > m.rval + 1 /\ PrUsable(e) THEN {V("C06_RexmitCap", <<e, c.tsn, c.id, ntx, m.rval, IF m.len > c.len THEN "fragmented" ELSE "whole">>)} ELSE {})
    \cup (IF known /\ m.rtype = 2 /\ m.ppi # 50 /\ late > 1 /\ PrUsable(e) THEN {V("C06_Lifetime", <<e, c.tsn, c.id, late, m.rval, IF m.len > c.len THEN "fragmented" ELSE "whole">>)} ELSE {})

TrChunkData ==
  /\ IsEv("c") /\ E.k \in DataKinds /\ ~pkt[E.pid].forged
  /\ LET e     == E.ep
         isNew == E.tsn \notin DOMAIN ch[e]
         old   == ch[e][E.tsn]
         known == E.id \in DOMAIN msg
         lateInc == IF ~isNew /\ known /\ msg[E.id].rtype = 2 /\ E.t > old.t0 + msg[E.id].rval THEN 1 ELSE 0
         rec   == IF isNew
                  THEN [id |-> E.id, fi |-> E.fi, sid |-> E.sid, len |-> E.len, ssn |-> E.ssn, mid |-> E.mid, fsn |-> E.fsn,
                        b |-> E.b, e |-> E.e, u |-> E.u, ppi |-> E.ppi, ntx |-> 1, t0 |-> E.t, tl |-> E.t, late |-> 0]
                  ELSE [old EXCEPT !.ntx = @ + 1, !.tl = E.t, !.late = @ + lateInc]
     IN
       /\ ch' = [ch EXCEPT ![e] = (E.tsn :> rec) @@ @]
       /\ hi' = [hi EXCEPT ![e] = MaxI(@, E.tsn)]
       /\ outst' = [outst EXCEPT ![e] = IF isNew THEN @ + E.len ELSE @]
       \* window-probe allowance: the last chunk that was sent while nothing was outstanding, for as
       \* long as it is itself unacknowledged (RFC 4960 6.1 A: "one DATA chunk in flight regardless of rwnd")
       /\ newData' = [newData EXCEPT ![e] = IF isNew
                        THEN Append(@, [before |-> outst[e], after |-> outst[e] + E.len, tsn |-> E.tsn,
                                        allow |-> IF outst[e] = 0 THEN E.len
                                                  ELSE IF misc.probe[e] >= 0 /\ misc.probe[e] > ackCum[e] /\ misc.probe[e] \notin ackGap[e]
                                                       THEN ch[e][misc.probe[e]].len ELSE 0])
                        ELSE @]
       /\ misc' = IF isNew /\ outst[e] = 0 THEN [misc EXCEPT !.probe[e] = E.tsn] ELSE misc
  /\ pkt' = [pkt EXCEPT ![E.pid].chunks = Append(@, E)]
  /\ viol' = viol \cup DataViol(E)
  /\ l' = l + 1
  /\ UNCHANGED <<scen, cfg, msg, order, reads, rcvd, skipTo, ackCum, ackGap, arw, lastSack, sackEv, sn, step, rs, acc>>

\* --- SACK written by endpoint e (about the peer's TSNs)
SackViol(c) ==
  LET e == c.ep
      \* (a jump of the cumulative point by more than one tracking window is judged without enumerating it)
      jump == c.cum - MaxI(lastSack[e], skipTo[e]) > 50000
      newlyCovered == IF jump THEN {} ELSE (MaxI(lastSack[e], skipTo[e]) + 1)..c.cum
      unsound == {t \in newlyCovered : t >= 0 /\ t \notin rcvd[e] /\ t > skipTo[e]}
      gapT == GapTSNs(c)
      prevAccepted == IF sn[e] = NoSnap THEN {} ELSE SeqSet(sn[e].held)
      sorted == \A i \in DOMAIN c.gaps : c.gaps[i][1] >= 2 /\ c.gaps[i][1] <= c.gaps[i][2]
                   /\ (i > 1 => c.gaps[i][1] > c.gaps[i-1][2] + 1)
  IN
    (IF c.cum < lastSack[e] THEN {V("C05_Monotone", <<e, c.cum, lastSack[e]>>)} ELSE {})
    \cup (IF unsound # {} THEN {V("C05_CumSound", <<e, c.cum, MinF(unsound)>>)} ELSE {})
    \cup (IF jump THEN {V("C05_CumSound", <<e, c.cum, "jump">>)} ELSE {})
    \cup (IF gapT \ rcvd[e] # {} THEN {V("C05_GapSound", <<e, c.cum, MinF(gapT \ rcvd[e])>>)} ELSE {})
    \cup (IF ~sorted THEN {V("C05_GapShape", <<e, c.cum, c.gaps>>)} ELSE {})
    \cup (IF sn[e] # NoSnap /\ (sn[e].rcum > c.cum \/ {t \in prevAccepted : t > c.cum} \ gapT # {})
          THEN {V("C05_Complete", <<e, c.cum, sn[e].rcum>>)} ELSE {})
    \cup (IF \E i \in DOMAIN c.dups : c.dups[i] \notin rcvd[e] THEN {V("C05_DupSound", <<e, c.cum, c.dups>>)} ELSE {})

TrChunkSack ==
  /\ IsEv("c") /\ E.k = "sack" /\ ~pkt[E.pid].forged
  /\ lastSack' = [lastSack EXCEPT ![E.ep] = MaxI(@, E.cum)]
  /\ sackEv' = [sackEv EXCEPT ![E.ep] = E]
  /\ pkt' = [pkt EXCEPT ![E.pid].chunks = Append(@, E)]
  /\ viol' = viol \cup (IF "bad" \in DOMAIN E THEN {V("C12_WellFormed", <<E.ep, E.pid, "sack">>)} ELSE SackViol(E))
              \cup (IF misc.ackDue[E.ep] >= 0 /\ E.t > misc.ackDue[E.ep] THEN {V("C19_AckDelay", <<E.ep, misc.ackDue[E.ep], E.t>>)} ELSE {})
  /\ misc' = [misc EXCEPT !.ackDue[E.ep] = -1]
  /\ l' = l + 1
  /\ UNCHANGED <<scen, cfg, msg, order, reads, ch, hi, rcvd, skipTo, ackCum, ackGap, arw, outst, sn, step, newData, rs, acc>>

\* --- FORWARD-TSN / I-FORWARD-TSN written by endpoint e (C07: the peer is told to skip exactly the
\*     abandoned messages).  Range = TSNs above what the peer has cumulatively acknowledged.
FwdViol(c) ==
  LET e == c.ep
      rng == {t \in DOMAIN ch[e] : t > ackCum[e] /\ t <= c.cum}
      unackd == {t \in rng : t \notin ackGap[e]}
      notPR == {t \in unackd : ch[e][t].id \in DOMAIN msg /\ (msg[ch[e][t].id].rtype = 0 \/ ch[e][t].ppi = 50 \/ msg[ch[e][t].id].ppi = 50)}
      never == {t \in (ackCum[e] + 1)..c.cum : t \notin DOMAIN ch[e]}
      il == c.k = "ifwd"
      \* expected stream list: per stream (and per ordering class with interleaving) the largest sequence
      \* number among the skipped ORDERED (resp. matching) chunks
      ordSids == {ch[e][t].sid : t \in {x \in rng : ~ch[e][x].u}}
      unoSids == {ch[e][t].sid : t \in {x \in rng : ch[e][x].u}}
      maxSeq(sid, u) == MaxF({IF il THEN ch[e][t].mid ELSE ch[e][t].ssn : t \in {x \in rng : ch[e][x].sid = sid /\ ch[e][x].u = u}})
      expected == IF il THEN {<<sid, 0, maxSeq(sid, FALSE)>> : sid \in ordSids} \cup {<<sid, 1, maxSeq(sid, TRUE)>> : sid \in unoSids}
                  ELSE {<<sid, maxSeq(sid, FALSE)>> : sid \in ordSids}
      listed == SeqSet(c.streams)
  IN
    (IF (c.k = "ifwd") # UseIL THEN {V("C17_FwdKind", <<e, c.cum, c.k>>)} ELSE {})
    \cup (IF notPR # {} THEN {V("C07_SkipOnlyAbandonable", <<e, c.cum, MinF(notPR), ch[e][MinF(notPR)].id>>)} ELSE {})
    \cup (IF never # {} THEN {V("C07_SkipNeverSent", <<e, c.cum, MinF(never)>>)} ELSE {})
    \cup (IF c.cum > ackCum[e] /\ listed # expected
          THEN {V("C07_FwdStreams", <<e, c.cum, c.streams, IF listed \ expected # {} THEN "extra-entry" ELSE "missing-entry",
                                      IF \E en \in listed \ expected : en[1] \in unoSids /\ en[1] \notin ordSids THEN "unordered-only-stream" ELSE "other">>)}
          ELSE {})
    \cup (IF Len(c.streams) # Cardinality(listed) THEN {V("C07_FwdDuplicateEntry", <<e, c.cum, c.streams>>)} ELSE {})

TrChunkFwd ==
  /\ IsEv("c") /\ E.k \in {"fwd", "ifwd"} /\ ~pkt[E.pid].forged
  /\ pkt' = [pkt EXCEPT ![E.pid].chunks = Append(@, E)]
  /\ misc' = [misc EXCEPT !.fwdMax[E.ep] = MaxI(@, E.cum)]
  /\ viol' = viol \cup (IF "bad" \in DOMAIN E THEN {V("C12_WellFormed", <<E.ep, E.pid, E.k>>)} ELSE FwdViol(E))
  /\ l' = l + 1
  /\ UNCHANGED <<scen, cfg, msg, order, reads, ch, hi, rcvd, skipTo, ackCum, ackGap, arw, outst, lastSack, sackEv, sn, step, newData, rs, acc>>

\* --- SHUTDOWN written by endpoint e: its cumulative TSN ack acknowledges data like a SACK does (C08)
TrChunkShutdown ==
  /\ IsEv("c") /\ E.k = "shutdown" /\ ~pkt[E.pid].forged /\ "bad" \notin DOMAIN E
  /\ pkt' = [pkt EXCEPT ![E.pid].chunks = Append(@, E)]
  /\ LET e == E.ep
         unsound == IF E.cum - skipTo[e] > 50000 THEN {E.cum} ELSE {t \in (MaxI(skipTo[e], -1) + 1)..E.cum : t \notin rcvd[e]}
     IN viol' = viol \cup (IF unsound # {} THEN {V("C08_ShutdownAckSound", <<e, E.cum, MinF(unsound)>>)} ELSE {})
  \* a SHUTDOWN carries the cumulative TSN ack: it discharges the acknowledgement the endpoint owed
  /\ misc' = [misc EXCEPT !.ackDue[E.ep] = -1, !.shutTx[E.ep] = E.t]
  /\ l' = l + 1
  /\ UNCHANGED <<scen, cfg, msg, order, reads, ch, hi, rcvd, skipTo, ackCum, ackGap, arw, outst, lastSack, sackEv, sn, step, newData, rs, acc>>

\* --- RECONFIG written by endpoint e: outgoing reset requests (C14: ordered after the streams' data)
\*     and responses ("performed" = the receiver reset the incoming streams: a later chunk on that
\*     identifier belongs to a new incarnation)
RECURSIVE RecoFold(_, _, _, _)
RecoFold(m, e, ps, i) ==
  IF i > Len(ps) THEN m
  ELSE LET p == ps[i] IN
    IF p.p = "req" THEN RecoFold([m EXCEPT !.reqs = Upd(@, <<e, p.rsn>>, p.sids)], e, ps, i + 1)
    ELSE IF p.p = "resp" /\ p.result = 1 /\ <<Peer(e), p.rsn>> \in DOMAIN m.reqs /\ <<e, p.rsn>> \notin m.performed
    THEN LET sids == SeqSet(m.reqs[<<Peer(e), p.rsn>>]) IN
         RecoFold([m EXCEPT !.gen = [k \in DOMAIN @ \cup {<<e, x>> : x \in sids} |->
                                       IF k[1] = e /\ k[2] \in sids THEN Get(@, k, 0) + 1 ELSE @[k]],
                            !.performed = @ \cup {<<e, p.rsn>>}], e, ps, i + 1)
    ELSE RecoFold(m, e, ps, i + 1)
RecoViol(c) ==
  LET e == c.ep
      reqs == {c.params[i] : i \in {j \in DOMAIN c.params : c.params[j].p = "req"}}
  \* judged on the first transmission of a request only: a re-sent request legitimately carries its old last-TSN
  \* while the identifier may have been re-opened and written since
  IN UNION {LET late == {t \in DOMAIN ch[e] : ch[e][t].sid \in SeqSet(r.sids) /\ t > r.last /\ <<e, r.rsn>> \notin DOMAIN misc.reqs} IN
            (IF late # {} THEN {V("C14_ResetAfterData", <<e, r.rsn, r.last, MinF(late)>>)} ELSE {})
            \cup (IF r.last > hi[e] THEN {V("C14_ResetLastTsn", <<e, r.rsn, r.last, hi[e]>>)} ELSE {})
            : r \in reqs}
TrChunkReconfig ==
  /\ IsEv("c") /\ E.k = "reconfig" /\ ~pkt[E.pid].forged /\ "bad" \notin DOMAIN E
  /\ pkt' = [pkt EXCEPT ![E.pid].chunks = Append(@, E)]
  /\ misc' = RecoFold(misc, E.ep, E.params, 1)
  /\ viol' = viol \cup RecoViol(E)
  /\ l' = l + 1
  /\ UNCHANGED <<scen, cfg, msg, order, reads, ch, hi, rcvd, skipTo, ackCum, ackGap, arw, outst, lastSack, sackEv, sn, step, newData, rs, acc>>

\* --- any other chunk (handshake, reconfig, shutdown, abort, heartbeat ...): stored with the packet
\* --- HEARTBEAT / HEARTBEAT-ACK written by an endpoint (C19: an on-demand heartbeat is answered)
TrChunkHb ==
  /\ IsEv("c") /\ E.k \in {"hb", "hback"} /\ ~pkt[E.pid].forged /\ "bad" \notin DOMAIN E
  /\ pkt' = [pkt EXCEPT ![E.pid].chunks = Append(@, E)]
  /\ misc' = [misc EXCEPT !.hbSeen = @ \cup {<<E.k, E.ep, E.info, l>>}]
  /\ l' = l + 1
  /\ UNCHANGED <<scen, cfg, msg, order, reads, ch, hi, rcvd, skipTo, ackCum, ackGap, arw, outst, lastSack, sackEv, sn, step, newData, rs, acc, viol>>

TrChunkOther ==
  /\ IsEv("c") /\ (pkt[E.pid].forged \/ "bad" \in DOMAIN E \/ E.k \notin (DataKinds \cup {"sack", "fwd", "ifwd", "shutdown", "reconfig", "hb", "hback"}))
  /\ pkt' = [pkt EXCEPT ![E.pid].chunks = Append(@, E)]
  \* C04: an endpoint that was established at its last quiescent point does not (re)transmit INIT / COOKIE-ECHO:
  \* the T1 timers were stopped when the handshake completed, by whichever packet completed it
  /\ viol' = viol \cup (IF ~pkt[E.pid].forged /\ E.k \in {"init", "cookieecho"} /\ sn[E.ep] # NoSnap /\ sn[E.ep].st = "established"
                        THEN {V("C04_NoHandshakeChunkWhenEstablished", <<E.ep, E.k, E.t>>)} ELSE {})
  /\ misc' = IF ~pkt[E.pid].forged /\ "bad" \notin DOMAIN E /\ E.k = "shutdownack" THEN [misc EXCEPT !.shutTx[E.ep] = E.t] ELSE misc
  /\ l' = l + 1
  /\ UNCHANGED <<scen, cfg, msg, order, reads, ch, hi, rcvd, skipTo, ackCum, ackGap, arw, outst, lastSack, sackEv, sn, step, newData, rs, acc>>

(***************************************************************************)
(* Driver: a packet is handed to its destination                           *)
(***************************************************************************)
ChunksOfKind(p, ks) == {p.chunks[i] : i \in {j \in DOMAIN p.chunks : p.chunks[j].k \in ks}}
Wellformed(c) == "bad" \notin DOMAIN c

\* an owed SACK whose deadline passed before virtual time t (checked whenever time is observed)
AckLate(t) == {V("C19_AckDelay", <<e, misc.ackDue[e], t>>) : e \in {x \in EP : misc.ackDue[x] >= 0 /\ t > misc.ackDue[x]}}

\* C13: the checksum acceptance rule, from the harness's own CRC32c classification of the packet
AcceptCk(p, e) == IF p.ck = "ok" THEN TRUE
                  ELSE IF p.ck = "zero" THEN Cfg(e).zc /\ p.kinds # <<>> /\ p.kinds[1] \notin {"init", "cookieecho"}
                  ELSE FALSE

TrRx ==
  /\ IsEv("rx")
  /\ LET p    == pkt[E.pid]
         to   == E.to
         live == E.ok /\ AcceptCk(p, to) /\ p.genuine
         dataT == {c.tsn : c \in ChunksOfKind(p, DataKinds)}
         fwds  == {c.cum : c \in {x \in ChunksOfKind(p, {"fwd", "ifwd"}) : Wellformed(x)}}
         \* a SACK whose cumulative point is behind what was already acknowledged is stale (RFC 4960 6.2.1 D i)
         sacks == {c \in ChunksOfKind(p, {"sack"}) : Wellformed(c) /\ c.cum >= ackCum[E.to]}
         shuts == {c \in ChunksOfKind(p, {"shutdown"}) : Wellformed(c)}
         cums  == {c.cum : c \in sacks \cup shuts}
         ncum  == IF live /\ cums # {} THEN MaxI(ackCum[to], MaxF(cums)) ELSE ackCum[to]
         \* only TSNs the sender really sent are remembered as gap-acked (nothing else is ever asked about)
         \* (a SACK whose blocks span thousands of TSNs -- garbage -- is tested chunk by chunk instead of being enumerated: this
         \* expression is re-evaluated for every chunk the definitions below look at)
         ngap  == IF live THEN (ackGap[to] \cup UNION {IF GapSpan(c) > 2000 THEN {t \in DOMAIN ch[to] : InGaps(c, t)}
                                                         ELSE {t \in GapTSNs(c) : t \in DOMAIN ch[to]} : c \in sacks})
                  ELSE ackGap[to]
         newly == {t \in DOMAIN ch[to] : (t <= ncum \/ t \in ngap) /\ ~(t <= ackCum[to] \/ t \in ackGap[to])}
         inits == {c \in ChunksOfKind(p, {"init", "initack"}) : Wellformed(c)}
         \* C10: miss indications. The sender's own view of which chunks are outstanding and not abandoned is taken
         \* from its previous snapshot (at most 64 chunks are listed: beyond that the count is declared incomplete).
         ps    == sn[to]
         sk    == CHOOSE c \in sacks : TRUE
         top   == IF sk.gaps = <<>> THEN sk.cum ELSE sk.cum + MaxF({sk.gaps[i][2] : i \in DOMAIN sk.gaps})
         inFR  == ps.infr /\ ~(ps.frexit > ackCum[to] /\ ps.frexit <= sk.cum)
         listed == {x[1] : x \in {y \in SeqSet(ps.infl) : y[4] = 0 /\ y[5] = 0}}
         cand  == {t \in listed : t > sk.cum /\ ~InGaps(sk, t) /\ t \notin ackGap[to]}
         htS   == IF newly = {} THEN sk.cum ELSE MaxF(newly)
         cntS  == IF ~inFR THEN {t \in cand : t < htS} ELSE IF sk.cum > ackCum[to] THEN {t \in cand : t < top} ELSE {}
         cntL  == IF ~inFR \/ sk.cum > ackCum[to] THEN {t \in cand : t < top} ELSE {}
         counts == live /\ sacks # {} /\ ps # NoSnap
         mo    == misc.miss[to]
         mS    == [t \in DOMAIN mo.s \cup cntS |-> Get(mo.s, t, 0) + (IF t \in cntS THEN 1 ELSE 0)]
         mL    == [t \in DOMAIN mo.l \cup cntL |-> Get(mo.l, t, 0) + (IF t \in cntL THEN 1 ELSE 0)]
         third == {t \in cntS : mS[t] = 3 /\ Get(mo.l, t, 0) = 2}
         nmiss == IF ~(live /\ sacks # {}) THEN mo
                  ELSE IF ps = NoSnap \/ ps.infln > 64 THEN [mo EXCEPT !.ok = FALSE]
                  ELSE [mo EXCEPT !.s = mS, !.l = mL]
         nsig  == [line |-> l, to |-> to, set |-> IF counts /\ mo.ok /\ ps.infln <= 64 /\ ~ps.infr THEN third ELSE {}]
     IN
       /\ rcvd' = [rcvd EXCEPT ![to] = IF live THEN @ \cup dataT ELSE @]
       /\ skipTo' = [skipTo EXCEPT ![to] = IF live /\ fwds # {} THEN MaxI(@, MaxF(fwds)) ELSE @]
       /\ ackCum' = [ackCum EXCEPT ![to] = ncum]
       /\ ackGap' = [ackGap EXCEPT ![to] = {t \in ngap : t > ncum}]
       /\ outst' = [outst EXCEPT ![to] = @ - MapThenSumSet(LAMBDA t : ch[to][t].len, newly)]
       /\ arw' = [arw EXCEPT ![to] = IF live /\ sacks # {} THEN (CHOOSE c \in sacks : TRUE).arwnd
                                     ELSE IF live /\ inits # {} THEN (CHOOSE c \in inits : TRUE).arwnd ELSE @]
       \* C19: data handed to an established endpoint must be acknowledged within 200 ms
       /\ misc' = [(IF live /\ dataT # {} /\ sn[to] # NoSnap /\ sn[to].st = "established" /\ misc.ackDue[to] < 0
                   THEN [misc EXCEPT !.ackDue[to] = E.t + 200] ELSE misc)
                  EXCEPT !.abortRx[to] = @ \/ (live /\ HasKind(p, {"abort"})), !.genAtRx = misc.gen, !.nack = [line |-> l, to |-> to, set |-> newly,
                                   hb |-> live /\ ChunksOfKind(p, {"hback"}) # {}], !.miss[to] = nmiss, !.lossSig = nsig]
       /\ viol' = viol \cup AckLate(E.t)
  /\ step' = E
  /\ l' = l + 1
  /\ UNCHANGED <<scen, cfg, msg, order, reads, ch, hi, pkt, lastSack, sackEv, sn, newData, rs, acc>>

(***************************************************************************)
(* Snapshot of an endpoint at quiescence                                   *)
(***************************************************************************)
Established(s) == s.st \in {"established", "shutdownPending", "shutdownReceived", "shutdownSent"}

\* ---- the receiver's reassembly state, recomputed by the specification -----------------------
\* a wire chunk as a Reasm chunk
RChunk(c) == [tsn |-> c.tsn, seq |-> IF c.il THEN c.mid ELSE c.ssn, fi |-> IF c.il THEN c.fsn ELSE c.fi,
              b |-> c.b, e |-> c.e, len |-> c.len, ppi |-> c.ppi, u |-> c.u, il |-> c.il, m |-> c.id]
PrevRcum(e) == IF sn[e] = NoSnap THEN -1 ELSE sn[e].rcum

\* forward-TSN applied to the specification's reassembly states of endpoint e (repaired semantics:
\* every listed stream is purged whether or not the application has created / configured it)
RECURSIVE FwdEntries(_, _, _, _, _)
FwdEntries(R, e, c, i, il) ==
  IF i > Len(c.streams) THEN R
  ELSE LET en == c.streams[i]
           k  == <<e, en[1]>>
           r0 == Get(R, k, ReasmInit)
           r1 == IF il THEN (IF en[2] = 1 THEN ReasmFwdUnorderedMID([r0 EXCEPT !.il = TRUE], en[3])
                                           ELSE ReasmFwdOrdered([r0 EXCEPT !.il = TRUE], en[3]))
                 ELSE ReasmFwdOrdered(r0, en[2])
       IN FwdEntries(Upd(R, k, r1), e, c, i + 1, il)
FwdAll(R, e, c) ==
  LET R1 == FwdEntries(R, e, c, 1, c.k = "ifwd") IN
  IF c.k = "ifwd" THEN R1
  ELSE [k \in DOMAIN R1 |-> IF k[1] = e THEN ReasmFwdUnordered(R1[k], c.cum) ELSE R1[k]]

\* fold over the chunks of the packet handed to e in this step; st = [R, seen]
RECURSIVE RxFold(_, _, _, _, _)
RxFold(st, e, s, chunks, i) ==
  IF i > Len(chunks) THEN st
  ELSE LET c == chunks[i] IN
    IF c.k \in DataKinds /\ "bad" \notin DOMAIN c THEN
      IF c.tsn \notin acc[e] /\ c.tsn \notin st.seen
         /\ (c.tsn \in SeqSet(s.held) \/ (c.tsn <= s.rcum /\ c.tsn > PrevRcum(e)))
      THEN LET k == <<e, c.sid>>
               \* the incoming stream was reset since this reassembly state was started: new incarnation
               fresh == Get(st.G, k, 0) < Get(misc.genAtRx, k, 0)
               r0 == IF fresh THEN ReasmInit ELSE Get(st.R, k, ReasmInit)
           IN RxFold([R |-> Upd(st.R, k, ReasmPush(r0, RChunk(c))[1]), seen |-> st.seen \cup {c.tsn},
                      G |-> IF fresh THEN Upd(st.G, k, misc.genAtRx[k]) ELSE st.G],
                     e, s, chunks, i + 1)
      ELSE RxFold(st, e, s, chunks, i + 1)
    ELSE IF c.k \in {"fwd", "ifwd"} /\ "bad" \notin DOMAIN c /\ c.cum > PrevRcum(e) /\ Established(s)
    THEN RxFold([st EXCEPT !.R = FwdAll(st.R, e, c)], e, s, chunks, i + 1)
    ELSE RxFold(st, e, s, chunks, i + 1)

\* reads that returned while a step was still open (blocked readers woken by the arrival) are applied
\* to the specification's reassembly state after the step's chunks: <<R, violations>>
RECURSIVE ApplyReads(_, _, _, _)
ApplyReads(R, rds, i, vs) ==
  IF i > Len(rds) THEN <<R, vs>>
  ELSE LET e == rds[i]
           k == <<e.ep, e.sid>>
           x == ReasmRead(Get(R, k, ReasmInit), IF e.ok THEN e.len ELSE e.buf)
           specId == IF x[2].kind = "none" THEN 0 ELSE (CHOOSE c \in x[2].S : TRUE).m
           drift == IF e.ok THEN (x[2].kind = "none" \/ specId # e.id)
                    ELSE IF e.err = "short" THEN x[2].kind # "short" \/ x[2].n # e.len ELSE FALSE
       IN ApplyReads(IF e.ok /\ ~drift THEN Upd(R, k, x[1]) ELSE R, rds, i + 1,
                     vs \cup (IF drift THEN {V("C01_ReadNext", <<e.ep, e.sid, e.id, specId, e.err>>)} ELSE {}))

\* streams that were (re-)registered since the previous snapshot start a new incarnation
NewlyRegistered(e, s) == {sid \in SeqSet(s.reg) : sn[e] # NoSnap /\ sid \notin SeqSet(sn[e].reg)}
RxResult(e, s) ==
  LET R0 == [k \in DOMAIN rs |-> IF k[1] = e /\ k[2] \in NewlyRegistered(e, s) THEN ReasmInit ELSE rs[k]]
      live == step.ev = "rx" /\ step.to = e /\ step.ok /\ step.pid \in DOMAIN pkt /\ AcceptCk(pkt[step.pid], e) /\ pkt[step.pid].genuine
      y == IF live THEN RxFold([R |-> R0, seen |-> {}, G |-> misc.rsGen], e, s, pkt[step.pid].chunks, 1) ELSE [R |-> R0, seen |-> {}, G |-> misc.rsGen]
      mine == SelectSeq(misc.pendReads, LAMBDA r : r.ep = e)
      z == ApplyReads(y.R, mine, 1, {})
  IN [R |-> z[1], seen |-> y.seen, G |-> y.G, rv |-> z[2]]

\* ---- sender-side accounting (C15) ----------------------------------------------------------
IncOf(e, sid) == Get(misc.incn, <<e, sid>>, 0)
WrittenBytes(e, sid) == MapThenSumSet(LAMBDA id : msg[id].len,
                          {id \in DOMAIN msg : msg[id].ep = e /\ msg[id].sid = sid /\ msg[id].ok /\ msg[id].inc = IncOf(e, sid)})
ReleasedBytes(e, sid) == MapThenSumSet(LAMBDA t : ch[e][t].len,
                          {t \in DOMAIN ch[e] : ch[e][t].sid = sid /\ (t <= ackCum[e] \/ t \in ackGap[e])
                                                /\ ch[e][t].id \in DOMAIN msg /\ msg[ch[e][t].id].inc = IncOf(e, sid)})
\* association level: "pending plus in-flight user bytes" -- a blocking write that has not returned yet has put
\* nothing into the pending queue (its bytes are counted by the stream only), so only returned writes count
AllWritten(e) == MapThenSumSet(LAMBDA id : msg[id].len, {id \in DOMAIN msg : msg[id].ep = e /\ msg[id].ok /\ msg[id].ev = "write"})
AllReleased(e) == MapThenSumSet(LAMBDA t : ch[e][t].len, {t \in DOMAIN ch[e] : t <= ackCum[e] \/ t \in ackGap[e]})

SnapViol(s, R) ==
  LET e == s.ep
      nd == newData[e]
      \* new user data is sent only within cwnd and the peer's advertised window; probe exception
      \* (a step in which a loss signal cut the window -- T3 expiry or entry into fast recovery -- may have sent the
      \* new data before the cut: several timers can expire at the same virtual instant; the larger window applies)
      cwAdm == IF sn[e] # NoSnap /\ (s.nt3 > sn[e].nt3 \/ (s.infr /\ ~sn[e].infr)) THEN MaxI(sn[e].cwnd, s.cwnd) ELSE s.cwnd
      badWindow == {i \in DOMAIN nd : nd[i].before # 0 /\ ~(nd[i].after <= cwAdm /\ nd[i].after - nd[i].allow <= arw[e])}
      \* the strong completeness check: the step delivered one packet of DATA chunks only
      p  == IF step.ev = "rx" /\ step.pid \in DOMAIN pkt THEN pkt[step.pid] ELSE [kinds |-> <<>>, forged |-> TRUE, genuine |-> FALSE]
      onlyData == step.ev = "rx" /\ step.to = e /\ ~p.forged /\ p.kinds # <<>> /\ \A i \in DOMAIN p.kinds : p.kinds[i] \in DataKinds
      sk == sackEv[e]
      prev == sn[e]
      strs == {s.streams[i] : i \in DOMAIN s.streams}
      regStrs == {x \in strs : x.reg}
      specHeld == MapThenSumSet(LAMBDA x : Get(R, <<e, x.sid>>, ReasmInit).nb, regStrs)
      \* ... and what the application can still read from stream objects an inbound reset has detached
      \* ("user bytes it currently holds for reassembly or unread delivery ... whatever ... stream resets occurred")
      specHeldAll == MapThenSumSet(LAMBDA x : Get(R, <<e, x.sid>>, ReasmInit).nb, {y \in strs : y.reg \/ y.known})
      where == IF specHeldAll # specHeld THEN "detached-unread" ELSE "registered"
      loss == prev # NoSnap /\ (s.nt3 > prev.nt3)
      enterFR == prev # NoSnap /\ s.infr /\ ~prev.infr
      mtu == Cfg(e).mtu
      floorC == MaxI(mtu, Cfg(e).mincwnd)
      half(x) == MaxI(x \div 2, 4 * mtu)
      dataHanded == step.ev = "rx" /\ step.to = e /\ step.ok /\ "ck" \in DOMAIN p /\ p.genuine /\ AcceptCk(p, e)
                    /\ \E i \in DOMAIN p.kinds : p.kinds[i] \in DataKinds
      \* a gap or a duplicate was seen in the packet just handed to e
      dataCs == IF dataHanded THEN {c \in ChunksOfKind(p, DataKinds) : "bad" \notin DOMAIN c} ELSE {}
      sawDup == \E c \in dataCs : c.tsn \in acc[e] \/ c.tsn <= PrevRcum(e)
      sawGap == s.nheld > 0
  IN
    (IF badWindow # {} THEN {V("C10_Window", <<e, nd[MinF(badWindow)].tsn, nd[MinF(badWindow)].after, s.cwnd, arw[e]>>)} ELSE {})
    \cup (IF Established(s) /\ s.cwnd < mtu THEN {V("C10_CwndFloor", <<e, s.cwnd>>)} ELSE {})
    \cup {V("C18_BlockingWriteWaits", <<o[1], o[2], o[3]>>) :
             o \in {q \in misc.bwOwed : q[1] = e /\ ~\E t \in DOMAIN ch[e] : ch[e][t].id = q[3] /\ ch[e][t].e}}
    \* C19: consecutive T3-rtx expiries with no progress of the cumulative ack point in between back off:
    \* each interval is twice the one before, capped at RTO.max (only a SACK acknowledging the earliest
    \* outstanding chunk, or an empty flight, restarts the timer afresh)
    \cup (LET h == misc.t3h[e]
              cap == IF Cfg(e).rtomax > 0 THEN MaxI(Cfg(e).rtomax, 1000) ELSE 60000
          IN IF loss /\ h.t >= 0 /\ h.cum = s.cumack /\ h.n + 1 = s.nt3 /\ h.iv > 0 /\ s.t - h.t < MinI(2 * h.iv, cap)
             THEN {V("C19_T3Backoff", <<e, h.iv, s.t - h.t, s.cumack>>)} ELSE {})
    \cup (IF loss /\ Established(s) /\ (s.cwnd # floorC \/ s.ssthresh # half(prev.cwnd))
          THEN {V("C10_T3Cut", <<e, prev.cwnd, s.cwnd, s.ssthresh>>)} ELSE {})
    \* the SACK that triggers fast recovery may first have advanced the cumulative ack point, which grows cwnd
    \* before the cut is taken (pion's slow start: cwnd += min(bytes acked, cwnd); congestion avoidance: one MTU)
    \cup (IF enterFR /\ ~loss /\ (s.ssthresh < half(prev.cwnd) \/ s.cwnd # s.ssthresh
                                \/ s.ssthresh > half(IF s.cumack > prev.cumack THEN 2 * prev.cwnd ELSE prev.cwnd))
          THEN {V("C10_FastRecoveryCut", <<e, prev.cwnd, s.cwnd, s.ssthresh>>)} ELSE {})
    \* "the congestion window is cut on every loss signal": the packet just handed over gave a chunk its third miss
    \* indication (under either reading of the HTNA rule) while the sender was not in fast recovery: it is now
    \* (the amounts are judged by C10_FastRecoveryCut)
    \cup (IF step.ev = "rx" /\ step.to = e /\ misc.lossSig.to = e /\ misc.lossSig.set # {} /\ prev # NoSnap /\ ~prev.infr
             /\ ~s.infr /\ ~loss /\ Established(s)
          THEN {V("C10_LossSignalCut", <<e, MinF(misc.lossSig.set), prev.cwnd, s.cwnd>>)} ELSE {})
    \cup (IF onlyData /\ sk # <<>> /\ (sk.cum # s.rcum \/ GapTSNs(sk) # SeqSet(s.held))
          THEN {V("C05_CompleteNow", <<e, sk.cum, s.rcum>>)} ELSE {})
    \cup (IF s.nheld > Cfg(e).W THEN {V("C11_Bounded", <<e, s.nheld>>)} ELSE {})
    \* C11: with a zero advertised window only chunks that fill gaps below the highest TSN already received are stored
    \cup (IF prev # NoSnap /\ prev.arwnd = 0 /\ dataHanded
          THEN LET hiRecv == MaxI(prev.rcum, IF prev.held = <<>> THEN prev.rcum ELSE MaxF(SeqSet(prev.held)))
               IN {V("C11_ZeroWindowAccept", <<e, c.tsn, hiRecv>>) :
                     c \in {d \in dataCs : d.tsn > hiRecv /\ d.tsn \notin acc[e] /\ (d.tsn \in SeqSet(s.held) \/ d.tsn <= s.rcum)}}
          ELSE {})
    \cup (IF \E i \in DOMAIN s.held : s.held[i] > s.rcum + Cfg(e).W THEN {V("C11_Window", <<e, s.rcum>>)} ELSE {})
    \cup (IF \E i \in DOMAIN s.held : s.held[i] \notin rcvd[e] THEN {V("C05_HeldReceived", <<e, s.rcum>>)} ELSE {})
    \* C11: the bytes each registered stream holds are exactly what the specification's reassembly holds
    \cup {V("C11_HeldBytes", <<e, x.sid, x.rb, Get(R, <<e, x.sid>>, ReasmInit).nb>>) :
             x \in {y \in regStrs : y.rb # Get(R, <<e, y.sid>>, ReasmInit).nb}}
    \cup (IF onlyData /\ sk # <<>> /\ sk.arwnd # MaxI(0, Cfg(e).buf - specHeldAll)
          THEN {V("C11_Arwnd", <<e, sk.arwnd, Cfg(e).buf, specHeldAll, where>>)} ELSE {})
    \cup (IF Established(s) /\ s.arwnd # MaxI(0, Cfg(e).buf - specHeldAll) THEN {V("C11_ArwndNow", <<e, s.arwnd, Cfg(e).buf, specHeldAll, where>>)} ELSE {})
    \* C07: the receiver's next-expected cursor is where the specification says (forward-TSN skips)
    \cup {V("C07_Cursor", <<e, x.sid, IF Get(R, <<e, x.sid>>, ReasmInit).il THEN x.rmid ELSE x.rssn, Get(R, <<e, x.sid>>, ReasmInit).next>>) :
             x \in {y \in regStrs : <<e, y.sid>> \in DOMAIN R /\ (IF R[<<e, y.sid>>].il THEN y.rmid ELSE y.rssn) # R[<<e, y.sid>>].next}}
    \* C03: the sender's cumulative ack point only moves on genuine acknowledgements
    \cup (IF s.cumack > ackCum[e] /\ s.cumack > misc.fwdMax[e] /\ ~misc.fuzzed THEN {V("C03_NoRelease", <<e, s.cumack, ackCum[e]>>)} ELSE {})
    \* C15: per-stream buffered amount = accepted writes - bytes acknowledged (or skipped and acknowledged)
    \cup {V("C15_StreamExact", <<e, x.sid, x.ba, WrittenBytes(e, x.sid), ReleasedBytes(e, x.sid), IF x.reg THEN "registered" ELSE "unregistered">>) :
             x \in {y \in strs : y.known /\ y.ba # WrittenBytes(e, y.sid) - ReleasedBytes(e, y.sid)}}
    \cup (IF s.abuf # AllWritten(e) - AllReleased(e) /\ s.st # "closed" THEN {V("C15_AssocExact", <<e, s.abuf, AllWritten(e), AllReleased(e)>>)} ELSE {})
    \* C15: one callback per downward crossing of the threshold, none otherwise
    \cup {V("C15_Callback", <<e, x.sid, Get(misc.cbs, <<e, x.sid>>, 0), x.ba>>) :
             x \in {y \in strs : y.known /\ <<e, y.sid>> \in DOMAIN misc.thr /\ prev # NoSnap
                      /\ ~(step.ev = "api" /\ step.op \in {"open", "accept"})
                      /\ <<e, y.sid>> \notin misc.wfail
                      /\ LET py == {z \in {prev.streams[i] : i \in DOMAIN prev.streams} : z.sid = y.sid /\ z.known}
                             th == misc.thr[<<e, y.sid>>]
                             crossed == py # {} /\ (CHOOSE z \in py : TRUE).ba > th /\ y.ba <= th
                         IN Get(misc.cbs, <<e, y.sid>>, 0) # (IF crossed THEN 1 ELSE 0)}}
    \* C04: negotiated features of an established endpoint agree with what both sides enabled, and stay put
    \cup (IF s.st = "established" /\ (s.useil # UseIL \/ s.useifwd # (UseIL /\ ~NoIfwd(Peer(e))) \/ (s.usefwd # ~UseIL))
          THEN {V("C04_Agreement", <<e, s.useil, s.usefwd, s.useifwd, cfg.A.il, cfg.B.il>>)} ELSE {})
    \cup (IF s.sendzc /\ ~ZcAnn(Peer(e)) THEN {V("C04_ZeroChecksumAgreement", <<e, s.sendzc, ZcAnn(Peer(e))>>)} ELSE {})
    \cup (IF s.st = "established" /\ s.sendzc # ZcAnn(Peer(e)) THEN {V("C04_ZeroChecksumUsed", <<e, s.sendzc, ZcAnn(Peer(e))>>)} ELSE {})
    \cup (IF s.recvzc # Cfg(e).zc THEN {V("C04_ZeroChecksumAccept", <<e, s.recvzc>>)} ELSE {})
    \cup (IF prev # NoSnap /\ prev.st = "established" /\ s.st \notin {"established"} /\ ~misc.teardown
          THEN {V("C04_Stable", <<e, prev.st, s.st, step.ev>>)} ELSE {})
    \cup (IF prev # NoSnap /\ prev.st = "established" /\ s.st = "established" /\ (s.useil # prev.useil \/ s.sendzc # prev.sendzc)
          THEN {V("C04_Stable", <<e, "negotiated-changed", step.ev>>)} ELSE {})
    \cup (IF prev # NoSnap /\ prev.st = "established" /\ s.st = "established" /\ s.rcum < prev.rcum
          THEN {V("C04_Stable", <<e, "receiver-cum-moved-back", prev.rcum, s.rcum>>)} ELSE {})
    \* C19: the RTO stays within [RTO.min, RTO.max] and is recomputed only from a round-trip sample of a
    \* chunk that was transmitted exactly once (Karn) or from a heartbeat acknowledgement
    \cup (IF s.rto < 1000 \/ s.rto > (IF Cfg(e).rtomax > 0 THEN MaxI(Cfg(e).rtomax, 1000) ELSE 60000)
          THEN {V("C19_RtoBounds", <<e, s.rto>>)} ELSE {})
    \cup (IF prev # NoSnap /\ (s.srtt # prev.srtt \/ s.rto # prev.rto)
             /\ ~(step.ev = "rx" /\ step.to = e /\ misc.nack.to = e
                  /\ (misc.nack.hb \/ \E t \in misc.nack.set : ch[e][t].ntx = 1))
          THEN {V("C19_KarnSample", <<e, prev.srtt, s.srtt, step.ev, prev.rto, s.rto>>)} ELSE {})
    \* C19: a gap or a duplicate is acknowledged at once
    \cup (IF dataHanded /\ Established(s) /\ s.st = "established" /\ (sawDup \/ sawGap) /\ sk = <<>>
          THEN {V("C19_AckImmediate", <<e, IF sawDup THEN "duplicate" ELSE "gap", s.rcum>>)} ELSE {})

\* C03: what an endpoint must do with an invalid / misplaced packet of a given class (association.go
\* handlers): "ignore" = no state change and no reply; "abort" = answered with ABORT (protocol violation)
AdvIgnore == {"sack-cum-beyond-sent", "sack-cum-far-beyond", "sack-cum-behind", "sack-gap-start-zero", "sack-gap-reversed",
              "sack-gap-beyond-inflight", "sack-gap-65535", "sack-gaps-unsorted-overlap", "sack-gaps-first-beyond", "sack-gaps-middle-beyond",
              "unknown-00-len0", "unknown-00-len3", "unknown-01-len0", "unknown-01-len3", "unknown-10-len0", "unknown-10-len3", "unknown-10-beyond",
              "unknown-11-len0", "unknown-11-len3", "unknown-11-beyond",
              "fwd-odd-length", "data-header-truncated", "unknown-chunk-type", "unknown-chunk-report-bit",
              "init-bundled", "init-zero-streams", "cookie-ack", "shutdown-complete",
              "error-cause-bad-length", "reconfig-response-unknown", "reconfig-unknown-param", "reconfig-empty",
              "chunk-len-zero", "chunk-len-beyond", "sack-truncated", "port-zero", "only-header", "short-garbage"}
AdvAbort == {"data-wrong-kind", "data-wrong-kind-dup-tsn", "data-wrong-kind-beyond-window", "fwd-wrong-variant"}
AdvViol(e, changed) ==
  LET isRx == step.ev = "rx" /\ step.to = e /\ step.ok /\ step.pid \in DOMAIN pkt /\ pkt[step.pid].forged /\ ~pkt[step.pid].genuine
      p == pkt[step.pid]
      est == sn[e] # NoSnap /\ sn[e].st = "established"
  IN IF ~isRx THEN {}
     ELSE IF p.class = "mutated"
     THEN (IF p.malformed /\ (changed \/ misc.txn[e] > 0)
           THEN {V("C03_MalformedIgnored", <<e, p.kinds, IF changed THEN "state-changed" ELSE "replied">>)} ELSE {})
     ELSE (IF p.class \in AdvIgnore /\ est /\ (changed \/ misc.txn[e] > 0)
           THEN {V("C03_InvalidIgnored", <<e, p.class, IF changed THEN "state-changed" ELSE "replied">>)} ELSE {})
          \cup (IF p.class \in AdvAbort /\ est /\ ~misc.abortSeen[e]
                THEN {V("C17_WrongKindAbort", <<e, p.class>>)} ELSE {})

\* C13: a packet the checksum rule rejects has no effect at all; an accepted DATA packet has one
CkViol(e, changed) ==
  LET isRx == step.ev = "rx" /\ step.to = e /\ step.ok /\ step.pid \in DOMAIN pkt
      p == pkt[step.pid]
      effect == changed \/ misc.txn[e] > 0
  IN IF ~isRx THEN {}
     ELSE (IF ~AcceptCk(p, e) /\ effect THEN {V("C13_RejectedHasNoEffect", <<e, p.ck, p.kinds, IF changed THEN "state-changed" ELSE "replied">>)} ELSE {})
          \cup (IF AcceptCk(p, e) /\ p.genuine /\ ~effect /\ sn[e] # NoSnap /\ sn[e].st = "established"
                   /\ \E i \in DOMAIN p.kinds : p.kinds[i] \in DataKinds
                THEN {V("C13_AcceptedHasEffect", <<e, p.ck, p.kinds>>)} ELSE {})

SnapStep(s, changed) ==
  LET e == s.ep
      x == RxResult(e, s)
  IN
  /\ rs' = x.R
  /\ acc' = [acc EXCEPT ![e] = @ \cup x.seen]
  /\ newData' = [newData EXCEPT ![e] = <<>>]
  /\ sackEv' = [sackEv EXCEPT ![e] = <<>>]
  /\ misc' = [misc EXCEPT !.cbs = [k \in DOMAIN @ |-> IF k[1] = e THEN 0 ELSE @[k]], !.txn[e] = 0, !.abortSeen[e] = FALSE, !.rsGen = x.G, !.wfail = {k \in @ : k[1] # e}, !.bwOwed = {q \in @ : q[1] # e},
                           !.t3h[e] = IF sn[e] # NoSnap /\ s.nt3 > sn[e].nt3
                                      THEN [t |-> s.t, cum |-> s.cumack, n |-> s.nt3,
                                            iv |-> IF @.t >= 0 /\ @.cum = s.cumack /\ @.n + 1 = s.nt3 THEN s.t - @.t ELSE 0]
                                      ELSE @,
                           !.pendReads = SelectSeq(@, LAMBDA r : r.ep # e)]
  /\ viol' = viol \cup SnapViol(s, x.R) \cup AckLate(s.t) \cup CkViol(e, changed) \cup AdvViol(e, changed) \cup x.rv

TrSnap ==
  /\ IsEv("snap")
  /\ sn' = [sn EXCEPT ![E.ep] = E]
  /\ SnapStep(E, sn[E.ep] # NoSnap)
  /\ l' = l + 1
  /\ UNCHANGED <<scen, cfg, msg, order, reads, ch, hi, pkt, rcvd, skipTo, ackCum, ackGap, arw, outst, lastSack, step>>

\* "same": the endpoint's projection at this quiescent point equals its previous snapshot
TrSame ==
  /\ IsEv("same") /\ sn[E.ep] # NoSnap
  /\ SnapStep([sn[E.ep] EXCEPT !.t = E.t], FALSE)
  /\ l' = l + 1
  /\ UNCHANGED <<scen, cfg, msg, order, reads, ch, hi, pkt, rcvd, skipTo, ackCum, ackGap, arw, outst, lastSack, sn, step>>

(***************************************************************************)
(* Scenario end: print the violations                                      *)
(***************************************************************************)
\* After a packet that did not come from the peer (adversary classes, mutated copies) was handed to an endpoint, the
\* monitors that compare the implementation with the specification's own model of the GENUINE exchange (what the
\* receiver must hold, what the sender has outstanding, owed acknowledgements, RTT samples, negotiated state) have lost
\* their premise; such scenarios are judged by the C03 / delivery monitors. The others are not reported for them.
ForgedNoise == {"C05_CompleteNow", "C05_HeldReceived", "C05_Monotone", "C05_CumSound", "C05_GapSound", "C05_DupSound", "C05_Complete",
                "C11_HeldBytes", "C11_Arwnd", "C11_ArwndNow", "C11_FullWindowWhenRead", "C07_Cursor", "C15_StreamExact", "C15_AssocExact",
                "C15_Callback", "C19_KarnSample", "C19_AckDelay", "C04_Agreement", "C02_BufferedZero", "C02_AssocBufferedZero", "C10_Window"}
Keep(S) == IF misc.forged THEN {v \in S : v.mon \notin ForgedNoise} ELSE S

EndViol(e) ==
  (IF ~e.clean THEN {V("C09_NoLeak", <<e.leaks, IF "stacks" \in DOMAIN e THEN e.stacks[1] ELSE "">>)} ELSE {})
  \cup {V("C09_CallsReturn", <<misc.calls[c].ep, misc.calls[c].op>>) : c \in DOMAIN misc.calls}
  \* after teardown (Close returned / the transport was closed and 2 s passed) no timer of the association is armed
  \cup (IF "timers" \in DOMAIN e THEN {V("C09_TimersStopped", <<e.timers[i]>>) : i \in DOMAIN e.timers} ELSE {})

TrEnd ==
  /\ IsEv("end")
  /\ LET vs == Keep(viol \cup EndViol(E)) IN
       /\ PrintT(<<"VFSCEN", scen, Cardinality(vs), l>>)
       /\ \A v \in vs : PrintT(<<"VFVIOL", ToJson(v)>>)
       /\ viol' = {}
  /\ l' = l + 1
  /\ UNCHANGED <<scen, cfg, msg, order, reads, ch, hi, pkt, rcvd, skipTo, ackCum, ackGap, arw, outst, lastSack, sackEv, sn, step, newData, misc, rs, acc>>

\* the real-time watchdog of the driver certified (two identical stack samples, every goroutine of the
\* simulation blocked, one of them on a lock) that the scenario cannot make progress any more: the real code
\* is deadlocked (C09: nothing can be torn down any more; C20: no deadlocks). Terminates the scenario.
TrDeadlock ==
  /\ IsEv("deadlock")
  /\ LET vs == Keep(viol \cup {V("C09_Deadlock", <<E.name, E.stacks>>)}) IN
       /\ PrintT(<<"VFSCEN", scen, Cardinality(vs), l>>)
       /\ \A v \in vs : PrintT(<<"VFVIOL", ToJson(v)>>)
       /\ viol' = {}
  /\ l' = l + 1
  /\ UNCHANGED <<scen, cfg, msg, order, reads, ch, hi, pkt, rcvd, skipTo, ackCum, ackGap, arw, outst, lastSack, sackEv, sn, step, newData, misc, rs, acc>>

\* testing/synctest reported, after the scenario function had returned, that goroutines of the bubble were still
\* blocked for good (a call or background goroutine that never terminates): logged after the scenario's `end`
TrBubbleLeak ==
  /\ IsEv("bubbleleak")
  /\ PrintT(<<"VFSCEN", scen, 1, l>>)
  /\ PrintT(<<"VFVIOL", ToJson(V("C09_NoLeak", <<"blocked goroutines remain at bubble exit", E.name>>))>>)
  /\ l' = l + 1
  /\ UNCHANGED <<scen, cfg, msg, order, reads, ch, hi, pkt, rcvd, skipTo, ackCum, ackGap, arw, outst, lastSack, sackEv, sn, step, newData, misc, rs, acc, viol>>

(***************************************************************************)
(* Events that only open a step or carry information used by other specs   *)
(***************************************************************************)
\* connect call returned: success only for an established association (checked at the next snapshot
\* through C04_Agreement / here against the projection when one exists)
ApiViol(x) ==
  (IF x.op = "shutdown-ret" /\ x.ok
   THEN LET e == x.ep
            unacked == {t \in DOMAIN ch[e] : ~(t <= ackCum[e] \/ t \in ackGap[e])}
            unsent == {id \in DOMAIN msg : msg[id].ep = e /\ msg[id].ok /\ msg[id].len > 0 /\ ~\E t \in DOMAIN ch[e] : ch[e][t].id = id}
        IN (IF unacked # {} THEN {V("C08_ReturnedBeforeAcked", <<e, MinF(unacked)>>)} ELSE {})
           \cup (IF unsent # {} THEN {V("C08_ReturnedBeforeSent", <<e, CHOOSE id \in unsent : TRUE>>)} ELSE {})
   ELSE {}) \cup
  IF x.op = "connect-ret" /\ x.ok /\ sn[x.ep] # NoSnap /\ sn[x.ep].st \notin {"established", "cookieEchoed", "cookieWait", "closed"}
  THEN {V("C04_ConnectOk", <<x.ep, sn[x.ep].st>>)} ELSE {}

TrApi ==
  /\ IsEv("api")
  /\ misc' = CASE E.op = "threshold" -> [misc EXCEPT !.thr = Upd(@, <<E.ep, E.sid>>, E.val), !.cbs = Upd(@, <<E.ep, E.sid>>, 0)]
               [] E.op \in {"open", "accept"} /\ E.ok -> [misc EXCEPT !.incn = Upd(@, <<E.ep, E.sid>>, Get(@, <<E.ep, E.sid>>, 0) + 1),
                                                              \* reads of the new stream object start here (an EOF read belongs to the old one)
                                                              !.rdBase = Upd(@, <<E.ep, E.sid>>, Len(Get(reads, <<E.ep, E.sid>>, <<>>)))]
               [] E.op \in {"shutdown-call", "close-call", "abort-call", "connfail"} ->
                    [misc EXCEPT !.teardown = TRUE, !.shutAt = IF E.op = "shutdown-call" THEN Upd(@, E.ep, l) ELSE @]
               [] E.op = "shutdown-ret" -> [misc EXCEPT !.shutRet = Upd(@, E.ep, E.ok)]
               [] E.op = "heartbeat" -> [misc EXCEPT !.hbCalls = Append(@, [ep |-> E.ep, srtt |-> IF sn[E.ep] = NoSnap THEN 0 ELSE sn[E.ep].srtt, line |-> l])]
               [] E.op = "setwritedeadline" -> [misc EXCEPT !.wdl = Upd(@, <<E.ep, E.sid>>, E.at)]
               [] E.op = "setreaddeadline" -> [misc EXCEPT !.rdl = Upd(@, <<E.ep, E.sid>>, E.at)]
               [] E.op = "read-call" -> [misc EXCEPT !.rdOut = Upd(@, <<E.ep, E.sid>>, Get(@, <<E.ep, E.sid>>, 0) + 1)]
               [] E.op = "closestream" /\ E.ok -> [misc EXCEPT !.closedInc = Upd(@, <<E.ep, E.sid>>, Get(misc.incn, <<E.ep, E.sid>>, 0))]
               [] OTHER -> misc
  /\ viol' = viol \cup AckLate(E.t) \cup ApiViol(E)
              \* C08: while the association still lives (the read loop runs: it may be shutting down) a stream that the peer
              \* opened and that waits to be accepted is handed out -- closure is not reported ahead of its unread messages
              \cup (IF E.op = "accept" /\ ~E.ok THEN {V("C08_AcceptBeforeClosure", <<E.ep, E.err, IF sn[E.ep] = NoSnap THEN "?" ELSE sn[E.ep].st>>)} ELSE {})
  /\ step' = (IF E.op \in {"shutdown-ret", "connect-ret", "close-ret", "abort-ret", "connect-call"} THEN step ELSE E)
  /\ l' = l + 1
  /\ UNCHANGED <<scen, cfg, msg, order, reads, ch, hi, pkt, rcvd, skipTo, ackCum, ackGap, arw, outst, lastSack, sackEv, sn, newData, rs, acc>>

\* outcome predicted by the Handshake model for the replayed schedule
TrHsFinal ==
  /\ IsEv("hsfinal")
  /\ viol' = viol
       \* the real code left the schedule the model predicted: reported as drift (no verdict); the run was
       \* continued over a loss-free network, so the property's own outcome must still hold
       \cup (IF E.diverged # "" THEN {V("DRIFT_HandshakeReplay", <<E.diverged>>)} ELSE {})
       \cup (IF E.diverged # "" /\ E.mret = <<"ok", "ok">> /\ E.ret # <<"ok", "ok">> THEN {V("C04_EstablishedUnderFaults", <<E.ret, E.diverged>>)} ELSE {})
       \cup (IF E.diverged = "" /\ E.ret # E.mret THEN {V("C04_ConnectResult", <<E.ret, E.mret>>)} ELSE {})
       \cup UNION {IF E.diverged = "" /\ sn[e] # NoSnap /\ sn[e].st # E.mst[e + 1] THEN {V("C04_FinalState", <<e, sn[e].st, E.mst[e + 1]>>)} ELSE {} : e \in EP}
       \cup UNION {IF E.diverged = "" /\ sn[e] # NoSnap /\ E.mst[e + 1] = "established" /\ (sn[e].useil # E.museil[e + 1] \/ sn[e].sendzc # E.msendz[e + 1])
                   THEN {V("C04_NegotiatedAsModel", <<e, sn[e].useil, sn[e].sendzc>>)} ELSE {} : e \in EP}
  /\ l' = l + 1
  /\ UNCHANGED <<scen, cfg, msg, order, reads, ch, hi, pkt, rcvd, skipTo, ackCum, ackGap, arw, outst, lastSack, sackEv, sn, step, newData, misc, rs, acc>>

\* special handshake scenarios: a client whose peer never answers gets an error exactly when the
\* retry budget is exhausted; a waiting server returns as soon as its transport is closed
TrHsSpecial ==
  /\ IsEv("hsspecial")
  /\ viol' = viol
       \cup (IF ~E.returned THEN {V("C04_ConnectReturns", <<E.what, E.t>>)} ELSE {})
       \cup (IF E.returned /\ E.err = "nil" THEN {V("C04_ConnectFails", <<E.what, E.err>>)} ELSE {})
       \cup (IF E.returned /\ E.t # E.expect_t THEN {V("C04_ConnectBoundedTime", <<E.what, E.t, E.expect_t>>)} ELSE {})
  /\ l' = l + 1
  /\ UNCHANGED <<scen, cfg, msg, order, reads, ch, hi, pkt, rcvd, skipTo, ackCum, ackGap, arw, outst, lastSack, sackEv, sn, step, newData, misc, rs, acc>>

TrCb ==
  /\ IsEv("cb")
  /\ misc' = [misc EXCEPT !.cbs = Upd(@, <<E.ep, E.sid>>, Get(@, <<E.ep, E.sid>>, 0) + 1)]
  /\ l' = l + 1
  /\ UNCHANGED <<scen, cfg, msg, order, reads, ch, hi, pkt, rcvd, skipTo, ackCum, ackGap, arw, outst, lastSack, sackEv, sn, step, newData, rs, acc, viol>>

\* the driver lets virtual time pass
\* C18: a read that is blocked when its stream's read deadline passes returns at the deadline
ReadOverdue(t) == {V("C18_ReadDeadlineReturns", <<k[1], k[2], misc.rdl[k], t>>) :
                     k \in {q \in DOMAIN misc.rdOut : misc.rdOut[q] > 0 /\ Get(misc.rdl, q, 0) > 0 /\ t > misc.rdl[q]}}
\* C19: "data and shutdown packets are retransmitted for as long as the association lives": an endpoint that sits in
\* SHUTDOWN-SENT / SHUTDOWN-ACK-SENT has put its SHUTDOWN / SHUTDOWN-ACK on the wire within the last RTO.max (T2-shutdown
\* backs off up to RTO.max and has no retry limit); 1 s of slack for the step in which the timer fires
ShutQuiet(t) == {V("C19_ShutdownRetransmitted", <<e, sn[e].st, misc.shutTx[e], t>>) :
                   e \in {x \in EP : sn[x] # NoSnap /\ sn[x].st \in {"shutdownSent", "shutdownAckSent"} /\ ~misc.dead[x] /\ misc.shutTx[x] >= 0
                                    /\ t - misc.shutTx[x] > (IF Cfg(x).rtomax > 0 THEN MaxI(Cfg(x).rtomax, 1000) ELSE 60000) + 1000}}
TrTick ==
  /\ IsEv("tick")
  /\ viol' = viol \cup AckLate(E.t) \cup ReadOverdue(E.t) \cup ShutQuiet(E.t)
  /\ step' = E
  /\ l' = l + 1
  /\ UNCHANGED <<scen, cfg, msg, order, reads, ch, hi, pkt, rcvd, skipTo, ackCum, ackGap, arw, outst, lastSack, sackEv, sn, newData, misc, rs, acc>>

\* "expect": the scenario healed the network, let D = 3*RTO.max + 2 s of virtual time pass while the
\* application kept reading, and read everything readable: C02 / C07 final obligations
Abandoned(id) == \E e \in EP : \E t \in DOMAIN ch[e] : ch[e][t].id = id /\ t <= misc.fwdMax[e]
DeliveredIds == UNION {{reads[k][i].id : i \in {j \in DOMAIN reads[k] : reads[k][j].ok}} : k \in DOMAIN reads}
ExpectViol(x) ==
  LET undel == {id \in DOMAIN msg : msg[id].ok /\ msg[id].len > 0 /\ id \notin DeliveredIds}
      relMissing == {id \in undel : msg[id].rtype = 0 \/ msg[id].ppi = 50}
      prMissing == {id \in undel \ relMissing : ~Abandoned(id)}
  IN
    {V("C02_Delivered", <<msg[id].ep, msg[id].sid, id, msg[id].len>>) : id \in relMissing}
    \cup {V("C07_LaterDelivered", <<msg[id].ep, msg[id].sid, id, msg[id].len>>) : id \in prMissing}
    \cup UNION {{V("C02_BufferedZero", <<e, y.sid, y.ba, IF y.reg THEN "registered" ELSE "unregistered">>) : y \in {z \in {sn[e].streams[i] : i \in DOMAIN sn[e].streams} : z.known /\ z.ba # 0}}
                : e \in {q \in EP : sn[q] # NoSnap}}
    \* C19: every on-demand heartbeat went out with its info, was answered, and produced an RTT sample
    \cup UNION {LET c == misc.hbCalls[i]
                    sent == \E h \in misc.hbSeen : h[1] = "hb" /\ h[2] = c.ep /\ h[3] /\ h[4] > c.line
                    answered == \E h \in misc.hbSeen : h[1] = "hback" /\ h[2] = Peer(c.ep) /\ h[3] /\ h[4] > c.line
                    sampled == sn[c.ep] # NoSnap /\ sn[c.ep].srtt > 0
                IN IF sent /\ answered /\ sampled THEN {}
                   ELSE {V("C19_HeartbeatAnswered", <<c.ep, IF ~sent THEN "not-sent-with-info" ELSE IF ~answered THEN "not-answered" ELSE "no-rtt-sample">>)}
               : i \in DOMAIN misc.hbCalls}
    \cup {V("C14_EofDelivered", <<k[1], k[2]>>) :
             k \in {q \in DOMAIN misc.closedInc : "reset" \in DOMAIN x /\ Get(misc.incn, <<Peer(q[1]), q[2]>>, 0) > 0 /\ ~\E i \in DOMAIN Get(reads, <<Peer(q[1]), q[2]>>, <<>>) :
                                                       reads[<<Peer(q[1]), q[2]>>][i].err = "eof"}}
    \cup {V("C02_AssocBufferedZero", <<e, sn[e].abuf>>) : e \in {q \in EP : sn[q] # NoSnap /\ sn[q].abuf # 0 /\ sn[q].st = "established"}}
    \* once everything was delivered (or skipped) and read, the advertised window is the whole buffer again
    \cup {V("C11_FullWindowWhenRead", <<e, sn[e].arwnd, Cfg(e).buf>>) :
             e \in {q \in EP : relMissing = {} /\ prMissing = {} /\ sn[q] # NoSnap /\ sn[q].st = "established" /\ sn[q].arwnd # Cfg(q).buf}}

TrExpect ==
  /\ IsEv("expect")
  /\ viol' = viol \cup ExpectViol(E)
  /\ step' = E
  /\ l' = l + 1
  /\ UNCHANGED <<scen, cfg, msg, order, reads, ch, hi, pkt, rcvd, skipTo, ackCum, ackGap, arw, outst, lastSack, sackEv, sn, newData, misc, rs, acc>>

\* "diff": the harness compared the base-independent projection of this schedule run at another pair
\* of initial TSNs with the reference run (C16: wrap-around is invisible)
TrDiff ==
  /\ IsEv("diff")
  /\ viol' = viol \cup (IF ~E.equal THEN {V("C16_ShiftInvariant", <<E.label, E.idx, E.a, E.b>>)} ELSE {})
  /\ l' = l + 1
  /\ UNCHANGED <<scen, cfg, msg, order, reads, ch, hi, pkt, rcvd, skipTo, ackCum, ackGap, arw, outst, lastSack, sackEv, sn, step, newData, misc, rs, acc>>

\* end of a shutdown scenario: both endpoints closed, the calls returned, everything that was accepted
\* before the call was read by the peer
TrShutEnd ==
  /\ IsEv("shutend")
  /\ LET callers == DOMAIN misc.shutAt
         undel == {id \in DOMAIN msg : msg[id].ok /\ msg[id].len > 0 /\ id \notin DeliveredIds
                                        /\ (msg[id].rtype = 0 \/ msg[id].ppi = 50)}
         \* messages of an endpoint whose Shutdown returned nil and that were written before the call
         owed == {id \in undel : msg[id].ep \in DOMAIN misc.shutRet /\ misc.shutRet[msg[id].ep]
                                  /\ msg[id].callLine < misc.shutAt[msg[id].ep]}
     IN viol' = viol
          \cup {V("C08_BothClosed", <<e, sn[e].st>>) : e \in {q \in EP : sn[q] # NoSnap /\ sn[q].st # "closed"}}
          \cup {V("C08_ShutdownReturns", <<e>>) : e \in {q \in callers : q \notin DOMAIN misc.shutRet}}
          \cup {V("C08_DeliveredBeforeReturn", <<msg[id].ep, msg[id].sid, id>>) : id \in owed}
  /\ l' = l + 1
  /\ UNCHANGED <<scen, cfg, msg, order, reads, ch, hi, pkt, rcvd, skipTo, ackCum, ackGap, arw, outst, lastSack, sackEv, sn, step, newData, misc, rs, acc>>

\* end of an adversary scenario: an ignorable packet must not have cost the association its life
TrAdvEnd ==
  /\ IsEv("advend")
  /\ viol' = viol \cup (IF E.class \in AdvIgnore /\ E.sit \in {"idle", "inflight", "gap", "closing-stream"}
                            /\ (E.st[1] # "established" \/ E.st[2] # "established")
                         THEN {V("C03_InvalidIgnored", <<E.to, E.class, "association-lost", E.st>>)} ELSE {})
  /\ l' = l + 1
  /\ UNCHANGED <<scen, cfg, msg, order, reads, ch, hi, pkt, rcvd, skipTo, ackCum, ackGap, arw, outst, lastSack, sackEv, sn, step, newData, misc, rs, acc>>

(***************************************************************************)
(* Lifecycle (C09): parked callers, injected Close / Abort / transport     *)
(* failures, observation points                                            *)
(***************************************************************************)
TrCall ==
  /\ IsEv("call")
  /\ misc' = [misc EXCEPT !.calls = Upd(@, E.cid, E)]
  /\ l' = l + 1
  /\ UNCHANGED <<scen, cfg, msg, order, reads, ch, hi, pkt, rcvd, skipTo, ackCum, ackGap, arw, outst, lastSack, sackEv, sn, step, newData, rs, acc, viol>>
\* bound for "promptly": the abort flush (2 x 200 ms) plus slack; everything else returns at once
PromptBound == 1000
TrRet ==
  /\ IsEv("ret")
  /\ misc' = [misc EXCEPT !.calls = [c \in DOMAIN @ \ {E.cid} |-> @[c]]]
  /\ LET lastInj == IF E.ep \in DOMAIN misc.inj THEN misc.inj[E.ep] ELSE [t |-> -1, kind |-> "none"]
         \* a call made after the injection (the re-polling readers) is measured from its own start
         from == MaxI(lastInj.t, IF E.cid \in DOMAIN misc.calls THEN misc.calls[E.cid].t ELSE -1)
     IN viol' = viol
          \cup (IF lastInj.t >= 0 /\ E.t > from + PromptBound THEN {V("C09_Prompt", <<E.ep, E.op, E.t - from, lastInj.kind>>)} ELSE {})
          \cup (IF E.op = "read" /\ misc.abortRx[E.ep] /\ ~E.reason THEN {V("C09_AbortCause", <<E.ep, E.op, E.err>>)} ELSE {})
          \cup (IF E.op \in {"read", "accept", "pollread"} /\ lastInj.t >= 0 /\ E.ok THEN {V("C09_ErrorAfterTeardown", <<E.ep, E.op>>)} ELSE {})
  /\ l' = l + 1
  /\ UNCHANGED <<scen, cfg, msg, order, reads, ch, hi, pkt, rcvd, skipTo, ackCum, ackGap, arw, outst, lastSack, sackEv, sn, step, newData, rs, acc>>
TrInject ==
  /\ IsEv("inject")
  /\ misc' = [misc EXCEPT !.inj = Upd(@, E.ep, IF E.kind = "repoll" /\ E.ep \in DOMAIN @ THEN @[E.ep] ELSE E), !.teardown = TRUE]
  /\ step' = E
  /\ l' = l + 1
  /\ UNCHANGED <<scen, cfg, msg, order, reads, ch, hi, pkt, rcvd, skipTo, ackCum, ackGap, arw, outst, lastSack, sackEv, sn, newData, rs, acc, viol>>
\* observation point: after Close / Abort returned and the system was quiescent once, that endpoint is
\* dead -- any later write attempt is a violation (TrTx / txfail)
TrCrashObs ==
  /\ IsEv("crashobs")
  \* "terminates it cleanly": an association that was closed or aborted has closed the transport it was given
  /\ viol' = viol \cup {V("C09_TransportClosed", <<e, misc.inj[e].kind>>) :
                          e \in {x \in DOMAIN misc.inj : E.phase = 1 /\ misc.inj[x].kind \in {"close", "abort"} /\ ~misc.connClosed[x] /\ sn[x] # NoSnap}}
  /\ misc' = [misc EXCEPT !.dead = [e \in EP |-> @[e] \/ (e \in DOMAIN misc.inj /\ (E.phase = 2 \/ misc.inj[e].kind \in {"close", "abort"}))]]
  /\ l' = l + 1
  /\ UNCHANGED <<scen, cfg, msg, order, reads, ch, hi, pkt, rcvd, skipTo, ackCum, ackGap, arw, outst, lastSack, sackEv, sn, step, newData, rs, acc>>
TrTxFail ==
  /\ IsEv("txfail")
  /\ viol' = viol \cup (IF misc.dead[E.ep] THEN {V("C09_NoWriteAfterClose", <<E.ep, "attempt", E.why>>)} ELSE {})
  /\ l' = l + 1
  /\ UNCHANGED <<scen, cfg, msg, order, reads, ch, hi, pkt, rcvd, skipTo, ackCum, ackGap, arw, outst, lastSack, sackEv, sn, step, newData, misc, rs, acc>>

\* end of a concurrency storm (C20): after a graceful two-sided shutdown everything that was accepted was read
TrStormEnd ==
  /\ IsEv("stormend")
  /\ LET undel == {id \in DOMAIN msg : msg[id].ok /\ msg[id].len > 0 /\ id \notin DeliveredIds}
     IN viol' = viol \cup (IF E.ending = "shutdown" THEN {V("C20_GracefulDelivery", <<msg[id].ep, msg[id].sid, id>>) : id \in undel} ELSE {})
  /\ l' = l + 1
  /\ UNCHANGED <<scen, cfg, msg, order, reads, ch, hi, pkt, rcvd, skipTo, ackCum, ackGap, arw, outst, lastSack, sackEv, sn, step, newData, misc, rs, acc>>

Passive == {"drop", "connclose", "note"}
TrPassive ==
  /\ l <= Len(Trace) /\ Trace[l].ev \in Passive
  /\ step' = E
  /\ misc' = IF E.ev = "connclose" THEN [misc EXCEPT !.connClosed[E.ep] = TRUE] ELSE misc
  /\ l' = l + 1
  /\ UNCHANGED <<scen, cfg, msg, order, reads, ch, hi, pkt, rcvd, skipTo, ackCum, ackGap, arw, outst, lastSack, sackEv, sn, newData, rs, acc, viol>>

Next == TrCfg \/ TrWCall \/ TrWrite \/ TrRead \/ TrTx \/ TrForge \/ TrChunkData \/ TrChunkSack \/ TrChunkFwd \/ TrChunkShutdown \/ TrChunkReconfig \/ TrChunkHb \/ TrChunkOther
        \/ TrRx \/ TrSnap \/ TrSame \/ TrEnd \/ TrApi \/ TrCb \/ TrTick \/ TrExpect \/ TrDiff \/ TrHsFinal \/ TrHsSpecial \/ TrShutEnd \/ TrAdvEnd \/ TrCall \/ TrRet \/ TrInject \/ TrCrashObs \/ TrTxFail \/ TrStormEnd \/ TrPassive \/ TrDeadlock \/ TrBubbleLeak

Spec == Init /\ [][Next]_vars

HighWater == TLCSet(1, MaxI(TLCGet(1), l))
Accepted == TLCGet(1) = Len(Trace) + 1
=============================================================================
