------------------------------ MODULE ObsTrace ------------------------------
(***************************************************************************)
(* Observable-level trace specification for pion/sctp associations.        *)
(*                                                                         *)
(* Input: an NDJSON trace recorded by the harness (/verif/harness) from    *)
(* two REAL associations running in a synctest bubble over a driver-owned  *)
(* network.  One line = one event.  Every event is consumed by exactly one *)
(* action below; the actions rebuild, from observable events only (API     *)
(* calls and results, packets decoded by the harness's own decoder,        *)
(* driver decisions, and a few projected quantities the properties name),  *)
(* the history the properties talk about, and evaluate the property        *)
(* monitors in every step.  A failed monitor does not stop TLC: it is      *)
(* recorded in `viol` with a structured witness and printed when the       *)
(* scenario ends, so that one run reports every violation (needed to keep  *)
(* known findings from masking new ones).                                  *)
(*                                                                         *)
(* The trace is linear (no silent steps): acceptance = TLC reaches line    *)
(* Len(Trace)+1.  A step no action can take is a machinery failure.        *)
(***************************************************************************)
EXTENDS Integers, Sequences, FiniteSets, TLC, Json, IOUtils, SequencesExt, FiniteSetsExt, Functions

Trace == ndJsonDeserialize(IOEnv.VF_TRACE)

VARIABLES
  l,        \* next trace line
  scen,     \* label of the current scenario
  cfg,      \* the scenario's "cfg" record
  msg,      \* message id -> its write event (accepted or not)
  order,    \* <<ep,sid>> -> Seq(id): accepted non-empty writes, in return order
  reads,    \* <<ep,sid>> -> Seq(read event)
  ch,       \* ep -> [tsn -> chunk record + transmission counters]
  hi,       \* ep -> highest TSN put on the wire so far (-1 initially)
  pkt,      \* pid -> [ep, ck, forged, t, chunks]
  rcvd,     \* ep -> set of peer TSNs handed to ep in DATA/I-DATA chunks
  skipTo,   \* ep -> highest new cumulative TSN of a FORWARD-TSN handed to ep (-1)
  ackCum,   \* ep -> highest cumulative ack handed to ep (as a sender) (-1)
  ackGap,   \* ep -> TSNs above ackCum gap-acked towards ep
  arw,      \* ep -> last advertised receiver window handed to ep
  outst,    \* ep -> recomputed outstanding (unacknowledged) user bytes
  lastSack, \* ep -> cumulative TSN of the last SACK ep emitted (-1)
  sackEv,   \* ep -> the last SACK chunk ep emitted since its previous snapshot, or <<>>
  sn,       \* ep -> last snapshot
  step,     \* the driver action that opened the current step
  newData,  \* ep -> Seq([after, before]) new user data sent since ep's previous snapshot
  misc,     \* small per-scenario bookkeeping record
  viol      \* set of violation records of the current scenario

vars == <<l, scen, cfg, msg, order, reads, ch, hi, pkt, rcvd, skipTo, ackCum, ackGap, arw, outst,
          lastSack, sackEv, sn, step, newData, misc, viol>>

EP == {0, 1}
Peer(e) == 1 - e
NoSnap == [none |-> TRUE]
E == Trace[l]
IsEv(name) == l <= Len(Trace) /\ Trace[l].ev = name
Cfg(e) == IF e = 0 THEN cfg.A ELSE cfg.B
UseIL == cfg.A.il /\ cfg.B.il
Get(f, k, d) == IF k \in DOMAIN f THEN f[k] ELSE d
V(mon, w) == [mon |-> mon, line |-> l, scen |-> scen, w |-> w]
MaxI(a, b) == IF a >= b THEN a ELSE b
MinI(a, b) == IF a <= b THEN a ELSE b
SeqSet(s) == {s[i] : i \in DOMAIN s}

InitVars ==
  /\ scen = "" /\ cfg = [none |-> TRUE]
  /\ msg = <<>> /\ order = <<>> /\ reads = <<>>
  /\ ch = [e \in EP |-> <<>>] /\ hi = [e \in EP |-> -1]
  /\ pkt = <<>>
  /\ rcvd = [e \in EP |-> {}] /\ skipTo = [e \in EP |-> -1]
  /\ ackCum = [e \in EP |-> -1] /\ ackGap = [e \in EP |-> {}]
  /\ arw = [e \in EP |-> 0] /\ outst = [e \in EP |-> 0]
  /\ lastSack = [e \in EP |-> -1] /\ sackEv = [e \in EP |-> <<>>]
  /\ sn = [e \in EP |-> NoSnap]
  /\ step = [ev |-> "none"]
  /\ newData = [e \in EP |-> <<>>]
  /\ misc = [expectDrained |-> FALSE, probe |-> [e \in EP |-> -1]]
  /\ viol = {}

Init == l = 1 /\ InitVars /\ TLCSet(1, 0)

(***************************************************************************)
(* Scenario boundaries                                                     *)
(***************************************************************************)
TrCfg ==
  /\ IsEv("cfg")
  /\ scen' = E.label /\ cfg' = E
  /\ msg' = <<>> /\ order' = <<>> /\ reads' = <<>>
  /\ ch' = [e \in EP |-> <<>>] /\ hi' = [e \in EP |-> -1]
  /\ pkt' = <<>>
  /\ rcvd' = [e \in EP |-> {}] /\ skipTo' = [e \in EP |-> -1]
  /\ ackCum' = [e \in EP |-> -1] /\ ackGap' = [e \in EP |-> {}]
  /\ arw' = [e \in EP |-> 0] /\ outst' = [e \in EP |-> 0]
  /\ lastSack' = [e \in EP |-> -1] /\ sackEv' = [e \in EP |-> <<>>]
  /\ sn' = [e \in EP |-> NoSnap]
  /\ step' = [ev |-> "none"]
  /\ newData' = [e \in EP |-> <<>>]
  /\ misc' = [expectDrained |-> FALSE, probe |-> [e \in EP |-> -1]]
  /\ viol' = {}
  /\ l' = l + 1

(***************************************************************************)
(* API: write                                                              *)
(***************************************************************************)
WriteViol(e) ==
  {V("C18_TooLargeRejected", <<e.id, e.len>>) : x \in {1} \cap (IF e.len > Cfg(e.ep).maxmsg /\ e.ok THEN {1} ELSE {})}
  \cup {V("C18_TooLargeError", <<e.id, e.len, e.err>>) : x \in {1} \cap (IF e.len > Cfg(e.ep).maxmsg /\ ~e.ok /\ e.err # "toolarge" THEN {1} ELSE {})}
  \cup {V("C18_ShortCount", <<e.id, e.len, e.n>>) : x \in {1} \cap (IF e.ok /\ e.n # e.len THEN {1} ELSE {})}

\* The call is logged before WriteSCTP runs (the writer goroutine may put chunks on the wire before
\* the call returns); the message is registered provisionally as accepted and confirmed or
\* withdrawn by the "write" event logged at the call's return (its linearization point for errors).
TrWCall ==
  /\ IsEv("wcall")
  /\ msg' = (E.id :> E) @@ msg
  /\ LET k == <<E.ep, E.sid>> IN
       order' = IF E.len > 0 THEN (k :> Append(Get(order, k, <<>>), E.id)) @@ order ELSE order
  /\ step' = E
  /\ l' = l + 1
  /\ UNCHANGED <<scen, cfg, reads, ch, hi, pkt, rcvd, skipTo, ackCum, ackGap, arw, outst, lastSack, sackEv, sn, newData, misc, viol>>

TrWrite ==
  /\ IsEv("write")
  /\ msg' = (E.id :> E) @@ msg
  /\ LET k == <<E.ep, E.sid>> IN
       order' = IF ~E.ok /\ E.len > 0
                THEN (k :> SelectSeq(Get(order, k, <<>>), LAMBDA x : x # E.id)) @@ order
                ELSE order
  /\ viol' = viol \cup WriteViol(E)
              \cup (IF ~E.ok /\ \E t \in DOMAIN ch[E.ep] : ch[E.ep][t].id = E.id
                    THEN {V("C18_FailedWriteOnWire", <<E.ep, E.sid, E.id, E.err>>)} ELSE {})
  /\ step' = E
  /\ l' = l + 1
  /\ UNCHANGED <<scen, cfg, reads, ch, hi, pkt, rcvd, skipTo, ackCum, ackGap, arw, outst, lastSack, sackEv, sn, newData, misc>>

(***************************************************************************)
(* API: read                                                               *)
(***************************************************************************)
\* position of id in the sending order of its stream (0 if absent)
PosIn(s, id) == IF \E i \in DOMAIN s : s[i] = id THEN CHOOSE i \in DOMAIN s : s[i] = id ELSE 0

ReadViol(e) ==
  LET k    == <<e.ep, e.sid>>
      sk   == <<Peer(e.ep), e.sid>>
      prev == Get(reads, k, <<>>)
      sent == Get(order, sk, <<>>)
      prevIds == {prev[i].id : i \in {j \in DOMAIN prev : prev[j].ok}}
      m    == IF e.id \in DOMAIN msg THEN msg[e.id] ELSE [none |-> TRUE]
      known == e.id \in DOMAIN msg
      pos  == PosIn(sent, e.id)
      \* earlier ordered messages of the stream already delivered
      laterDelivered == {i \in DOMAIN sent : i > pos /\ sent[i] \in prevIds /\ ~msg[sent[i]].unord}
      earlierReliableMissing == {i \in DOMAIN sent : i < pos /\ sent[i] \notin prevIds
                                   /\ ~msg[sent[i]].unord /\ (msg[sent[i]].rtype = 0 \/ msg[sent[i]].ppi = 50)}
  IN
  IF ~e.ok THEN {}
  ELSE
    (IF e.id = 0 THEN {V("C06_Genuine", <<e.ep, e.sid, e.len, e.ppi>>)} ELSE {})
    \cup (IF e.id # 0 /\ (~known \/ pos = 0) THEN {V("C06_Genuine", <<e.ep, e.sid, e.id>>)} ELSE {})
    \cup (IF known /\ pos # 0 /\ ~m.ok THEN {V("C18_FailedWriteDelivered", <<e.ep, e.sid, e.id>>)} ELSE {})
    \cup (IF e.id # 0 /\ e.id \in prevIds THEN {V("C06_AtMostOnce", <<e.ep, e.sid, e.id>>)} ELSE {})
    \cup (IF known /\ pos # 0 /\ (m.len # e.len \/ m.ppi # e.ppi) THEN {V("C06_Intact", <<e.ep, e.sid, e.id, e.len, e.ppi>>)} ELSE {})
    \cup (IF known /\ pos # 0 /\ ~m.unord /\ laterDelivered # {} THEN {V("C06_OrderedSubseq", <<e.ep, e.sid, e.id>>)} ELSE {})
    \cup (IF known /\ pos # 0 /\ ~m.unord /\ earlierReliableMissing # {}
          THEN {V("C01_SkippedReliable", <<e.ep, e.sid, e.id, sent[Min(earlierReliableMissing)]>>)} ELSE {})

TrRead ==
  /\ IsEv("read")
  /\ LET k == <<E.ep, E.sid>> IN reads' = (k :> Append(Get(reads, k, <<>>), E)) @@ reads
  /\ viol' = viol \cup ReadViol(E)
  /\ step' = E
  /\ l' = l + 1
  /\ UNCHANGED <<scen, cfg, msg, order, ch, hi, pkt, rcvd, skipTo, ackCum, ackGap, arw, outst, lastSack, sackEv, sn, newData, misc>>

(***************************************************************************)
(* Wire: packet header written by an endpoint (or forged by the harness)   *)
(***************************************************************************)
HasKind(p, ks) == \E i \in DOMAIN p.kinds : p.kinds[i] \in ks
DataKinds == {"data", "idata"}

TxViol(p) ==
  LET e == p.ep
      mandatory == HasKind(p, {"init", "cookieecho"})
  IN
    (IF p.wf # <<>> THEN {V("C12_WellFormed", <<e, p.pid, p.wf>>)} ELSE {})
    \cup (IF p.ck = "bad" THEN {V("C13_EmitCorrect", <<e, p.pid>>)} ELSE {})
    \cup (IF p.ck = "zero" /\ (mandatory \/ ~Cfg(Peer(e)).zc) THEN {V("C13_EmitZeroOnlyNegotiated", <<e, p.pid, p.kinds>>)} ELSE {})
    \cup (IF HasKind(p, DataKinds) /\ p.len > Cfg(e).mtu THEN {V("C10_Mtu", <<e, p.pid, p.len>>)} ELSE {})
    \cup (IF HasKind(p, {"init"}) /\ (p.n # 1 \/ p.vtag # "zero") THEN {V("C12_InitAlone", <<e, p.pid>>)} ELSE {})
    \cup (IF ~p.ports THEN {V("C12_Ports", <<e, p.pid>>)} ELSE {})

TrTx ==
  /\ IsEv("tx")
  /\ pkt' = (E.pid :> [ep |-> E.ep, ck |-> E.ck, forged |-> FALSE, t |-> E.t, kinds |-> E.kinds, chunks |-> <<>>]) @@ pkt
  /\ viol' = viol \cup TxViol(E)
  /\ l' = l + 1
  /\ UNCHANGED <<scen, cfg, msg, order, reads, ch, hi, rcvd, skipTo, ackCum, ackGap, arw, outst, lastSack, sackEv, sn, step, newData, misc>>

TrForge ==
  /\ IsEv("forge")
  /\ pkt' = (E.pid :> [ep |-> E.ep, ck |-> E.ck, forged |-> TRUE, t |-> E.t, kinds |-> E.kinds, chunks |-> <<>>]) @@ pkt
  /\ l' = l + 1
  /\ UNCHANGED <<scen, cfg, msg, order, reads, ch, hi, rcvd, skipTo, ackCum, ackGap, arw, outst, lastSack, sackEv, sn, step, newData, misc, viol>>

(***************************************************************************)
(* Wire: one chunk of the packet announced by the preceding header         *)
(***************************************************************************)
GapTSNs(c) == UNION {{c.cum + k : k \in (c.gaps[i][1])..(c.gaps[i][2])} : i \in DOMAIN c.gaps}

\* --- DATA / I-DATA written by endpoint e
DataViol(c) ==
  LET e     == c.ep
      isNew == c.tsn \notin DOMAIN ch[e]
      old   == ch[e][c.tsn]
      known == c.id \in DOMAIN msg
      m     == msg[c.id]
      prevC == ch[e][c.tsn - 1]
      ntx   == IF isNew THEN 1 ELSE old.ntx + 1
      late  == IF isNew THEN 0 ELSE old.late + (IF known /\ m.rtype = 2 /\ c.t > old.t0 + m.rval THEN 1 ELSE 0)
  IN
    (IF c.il # UseIL THEN {V("C17_Kind", <<e, c.tsn, c.il>>)} ELSE {})
    \cup (IF isNew /\ c.tsn # hi[e] + 1 THEN {V("C01_TsnConsecutive", <<e, c.tsn, hi[e]>>)} ELSE {})
    \cup (IF c.id = 0 \/ ~known THEN {V("C01_UnknownPayloadOnWire", <<e, c.tsn, c.sid, c.len>>)} ELSE {})
    \cup (IF known /\ ~m.ok THEN {V("C18_FailedWriteOnWire", <<e, c.tsn, c.id>>)} ELSE {})
    \cup (IF known /\ (m.ep # e \/ m.sid # c.sid) THEN {V("C01_WrongStream", <<e, c.tsn, c.id, c.sid>>)} ELSE {})
    \cup (IF known /\ c.b /\ c.ppi # m.ppi THEN {V("C12_Ppi", <<e, c.tsn, c.id, c.ppi>>)} ELSE {})
    \cup (IF known /\ c.u # m.unord THEN {V("C06_OrderingFlag", <<e, c.tsn, c.id, c.u>>)} ELSE {})
    \cup (IF c.ppi = 50 /\ c.u THEN {V("C06_DcepOrdered", <<e, c.tsn, c.id>>)} ELSE {})
    \cup (IF c.b # (c.fi = 0) THEN {V("C01_FragFlags", <<e, c.tsn, c.id, c.fi>>)} ELSE {})
    \cup (IF ~isNew /\ (old.id # c.id \/ old.fi # c.fi \/ old.len # c.len \/ old.sid # c.sid \/ old.ssn # c.ssn
                        \/ old.mid # c.mid \/ old.fsn # c.fsn \/ old.b # c.b \/ old.e # c.e \/ old.u # c.u)
          THEN {V("C01_RetransmissionIdentical", <<e, c.tsn, c.id>>)} ELSE {})
    \cup (IF isNew /\ ~c.il /\ c.fi > 0 /\ ((c.tsn - 1) \notin DOMAIN ch[e] \/ prevC.id # c.id \/ prevC.fi # c.fi - 1)
          THEN {V("C17_ConsecutiveTSN", <<e, c.tsn, c.id, c.fi>>)} ELSE {})
    \cup (IF c.il /\ c.fsn # c.fi THEN {V("C17_FsnOrder", <<e, c.tsn, c.id, c.fi, c.fsn>>)} ELSE {})
    \cup (IF known /\ m.rtype = 1 /\ m.ppi # 50 /\ ntx > m.rval + 1 THEN {V("C06_RexmitCap", <<e, c.tsn, c.id, ntx, m.rval, IF m.len > c.len THEN "fragmented" ELSE "whole">>)} ELSE {})
    \cup (IF known /\ m.rtype = 2 /\ m.ppi # 50 /\ late > 1 THEN {V("C06_Lifetime", <<e, c.tsn, c.id, late, m.rval>>)} ELSE {})

TrChunkData ==
  /\ IsEv("c") /\ E.k \in DataKinds /\ ~pkt[E.pid].forged
  /\ LET e     == E.ep
         isNew == E.tsn \notin DOMAIN ch[e]
         old   == ch[e][E.tsn]
         known == E.id \in DOMAIN msg
         lateInc == IF ~isNew /\ known /\ msg[E.id].rtype = 2 /\ E.t > old.t0 + msg[E.id].rval THEN 1 ELSE 0
         rec   == IF isNew
                  THEN [id |-> E.id, fi |-> E.fi, sid |-> E.sid, len |-> E.len, ssn |-> E.ssn, mid |-> E.mid, fsn |-> E.fsn,
                        b |-> E.b, e |-> E.e, u |-> E.u, ppi |-> E.ppi, ntx |-> 1, t0 |-> E.t, tl |-> E.t, late |-> 0]
                  ELSE [old EXCEPT !.ntx = @ + 1, !.tl = E.t, !.late = @ + lateInc]
     IN
       /\ ch' = [ch EXCEPT ![e] = (E.tsn :> rec) @@ @]
       /\ hi' = [hi EXCEPT ![e] = MaxI(@, E.tsn)]
       /\ outst' = [outst EXCEPT ![e] = IF isNew THEN @ + E.len ELSE @]
       \* window-probe allowance: the last chunk that was sent while nothing was outstanding, for as
       \* long as it is itself unacknowledged (RFC 4960 6.1 A: "one DATA chunk in flight regardless of rwnd")
       /\ newData' = [newData EXCEPT ![e] = IF isNew
                        THEN Append(@, [before |-> outst[e], after |-> outst[e] + E.len, tsn |-> E.tsn,
                                        allow |-> IF outst[e] = 0 THEN E.len
                                                  ELSE IF misc.probe[e] >= 0 /\ misc.probe[e] > ackCum[e] /\ misc.probe[e] \notin ackGap[e]
                                                       THEN ch[e][misc.probe[e]].len ELSE 0])
                        ELSE @]
       /\ misc' = IF isNew /\ outst[e] = 0 THEN [misc EXCEPT !.probe[e] = E.tsn] ELSE misc
  /\ pkt' = [pkt EXCEPT ![E.pid].chunks = Append(@, E)]
  /\ viol' = viol \cup DataViol(E)
  /\ l' = l + 1
  /\ UNCHANGED <<scen, cfg, msg, order, reads, rcvd, skipTo, ackCum, ackGap, arw, lastSack, sackEv, sn, step>>

\* --- SACK written by endpoint e (about the peer's TSNs)
SackViol(c) ==
  LET e == c.ep
      newlyCovered == (lastSack[e] + 1)..c.cum
      unsound == {t \in newlyCovered : t >= 0 /\ t \notin rcvd[e] /\ t > skipTo[e]}
      gapT == GapTSNs(c)
      prevAccepted == IF sn[e] = NoSnap THEN {} ELSE SeqSet(sn[e].held)
      sorted == \A i \in DOMAIN c.gaps : c.gaps[i][1] >= 2 /\ c.gaps[i][1] <= c.gaps[i][2]
                   /\ (i > 1 => c.gaps[i][1] > c.gaps[i-1][2] + 1)
  IN
    (IF c.cum < lastSack[e] THEN {V("C05_Monotone", <<e, c.cum, lastSack[e]>>)} ELSE {})
    \cup (IF unsound # {} THEN {V("C05_CumSound", <<e, c.cum, Min(unsound)>>)} ELSE {})
    \cup (IF gapT \ rcvd[e] # {} THEN {V("C05_GapSound", <<e, c.cum, Min(gapT \ rcvd[e])>>)} ELSE {})
    \cup (IF ~sorted THEN {V("C05_GapShape", <<e, c.cum, c.gaps>>)} ELSE {})
    \cup (IF sn[e] # NoSnap /\ (sn[e].rcum > c.cum \/ {t \in prevAccepted : t > c.cum} \ gapT # {})
          THEN {V("C05_Complete", <<e, c.cum, sn[e].rcum>>)} ELSE {})
    \cup (IF \E i \in DOMAIN c.dups : c.dups[i] \notin rcvd[e] THEN {V("C05_DupSound", <<e, c.cum, c.dups>>)} ELSE {})

TrChunkSack ==
  /\ IsEv("c") /\ E.k = "sack" /\ ~pkt[E.pid].forged
  /\ lastSack' = [lastSack EXCEPT ![E.ep] = MaxI(@, E.cum)]
  /\ sackEv' = [sackEv EXCEPT ![E.ep] = E]
  /\ pkt' = [pkt EXCEPT ![E.pid].chunks = Append(@, E)]
  /\ viol' = viol \cup (IF "bad" \in DOMAIN E THEN {V("C12_WellFormed", <<E.ep, E.pid, "sack">>)} ELSE SackViol(E))
  /\ l' = l + 1
  /\ UNCHANGED <<scen, cfg, msg, order, reads, ch, hi, rcvd, skipTo, ackCum, ackGap, arw, outst, sn, step, newData, misc>>

\* --- any other chunk (handshake, reconfig, shutdown, abort, heartbeat ...): stored with the packet
TrChunkOther ==
  /\ IsEv("c") /\ (pkt[E.pid].forged \/ E.k \notin (DataKinds \cup {"sack"}))
  /\ pkt' = [pkt EXCEPT ![E.pid].chunks = Append(@, E)]
  /\ l' = l + 1
  /\ UNCHANGED <<scen, cfg, msg, order, reads, ch, hi, rcvd, skipTo, ackCum, ackGap, arw, outst, lastSack, sackEv, sn, step, newData, misc, viol>>

(***************************************************************************)
(* Driver: a packet is handed to its destination                           *)
(***************************************************************************)
ChunksOfKind(p, ks) == {p.chunks[i] : i \in {j \in DOMAIN p.chunks : p.chunks[j].k \in ks}}
Wellformed(c) == "bad" \notin DOMAIN c

TrRx ==
  /\ IsEv("rx")
  /\ LET p    == pkt[E.pid]
         to   == E.to
         live == E.ok /\ p.ck # "bad" /\ ~p.forged
         dataT == {c.tsn : c \in ChunksOfKind(p, DataKinds)}
         fwds  == {c.cum : c \in {x \in ChunksOfKind(p, {"fwd", "ifwd"}) : Wellformed(x)}}
         \* a SACK whose cumulative point is behind what was already acknowledged is stale (RFC 4960 6.2.1 D i)
         sacks == {c \in ChunksOfKind(p, {"sack"}) : Wellformed(c) /\ c.cum >= ackCum[E.to]}
         shuts == {c \in ChunksOfKind(p, {"shutdown"}) : Wellformed(c)}
         cums  == {c.cum : c \in sacks \cup shuts}
         ncum  == IF live /\ cums # {} THEN MaxI(ackCum[to], Max(cums)) ELSE ackCum[to]
         ngap  == IF live THEN (ackGap[to] \cup UNION {GapTSNs(c) : c \in sacks}) ELSE ackGap[to]
         newly == {t \in DOMAIN ch[to] : (t <= ncum \/ t \in ngap) /\ ~(t <= ackCum[to] \/ t \in ackGap[to])}
         inits == {c \in ChunksOfKind(p, {"init", "initack"}) : Wellformed(c)}
     IN
       /\ rcvd' = [rcvd EXCEPT ![to] = IF live THEN @ \cup dataT ELSE @]
       /\ skipTo' = [skipTo EXCEPT ![to] = IF live /\ fwds # {} THEN MaxI(@, Max(fwds)) ELSE @]
       /\ ackCum' = [ackCum EXCEPT ![to] = ncum]
       /\ ackGap' = [ackGap EXCEPT ![to] = {t \in ngap : t > ncum}]
       /\ outst' = [outst EXCEPT ![to] = @ - MapThenSumSet(LAMBDA t : ch[to][t].len, newly)]
       /\ arw' = [arw EXCEPT ![to] = IF live /\ sacks # {} THEN (CHOOSE c \in sacks : TRUE).arwnd
                                     ELSE IF live /\ inits # {} THEN (CHOOSE c \in inits : TRUE).arwnd ELSE @]
  /\ step' = E
  /\ l' = l + 1
  /\ UNCHANGED <<scen, cfg, msg, order, reads, ch, hi, pkt, lastSack, sackEv, sn, newData, misc, viol>>

(***************************************************************************)
(* Snapshot of an endpoint at quiescence                                   *)
(***************************************************************************)
Established(s) == s.st \in {"established", "shutdownPending", "shutdownReceived", "shutdownSent"}

SnapViol(s) ==
  LET e == s.ep
      nd == newData[e]
      wnd == MinI(s.cwnd, arw[e])
      \* new user data is sent only within cwnd and the peer's advertised window; probe exception
      badWindow == {i \in DOMAIN nd : nd[i].before # 0 /\ ~(nd[i].after <= s.cwnd /\ nd[i].after - nd[i].allow <= arw[e])}
      \* the strong completeness check: the step delivered one packet of DATA chunks only
      p  == IF step.ev = "rx" /\ step.pid \in DOMAIN pkt THEN pkt[step.pid] ELSE [kinds |-> <<>>, forged |-> TRUE]
      onlyData == step.ev = "rx" /\ step.to = e /\ ~p.forged /\ p.kinds # <<>> /\ \A i \in DOMAIN p.kinds : p.kinds[i] \in DataKinds
      sk == sackEv[e]
  IN
    (IF badWindow # {} THEN {V("C10_Window", <<e, nd[Min(badWindow)].tsn, nd[Min(badWindow)].after, s.cwnd, arw[e]>>)} ELSE {})
    \cup (IF Established(s) /\ s.cwnd < Cfg(e).mtu THEN {V("C10_CwndFloor", <<e, s.cwnd>>)} ELSE {})
    \cup (IF onlyData /\ sk # <<>> /\ (sk.cum # s.rcum \/ GapTSNs(sk) # SeqSet(s.held))
          THEN {V("C05_CompleteNow", <<e, sk.cum, s.rcum>>)} ELSE {})
    \cup (IF s.nheld > Cfg(e).W THEN {V("C11_Bounded", <<e, s.nheld>>)} ELSE {})
    \cup (IF \E i \in DOMAIN s.held : s.held[i] > s.rcum + Cfg(e).W THEN {V("C11_Window", <<e, s.rcum>>)} ELSE {})
    \cup (IF \E i \in DOMAIN s.held : s.held[i] \notin rcvd[e] THEN {V("C05_HeldReceived", <<e, s.rcum>>)} ELSE {})

TrSnap ==
  /\ IsEv("snap")
  /\ sn' = [sn EXCEPT ![E.ep] = E]
  /\ newData' = [newData EXCEPT ![E.ep] = <<>>]
  /\ sackEv' = [sackEv EXCEPT ![E.ep] = <<>>]
  /\ viol' = viol \cup SnapViol(E)
  /\ l' = l + 1
  /\ UNCHANGED <<scen, cfg, msg, order, reads, ch, hi, pkt, rcvd, skipTo, ackCum, ackGap, arw, outst, lastSack, step, misc>>

\* "same": the endpoint's projection at this quiescent point equals its previous snapshot
TrSame ==
  /\ IsEv("same") /\ sn[E.ep] # NoSnap
  /\ newData' = [newData EXCEPT ![E.ep] = <<>>]
  /\ sackEv' = [sackEv EXCEPT ![E.ep] = <<>>]
  /\ viol' = viol \cup SnapViol(sn[E.ep])
  /\ l' = l + 1
  /\ UNCHANGED <<scen, cfg, msg, order, reads, ch, hi, pkt, rcvd, skipTo, ackCum, ackGap, arw, outst, lastSack, sn, step, misc>>

(***************************************************************************)
(* Scenario end: print the violations                                      *)
(***************************************************************************)
EndViol(e) ==
  (IF ~e.clean THEN {V("C09_NoLeak", <<e.leaks>>)} ELSE {})

TrEnd ==
  /\ IsEv("end")
  /\ LET vs == viol \cup EndViol(E) IN
       /\ PrintT(<<"VFSCEN", scen, Cardinality(vs), l>>)
       /\ \A v \in vs : PrintT(<<"VFVIOL", ToJson(v)>>)
       /\ viol' = {}
  /\ l' = l + 1
  /\ UNCHANGED <<scen, cfg, msg, order, reads, ch, hi, pkt, rcvd, skipTo, ackCum, ackGap, arw, outst, lastSack, sackEv, sn, step, newData, misc>>

(***************************************************************************)
(* Events that only open a step or carry information used by other specs   *)
(***************************************************************************)
Passive == {"api", "tick", "drop", "connclose", "txfail", "cb", "expect", "note"}
TrPassive ==
  /\ l <= Len(Trace) /\ Trace[l].ev \in Passive
  /\ step' = E
  /\ l' = l + 1
  /\ UNCHANGED <<scen, cfg, msg, order, reads, ch, hi, pkt, rcvd, skipTo, ackCum, ackGap, arw, outst, lastSack, sackEv, sn, newData, misc, viol>>

Next == TrCfg \/ TrWCall \/ TrWrite \/ TrRead \/ TrTx \/ TrForge \/ TrChunkData \/ TrChunkSack \/ TrChunkOther
        \/ TrRx \/ TrSnap \/ TrSame \/ TrEnd \/ TrPassive

Spec == Init /\ [][Next]_vars

HighWater == TLCSet(1, MaxI(TLCGet(1), l))
Accepted == TLCGet(1) = Len(Trace) + 1
=============================================================================
