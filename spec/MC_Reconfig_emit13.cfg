SPECIFICATION Spec
CONSTANTS
 MaxInc = 2
 MaxWrites = 2
 MaxDrop = 1
 MaxFire = 2
 DupDetect = TRUE
 FixRenum = TRUE
 Depth = 13
INVARIANTS TypeOK 
CONSTRAINT EmitCut
VIEW View
CHECK_DEADLOCK FALSE
