---------------------------- MODULE WriteSeqTrace ----------------------------
(***************************************************************************)
(* Histories of real concurrent writers on one stream (harness mode mw-rt, *)
(* real time) checked against the law of WriteSeq.tla.  Only timing-       *)
(* independent monitors: events of different goroutines are ordered by the *)
(* trace mutex, and nothing here depends on that order except "a read of   *)
(* message m comes after ... nothing": every monitor is evaluated on SETS  *)
(* at the end of the scenario, apart from the per-stream order of reads    *)
(* (one reader goroutine per stream, so its events are program-ordered).   *)
(***************************************************************************)
EXTENDS WriteSeqLaw, IOUtils, Json, TLC
Trace == ndJsonDeserialize(IOEnv.VF_TRACE)
VARIABLES l, scen, ok, failed, wire, rds, viol
tvars == <<l, scen, ok, failed, wire, rds, viol>>
E == Trace[l]
IsEv(n) == l <= Len(Trace) /\ Trace[l].ev = n
V(mon, w) == [mon |-> mon, scen |-> scen, line |-> l, w |-> w]
MaxI(a, b) == IF a >= b THEN a ELSE b

TInit == l = 1 /\ scen = "" /\ ok = {} /\ failed = {} /\ wire = <<>> /\ rds = <<>> /\ viol = {} /\ TLCSet(1, 0)
TrCfg == /\ IsEv("mwcfg") /\ scen' = E.label /\ ok' = {} /\ failed' = {} /\ wire' = <<>> /\ rds' = <<>> /\ viol' = {}
         /\ l' = l + 1
TrWret == /\ IsEv("wret")
          /\ ok' = IF E.ok THEN ok \cup {<<E.sid, E.id>>} ELSE ok
          /\ failed' = IF E.ok THEN failed ELSE failed \cup {<<E.sid, E.id>>}
          /\ viol' = viol \cup (IF ~E.ok /\ E.err \notin {"deadline", "ctx", "notestablished", "streamclosed"} THEN {V("C20_WriteError", <<E.sid, E.id, E.err>>)} ELSE {})
          /\ l' = l + 1 /\ UNCHANGED <<scen, wire, rds>>
TrWire == /\ IsEv("wire") /\ wire' = Append(wire, E) /\ l' = l + 1 /\ UNCHANGED <<scen, ok, failed, rds, viol>>
\* reads of one stream are emitted by that stream's only reader goroutine
TrRd == /\ IsEv("rd")
        /\ rds' = Append(rds, E)
        /\ l' = l + 1 /\ UNCHANGED <<scen, ok, failed, wire, viol>>

EndViol ==
  LET sids == {m[1] : m \in ok \cup failed}
      W(s) == {wire[i] : i \in {j \in DOMAIN wire : wire[j].sid = s}}
      \* number carried on the wire by accepted message <<s, id>> (first transmission of its first fragment)
      NumsOf(s) == [id \in {m[2] : m \in {x \in ok : x[1] = s /\ \E c \in W(s) : c.id = x[2]}} |-> (CHOOSE c \in W(s) : c.id = id).seq]
      R(s) == SelectSeq(rds, LAMBDA e : e.sid = s)
      seqOf(s, id) == (CHOOSE c \in W(s) : c.id = id).seq
  IN UNION {
       \* WriteSeq!Gapless on the real history
       (IF ~Gapless(NumsOf(s)) THEN {V("C20_WriteSeqGapless", <<s, NumsOf(s)>>)} ELSE {})
       \cup {V("C20_FailedWriteOnWire", <<s, c.id, c.seq>>) : c \in {x \in W(s) : <<s, x.id>> \in failed}}
       \cup {V("C20_UnknownOnWire", <<s, c.seq>>) : c \in {x \in W(s) : x.id = 0}}
       \cup {V("C20_ReadGenuine", <<s, R(s)[i].id>>) : i \in {j \in DOMAIN R(s) : <<s, R(s)[j].id>> \notin ok}}
       \cup {V("C20_ReadOnce", <<s, R(s)[i].id>>) : i \in {j \in DOMAIN R(s) : \E k \in DOMAIN R(s) : k < j /\ R(s)[k].id = R(s)[j].id}}
       \cup {V("C20_ReadOrder", <<s, R(s)[i].id, R(s)[i + 1].id>>) :
               i \in {j \in 1 .. (Len(R(s)) - 1) : /\ \E c \in W(s) : c.id = R(s)[j].id
                                                   /\ \E c \in W(s) : c.id = R(s)[j + 1].id
                                                   /\ seqOf(s, R(s)[j].id) >= seqOf(s, R(s)[j + 1].id)}}
       \* the sender holds nothing unsent or unacknowledged: everything accepted has reached the reader
       \cup (IF E.sender_idle
             THEN {V("C20_AcceptedDelivered", <<s, m[2]>>) : m \in {x \in ok : x[1] = s /\ ~\E i \in DOMAIN R(s) : R(s)[i].id = x[2]}}
             ELSE {})
       : s \in sids}
TrEnd == /\ IsEv("mwend")
         /\ LET vs == viol \cup EndViol IN
              /\ PrintT(<<"VFSCEN", scen, Cardinality(vs), l>>)
              /\ \A v \in vs : PrintT(<<"VFVIOL", ToJson(v)>>)
         /\ viol' = {} /\ l' = l + 1 /\ UNCHANGED <<scen, ok, failed, wire, rds>>
\* a write call that never returned after the association was torn down (certified by two identical stack samples)
TrStuck == /\ IsEv("stuck") /\ viol' = viol \cup {V("C20_CallNeverReturns", <<E.what, E.stacks>>)}
           /\ l' = l + 1 /\ UNCHANGED <<scen, ok, failed, wire, rds>>
TNext == TrCfg \/ TrWret \/ TrWire \/ TrRd \/ TrEnd \/ TrStuck
TSpec == TInit /\ [][TNext]_tvars
HighWater == TLCSet(1, MaxI(TLCGet(1), l))
Accepted == TLCGet(1) = Len(Trace) + 1
=============================================================================
