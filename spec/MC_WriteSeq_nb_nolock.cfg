SPECIFICATION Spec
CONSTANTS
 Writers = {1, 2}
 MaxCalls = 2
 Blocking = FALSE
 UseLock = FALSE
INVARIANTS GaplessInv NoDuplicate
CHECK_DEADLOCK FALSE
