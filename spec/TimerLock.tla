----------------------------- MODULE TimerLock -----------------------------
(***************************************************************************)
(* Lock hierarchy between the association lock and a retransmission        *)
(* timer's own mutex (pion/sctp rtx_timer.go start/stop/timeout/close and  *)
(* their callers in association.go).                                       *)
(*   - handlers (read loop: SACK processing; write loop: gatherOutbound;   *)
(*     Close: closeAllTimers) hold the association lock `alock` and call   *)
(*     timer.start / stop / close, which take the timer mutex `tlock`      *)
(*     for a moment: order  alock -> tlock;                                *)
(*   - the timer goroutine takes `tlock` when the timer expires, re-arms,  *)
(*     RELEASES `tlock`, and only then runs the observer callback, which   *)
(*     takes `alock`.                                                      *)
(* C20 / C02: no interleaving deadlocks.  HoldMutexInCallback = TRUE (the  *)
(* callback runs with `tlock` still held: order tlock -> alock) is the     *)
(* negative control: TLC must find the deadlock.  Bound to the code by the *)
(* real-time family lockorder-rt, whose only verdict is a certified lock   *)
(* cycle between exactly these critical sections.                          *)
(***************************************************************************)
EXTENDS Integers, FiniteSets, TLC

CONSTANTS Handlers,             \* ids of goroutines that call timer operations under the association lock
          Rounds,               \* timer expiries / handler invocations per goroutine
          HoldMutexInCallback

Timer == 0
Procs == Handlers \cup {Timer}

VARIABLES alock, tlock,         \* holder or -1
          pc, n
vars == <<alock, tlock, pc, n>>

Init == alock = -1 /\ tlock = -1 /\ pc = [p \in Procs |-> "idle"] /\ n = [p \in Procs |-> 0]

\* ---- a handler: lock association; timer.stop()/start() (takes tlock briefly); unlock
HLock(h)   == pc[h] = "idle" /\ n[h] < Rounds /\ alock = -1 /\ alock' = h /\ pc' = [pc EXCEPT ![h] = "locked"] /\ UNCHANGED <<tlock, n>>
HTimerIn(h)  == pc[h] = "locked" /\ tlock = -1 /\ tlock' = h /\ pc' = [pc EXCEPT ![h] = "intimer"] /\ UNCHANGED <<alock, n>>
HTimerOut(h) == pc[h] = "intimer" /\ tlock' = -1 /\ pc' = [pc EXCEPT ![h] = "after"] /\ UNCHANGED <<alock, n>>
HUnlock(h) == pc[h] = "after" /\ alock' = -1 /\ pc' = [pc EXCEPT ![h] = "idle"] /\ n' = [n EXCEPT ![h] = @ + 1] /\ UNCHANGED tlock

\* ---- the timer goroutine: expiry
TFire   == pc[Timer] = "idle" /\ n[Timer] < Rounds /\ tlock = -1 /\ tlock' = Timer /\ pc' = [pc EXCEPT ![Timer] = "expired"] /\ UNCHANGED <<alock, n>>
TRelease == pc[Timer] = "expired" /\ ~HoldMutexInCallback /\ tlock' = -1 /\ pc' = [pc EXCEPT ![Timer] = "callback"] /\ UNCHANGED <<alock, n>>
TKeep   == pc[Timer] = "expired" /\ HoldMutexInCallback /\ pc' = [pc EXCEPT ![Timer] = "callback"] /\ UNCHANGED <<alock, tlock, n>>
TCbLock == pc[Timer] = "callback" /\ alock = -1 /\ alock' = Timer /\ pc' = [pc EXCEPT ![Timer] = "incallback"] /\ UNCHANGED <<tlock, n>>
TCbDone == /\ pc[Timer] = "incallback" /\ alock' = -1
           /\ tlock' = IF tlock = Timer THEN -1 ELSE tlock
           /\ pc' = [pc EXCEPT ![Timer] = "idle"] /\ n' = [n EXCEPT ![Timer] = @ + 1]

Next == TFire \/ TRelease \/ TKeep \/ TCbLock \/ TCbDone
        \/ \E h \in Handlers : HLock(h) \/ HTimerIn(h) \/ HTimerOut(h) \/ HUnlock(h)
Done == \A p \in Procs : pc[p] = "idle" /\ n[p] = Rounds
Spec == Init /\ [][Next]_vars

\* no state other than the final one is without a successor
NoDeadlock == Done \/ ENABLED Next
\* the hierarchy itself: whoever holds the timer mutex and wants more holds the association lock already
LockOrder == \A p \in Procs : (tlock = p /\ pc[p] \in {"callback"}) => FALSE
Mutex == (alock # -1 => pc[alock] \in {"locked", "intimer", "after", "incallback"}) /\ (tlock # -1 => pc[tlock] \in {"intimer", "expired", "callback", "incallback"})
=============================================================================
