SPECIFICATION Spec
CONSTANTS
 MaxInc = 2
 MaxWrites = 2
 MaxDrop = 1
 MaxFire = 2
 DupDetect = TRUE
 FixRenum = FALSE
 Depth = 99
INVARIANTS TypeOK NoMidStreamRenumberingP

VIEW View
CHECK_DEADLOCK FALSE
