------------------------------ MODULE Transfer ------------------------------
(***************************************************************************)
(* Engine specification, data-transfer slice (pion/sctp association.go:    *)
(* popPendingDataChunksToSend / getDataPacketsToRetransmit, handleData,    *)
(* handlePeerLastTSNAndAcknowledgement, handleChunksEnd / ack timer,       *)
(* createSelectiveAckChunk, processSelectiveAck, T3-rtx) composed with the *)
(* component specifications RecvTSN (receiver's TSN record) and Reasm      *)
(* (stream reassembly).                                                    *)
(*                                                                         *)
(* One sender S, one receiver R, one ordered reliable stream.  The network *)
(* is a bag per direction: any packet in flight may be delivered next      *)
(* (reordering and delay are free); loss and duplication of DATA draw on a *)
(* budget; the acknowledgement channel holds at most MaxSacks SACKs and    *)
(* may lose any of them freely.  One action per critical section: the      *)
(* writer's Gather is one batch step, a handler processes one chunk.       *)
(* RACK / tail-loss-probe heuristics are over-approximated by MarkLost:    *)
(* any chunk that was sent once and is not yet acknowledged may be flagged *)
(* for retransmission at any time; liveness relies on T3 only, as in the   *)
(* code.  Congestion control is frozen to a window of Cwnd chunks.         *)
(***************************************************************************)
EXTENDS Integers, Sequences, FiniteSets, FiniteSetsExt, TLC, Json, RecvTSN, Reasm

CONSTANTS Frags,     \* sequence: number of fragments of message 1, 2, ... (TSNs assigned in this order)
          Cwnd,      \* initial congestion window in bytes (4380 with the default MTU)
          W,         \* receiver tracking window (TSNs)
          MaxLoss, MaxDup, MaxT3, MaxSacks, MaxMark, MaxSackLoss

\* every chunk carries CH user bytes and travels alone in a packet of the (default) MTU
CH == 1160
MTU == 1191
NMsg == Len(Frags)
RECURSIVE SumTo(_)
SumTo(i) == IF i = 0 THEN 0 ELSE Frags[i] + SumTo(i - 1)
NChunks == SumTo(NMsg)
\* chunk k (TSN k, 1-based) belongs to message MsgOf(k) and is its fragment FragOf(k)
MsgOf(k) == CHOOSE m \in 1..NMsg : SumTo(m - 1) < k /\ k <= SumTo(m)
FragOf(k) == k - SumTo(MsgOf(k) - 1) - 1
ChunkRec(k) == [tsn |-> k, seq |-> MsgOf(k) - 1, fi |-> FragOf(k), b |-> FragOf(k) = 0, e |-> FragOf(k) = Frags[MsgOf(k)] - 1,
                len |-> 1, ppi |-> 51, u |-> FALSE, il |-> FALSE, m |-> MsgOf(k)]

VARIABLES
  \* sender
  nextTSN,   \* next TSN to assign (1-based; TSN 0 is "before the first")
  infl,      \* TSN -> [acked, rtx, nsent] for TSNs above cumAck
  cumAck,
  t3,        \* T3-rtx armed
  cwnd, ssthresh, pba,   \* congestion window, slow-start threshold, partial bytes acked (bytes)
  \* receiver
  rq,        \* RecvTSN state
  rs,        \* Reasm state of the stream
  ackState,  \* "idle", "delay", "immediate"
  delivered, \* sequence of message ids returned by reads
  \* network
  dnet,      \* DATA packets in flight: set of [tsn, n]
  snet,      \* SACKs in flight: set of [id, cum, gaps]
  nsack,     \* SACKs emitted so far
  \* budgets / history
  loss, dup, nT3, marks, sackLoss, rcvdEver, ops

vars == <<nextTSN, infl, cumAck, t3, cwnd, ssthresh, pba, rq, rs, ackState, delivered, dnet, snet, nsack, loss, dup, nT3, marks, sackLoss, rcvdEver, ops>>

Init ==
  /\ nextTSN = 1 /\ infl = <<>> /\ cumAck = 0 /\ t3 = FALSE
  /\ cwnd = Cwnd /\ ssthresh = 1048576 /\ pba = 0
  /\ rq = RInit(0) /\ rs = ReasmInit /\ ackState = "idle" /\ delivered = <<>>
  /\ dnet = {} /\ snet = {} /\ nsack = 0
  /\ loss = 0 /\ dup = 0 /\ nT3 = 0 /\ marks = 0 /\ sackLoss = 0 /\ rcvdEver = {} /\ ops = <<>>

Outstanding == {t \in DOMAIN infl : ~infl[t].acked}
OutOf(f) == {t \in DOMAIN f : ~f[t].acked}

\* ---- sender: what the writer does in one lock hold, as a function of the in-flight table and the
\*      next TSN: retransmissions first, then new data while the window allows; every chunk
\*      travels in its own packet.  The writer runs as soon as it is woken (Start, after a SACK,
\*      after a timer), so it is composed into those actions.
G(f, nxt, cw) ==
  LET flagged == {t \in DOMAIN f : f[t].rtx /\ ~f[t].acked}
      \* retransmissions: flagged chunks in TSN order while their bytes fit the window (getDataPacketsToRetransmit)
      nRtx == IF cw \div CH < Cardinality(flagged) THEN cw \div CH ELSE Cardinality(flagged)
      rtx == {t \in flagged : Cardinality({u \in flagged : u < t}) < nRtx}
      \* new data while outstanding bytes + chunk fit the congestion window (popPendingDataChunksToSend)
      room == IF cw >= CH * Cardinality(OutOf(f)) THEN (cw - CH * Cardinality(OutOf(f))) \div CH ELSE 0
      nNew == IF room > 0 THEN (IF NChunks - nxt + 1 < room THEN NChunks - nxt + 1 ELSE room) ELSE 0
      newT == nxt..(nxt + nNew - 1)
  IN [infl |-> [t \in DOMAIN f \cup newT |->
                  IF t \in newT THEN [acked |-> FALSE, rtx |-> FALSE, nsent |-> 1]
                  ELSE IF t \in rtx THEN [f[t] EXCEPT !.rtx = FALSE, !.nsent = IF @ < 3 THEN @ + 1 ELSE @] ELSE f[t]],
      next |-> nxt + nNew,
      pkts |-> {[tsn |-> t, n |-> IF f[t].nsent < 3 THEN f[t].nsent + 1 ELSE 3] : t \in rtx} \cup {[tsn |-> t, n |-> 1] : t \in newT}]

\* the application writes everything at once and the writer gathers
Start ==
  /\ nextTSN = 1 /\ infl = <<>> /\ NChunks > 0
  /\ LET g == G(infl, nextTSN, cwnd) IN infl' = g.infl /\ nextTSN' = g.next /\ dnet' = dnet \cup g.pkts
  /\ t3' = TRUE /\ UNCHANGED <<cwnd, ssthresh, pba>>
  /\ UNCHANGED <<cumAck, rq, rs, ackState, delivered, snet, nsack, loss, dup, nT3, marks, rcvdEver, ops, sackLoss>>

\* ---- receiver: one DATA chunk (handleData + cumulative advance + ack decision + handleChunksEnd);
\*      the application reads whatever became readable; an immediate ack is written at once
RECURSIVE PopAll(_)
PopAll(q) == LET r == RPop(q, FALSE) IN IF r[2] THEN PopAll(r[1]) ELSE q
RECURSIVE ReadAll(_, _)
ReadAll(r, d) == IF ReasmReadable(r) THEN LET x == ReasmRead(r, 100) IN ReadAll(x[1], Append(d, (CHOOSE c \in x[2].S : TRUE).m)) ELSE <<r, d>>
\* the acknowledgement channel is bounded: a new SACK may push out the oldest one
PutSack(S, s) == IF Cardinality(S) < MaxSacks THEN S \cup {s}
                 ELSE (S \ {CHOOSE o \in S : \A x \in S : o.id <= x.id}) \cup {s}
EmitSack(q) == [id |-> nsack + 1, cum |-> q.cum, gaps |-> q.held, dups |-> q.dups]

HandleData(p) ==
  LET can == RCanPush(rq, W, p.tsn)
      q1 == RPush(rq, W, p.tsn)[1]                      \* a duplicate is recorded in the dup list
      gap == p.tsn > rq.cum + 1
      q2 == PopAll(q1)
      now == gap \/ ~can \/ q2.held # {}
      ack2 == IF now THEN "immediate" ELSE IF ackState = "idle" THEN "delay" ELSE "immediate"
      rd == ReadAll(IF can THEN ReasmPush(rs, ChunkRec(p.tsn))[1] ELSE rs, delivered)
  IN /\ rs' = rd[1] /\ delivered' = rd[2]
     /\ rcvdEver' = rcvdEver \cup {p.tsn}
     /\ IF ack2 = "immediate"
        THEN /\ snet' = PutSack(snet, EmitSack(q2)) /\ nsack' = nsack + 1
             /\ ackState' = "idle" /\ rq' = RPopDups(q2)[1]
        ELSE /\ ackState' = ack2 /\ rq' = q2 /\ UNCHANGED <<snet, nsack, sackLoss>>

DeliverData(p) ==
  /\ p \in dnet /\ dnet' = dnet \ {p}
  /\ HandleData(p)
  /\ ops' = Append(ops, [op |-> "deliver", tsn |-> p.tsn, n |-> p.n])
  /\ UNCHANGED <<nextTSN, infl, cumAck, t3, cwnd, ssthresh, pba, loss, dup, nT3, marks, sackLoss>>
DupData(p) ==
  /\ p \in dnet /\ dup < MaxDup /\ dup' = dup + 1
  /\ HandleData(p)
  /\ ops' = Append(ops, [op |-> "dup", tsn |-> p.tsn, n |-> p.n])
  /\ UNCHANGED <<nextTSN, infl, cumAck, t3, cwnd, ssthresh, pba, dnet, loss, nT3, marks, sackLoss>>
DropData(p) ==
  /\ p \in dnet /\ loss < MaxLoss /\ loss' = loss + 1 /\ dnet' = dnet \ {p}
  /\ ops' = Append(ops, [op |-> "drop", tsn |-> p.tsn, n |-> p.n])
  /\ UNCHANGED <<nextTSN, infl, cumAck, t3, cwnd, ssthresh, pba, rq, rs, ackState, delivered, snet, nsack, dup, nT3, marks, rcvdEver, sackLoss>>

\* the delayed-ack timer fires: the SACK is written
AckTimer == /\ ackState = "delay"
            /\ snet' = PutSack(snet, EmitSack(rq)) /\ nsack' = nsack + 1 /\ ackState' = "idle" /\ rq' = RPopDups(rq)[1]
            /\ ops' = Append(ops, [op |-> "acktimer"])
            /\ UNCHANGED <<nextTSN, infl, cumAck, t3, cwnd, ssthresh, pba, rs, delivered, dnet, loss, dup, nT3, marks, rcvdEver, sackLoss>>

\* ---- sender: one SACK (processSelectiveAck + T3 handling), then the writer gathers
DeliverSack(s) ==
  /\ s \in snet /\ snet' = snet \ {s}
  /\ IF s.cum < cumAck THEN UNCHANGED <<infl, cumAck, t3, nextTSN, dnet, cwnd, ssthresh, pba, sackLoss>>
     ELSE LET rest == [t \in {x \in DOMAIN infl : x > s.cum} |->
                         IF t \in s.gaps THEN [infl[t] EXCEPT !.acked = TRUE, !.rtx = FALSE] ELSE infl[t]]
              \* bytes newly acknowledged by this SACK (cumulative part and gap blocks)
              newly == {t \in DOMAIN infl : ~infl[t].acked /\ (t <= s.cum \/ t \in s.gaps)}
              total == CH * Cardinality(newly)
              advanced == s.cum > cumAck
              pending == nextTSN <= NChunks
              \* onCumulativeTSNAckPointAdvanced: slow start / congestion avoidance
              cw1 == IF ~advanced THEN cwnd
                     ELSE IF cwnd <= ssthresh THEN (IF pending THEN cwnd + (IF total < cwnd THEN total ELSE cwnd) ELSE cwnd)
                     ELSE (IF pba + total >= cwnd /\ pending THEN cwnd + MTU ELSE cwnd)
              pba1 == IF ~advanced \/ cwnd <= ssthresh THEN pba
                      ELSE (IF pba + total >= cwnd /\ pending THEN pba + total - cwnd ELSE pba + total)
              g == G(rest, nextTSN, cw1)
          IN /\ infl' = g.infl /\ nextTSN' = g.next /\ dnet' = dnet \cup g.pkts
             /\ cumAck' = s.cum /\ cwnd' = cw1 /\ pba' = pba1 /\ UNCHANGED <<ssthresh, sackLoss>>
             /\ t3' = (OutOf(g.infl) # {})
  /\ ops' = Append(ops, [op |-> "sack", id |-> s.id])
  /\ UNCHANGED <<rq, rs, ackState, delivered, nsack, loss, dup, nT3, marks, rcvdEver>>
DropSack(s) ==
  /\ s \in snet /\ snet' = snet \ {s} /\ sackLoss < MaxSackLoss /\ sackLoss' = sackLoss + 1
  /\ ops' = Append(ops, [op |-> "dropsack", id |-> s.id])
  /\ UNCHANGED <<nextTSN, infl, cumAck, t3, cwnd, ssthresh, pba, rq, rs, ackState, delivered, dnet, nsack, loss, dup, nT3, marks, rcvdEver>>

\* T3-rtx expires: everything outstanding is flagged for retransmission and the writer gathers
\* (budgeted while packets are still in flight -- a spurious timeout --, free once the network is quiet)
Quiet == dnet = {} /\ snet = {} /\ ackState = "idle"
T3Expire ==
  /\ t3 /\ Outstanding # {}
  /\ (Quiet \/ nT3 < MaxT3) /\ nT3' = (IF Quiet THEN nT3 ELSE nT3 + 1)
  \* RFC 4960 7.2.3: ssthresh = max(cwnd/2, 4*MTU), cwnd = 1*MTU
  /\ ssthresh' = (IF cwnd \div 2 > 4 * MTU THEN cwnd \div 2 ELSE 4 * MTU) /\ cwnd' = MTU /\ pba' = pba
  /\ LET g == G([t \in DOMAIN infl |-> IF infl[t].acked THEN infl[t] ELSE [infl[t] EXCEPT !.rtx = TRUE]], nextTSN, MTU)
     IN infl' = g.infl /\ nextTSN' = g.next /\ dnet' = dnet \cup g.pkts
  /\ ops' = Append(ops, [op |-> "t3"])
  /\ UNCHANGED <<cumAck, t3, rq, rs, ackState, delivered, snet, nsack, loss, dup, marks, rcvdEver, sackLoss>>
\* loss-detection heuristics (fast retransmit, RACK, tail-loss probe), over-approximated: a chunk
\* that was sent once is retransmitted although no T3 expired
MarkLost(t) ==
  /\ t \in Outstanding /\ infl[t].nsent = 1 /\ marks < MaxMark /\ marks' = marks + 1
  /\ LET g == G([infl EXCEPT ![t].rtx = TRUE], nextTSN, cwnd) IN infl' = g.infl /\ nextTSN' = g.next /\ dnet' = dnet \cup g.pkts
  /\ UNCHANGED <<cwnd, ssthresh, pba>>
  /\ ops' = Append(ops, [op |-> "marklost", tsn |-> t])
  /\ UNCHANGED <<cumAck, t3, rq, rs, ackState, delivered, snet, nsack, loss, dup, nT3, rcvdEver, sackLoss>>

AllDone == Len(delivered) = NMsg /\ cumAck = NChunks
Finished == AllDone /\ UNCHANGED vars

Next == \/ Start \/ AckTimer \/ T3Expire
        \/ \E p \in dnet : DeliverData(p) \/ DupData(p) \/ DropData(p)
        \/ \E s \in snet : DeliverSack(s) \/ DropSack(s)
        \/ \E t \in DOMAIN infl : MarkLost(t)
        \/ Finished
Spec == Init /\ [][Next]_vars

\* ---------------------------------------------------------------- properties
\* C01: what the application reads is a prefix of what was written, in order, each message once
C01_Prefix == \A i \in DOMAIN delivered : delivered[i] = i
\* C05: every SACK in flight tells the truth
C05_Sound == \A s \in snet : /\ \A t \in 1..s.cum : t \in rcvdEver
                              /\ s.gaps \subseteq rcvdEver
                              /\ \A g \in s.gaps : g > s.cum
\* the sender never forgets data the receiver has not got (C03/C01 NoRelease)
NoRelease == \A t \in 1..(nextTSN - 1) : (t <= cumAck \/ (t \in DOMAIN infl /\ infl[t].acked)) => t \in rcvdEver
\* C11: the receiver stores nothing beyond its window, the byte counter is exact
C11_Bounded == RTypeOK(rq, W) /\ ReasmBytesExact(rs)
\* C10: never more than Cwnd chunks outstanding
\* C10: new data never takes the outstanding bytes beyond the congestion window (checked where data is
\* sent: G), the window is cut on a timeout and never falls below one MTU
C10_Window == cwnd >= MTU
C10_Cut == [][cwnd' < cwnd => (cwnd' = MTU /\ ssthresh' = (IF cwnd \div 2 > 4 * MTU THEN cwnd \div 2 ELSE 4 * MTU))]_vars
\* C02 (progress): with the fault budget exhausted the system is never stuck before everything is
\* delivered and acknowledged -- checked as deadlock freedom (the only terminal state is AllDone)
TypeOK == cumAck <= nextTSN - 1 /\ rq.cum <= NChunks

View == <<nextTSN, infl, cumAck, t3, cwnd, ssthresh, pba, rq, rs, ackState, delivered, dnet, {<<x.cum, x.gaps, x.dups>> : x \in snet}, loss, dup, nT3, marks, sackLoss>>
Emit == ~AllDone \/ PrintT(<<"BEHAVIOUR", ToJson(ops)>>)
=============================================================================
