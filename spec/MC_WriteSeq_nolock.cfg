SPECIFICATION Spec
CONSTANTS
 Writers = {1, 2}
 MaxCalls = 2
 UseLock = FALSE
INVARIANTS GaplessInv NoDuplicate
CHECK_DEADLOCK FALSE
