SPECIFICATION Spec
CONSTANT Scale = 8
CONSTRAINT HighWater
POSTCONDITION Accepted
CHECK_DEADLOCK FALSE
