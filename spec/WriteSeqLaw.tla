----------------------------- MODULE WriteSeqLaw -----------------------------
(***************************************************************************)
(* The law shared by the design model WriteSeq and the trace specification *)
(* WriteSeqTrace: `nums` maps each accepted message to the stream sequence *)
(* number it carries; the numbers are pairwise different and form an       *)
(* initial segment of the naturals.                                        *)
(***************************************************************************)
EXTENDS Integers, Sequences, FiniteSets
Gapless(nums) ==
  /\ \A a, b \in DOMAIN nums : nums[a] = nums[b] => a = b
  /\ {nums[a] : a \in DOMAIN nums} = 0 .. (Cardinality(DOMAIN nums) - 1)
=============================================================================
