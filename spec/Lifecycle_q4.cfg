SPECIFICATION Spec
CONSTANTS
 MaxPkts = 1
 T1Retries = 0
 Closers = {6,7}
 Aborters = {}
 Readers = {}
 defaultInitValue = defaultInitValue
INVARIANT LockOrder
PROPERTY TerminatesWhenClosed
CHECK_DEADLOCK FALSE
