SPECIFICATION Spec
CONSTANTS
 W = 2112
 Depth = 14
INVARIANTS TypeOK SackSound
PROPERTY CumMonotone
CONSTRAINT Emit
CHECK_DEADLOCK FALSE
