SPECIFICATION Spec
CONSTANT MaxBundle = 3
INVARIANTS Laws Malformed
CONSTRAINT Emit
CHECK_DEADLOCK FALSE
