----------------------------- MODULE ReasmTrace -----------------------------
(***************************************************************************)
(* Trace validation of the real reassemblyQueue against Reasm: each        *)
(* recorded operation is applied with Reasm's own operators; the recorded  *)
(* result, byte counter, readability and next-sequence cursor must be what *)
(* the specification computes.                                             *)
(***************************************************************************)
EXTENDS Reasm, TLC, Json, IOUtils
Trace == ndJsonDeserialize(IOEnv.VF_TRACE)
Pfx == IF "VF_MONPFX" \in DOMAIN IOEnv THEN IOEnv.VF_MONPFX ELSE "C11"

VARIABLES l, r, scen, wrap, viol, bad
vars == <<l, r, scen, wrap, viol, bad>>
E == Trace[l]
IsEv(n) == l <= Len(Trace) /\ Trace[l].ev = n
MaxI(a, b) == IF a >= b THEN a ELSE b

Init == l = 1 /\ r = ReasmInit /\ scen = "" /\ wrap = FALSE /\ viol = {} /\ bad = FALSE /\ TLCSet(1, 0)
TrInit == IsEv("rsinit") /\ r' = ReasmInit /\ scen' = E.label /\ wrap' = E.wrap /\ viol' = {} /\ bad' = FALSE /\ l' = l + 1

PartsOf(S, il) == IF il THEN [i \in 1..Cardinality(S) |-> LET c == CHOOSE x \in S : x.fi = i - 1 IN <<c.m, c.fi>>]
                  ELSE LET lo == Min({c.tsn : c \in S}) IN
                       [i \in 1..Cardinality(S) |-> LET c == CHOOSE x \in S : x.tsn = lo + i - 1 IN <<c.m, c.fi>>]

\* <<next state, name of the first mismatching field or "">>
Step(e) ==
  CASE e.op = "push" ->
         LET x == ReasmPush(r, e.arg) IN
         <<x[1], IF (e.res = "complete") # (x[2] = "complete") THEN "complete" ELSE "">>
    [] e.op = "read" ->
         LET x == ReasmRead(r, e.arg) k == x[2].kind IN
         <<x[1], IF e.res.kind # k THEN "readkind"
                 ELSE IF k # "none" /\ e.res.n # x[2].n THEN "readn"
                 ELSE IF k = "ok" /\ e.res.ppi # MsgPpi(r, x[2].S) THEN "readppi"
                 ELSE IF k = "ok" /\ e.res.parts # PartsOf(x[2].S, r.il) THEN "readparts"
                 ELSE "">>
    [] e.op = "forward" ->
         LET r1 == IF e.arg.ord >= 0 THEN ReasmFwdOrdered(r, e.arg.ord) ELSE r
             r2 == IF r.il THEN (IF e.arg.uno >= 0 THEN ReasmFwdUnorderedMID(r1, e.arg.uno) ELSE r1)
                   ELSE ReasmFwdUnordered(r1, e.arg.T)
         IN <<r2, "">>

TrOp == /\ IsEv("rs")
        /\ LET x == Step(E)
               m == IF x[2] # "" THEN x[2]
                    ELSE IF E.nb # x[1].nb THEN "nbytes"
                    ELSE IF E.readable # ReasmReadable(x[1]) THEN "readable"
                    ELSE IF E.next # x[1].next THEN "next" ELSE ""
           IN /\ r' = x[1]
              /\ viol' = IF m # "" /\ ~bad
                         THEN viol \cup {[mon |-> Pfx \o "_Reasm_" \o m, line |-> l, scen |-> scen,
                                          w |-> <<E.op, IF r.il THEN "idata" ELSE "data", IF wrap THEN "wrapbase" ELSE "plainbase">>]}
                         ELSE viol
              /\ bad' = (bad \/ m # "")
        /\ l' = l + 1 /\ UNCHANGED <<scen, wrap>>

TrEnd == /\ IsEv("rsend")
         /\ PrintT(<<"VFSCEN", scen, Cardinality(viol), l>>)
         /\ \A v \in viol : PrintT(<<"VFVIOL", ToJson(v)>>)
         /\ viol' = {} /\ l' = l + 1 /\ UNCHANGED <<r, scen, wrap, bad>>

Next == TrInit \/ TrOp \/ TrEnd
Spec == Init /\ [][Next]_vars
HighWater == TLCSet(1, MaxI(TLCGet(1), l))
Accepted == TLCGet(1) = Len(Trace) + 1
SpecBytesExact == ReasmBytesExact(r)
=============================================================================
