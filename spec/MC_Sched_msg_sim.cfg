SPECIFICATION Spec
CONSTANTS
 Scale = 4
 Mode = "msg"
 Depth = 24
 MaxQueued = 8
 Lens = {1, 2, 4}
 MaxFrag = 3
INVARIANTS RRFair WFQFair Counters
CONSTRAINT Emit
CHECK_DEADLOCK FALSE
