----------------------------- MODULE SchedTrace -----------------------------
(***************************************************************************)
(* Trace validation of the real pendingQueue (three policies) against      *)
(* Sched: every recorded push / peek / pop must return the chunk and the   *)
(* counters the specification computes.  The C17 fairness statements are   *)
(* evaluated by TLC along the way on the specification's own state.        *)
(***************************************************************************)
EXTENDS Sched, Json, IOUtils
Trace == ndJsonDeserialize(IOEnv.VF_TRACE)
VARIABLES l, s, scen, viol, bad, w, served
vars == <<l, s, scen, viol, bad, w, served>>
E == Trace[l]
IsEv(n) == l <= Len(Trace) /\ Trace[l].ev = n
AbsI(x) == IF x < 0 THEN -x ELSE x
V(mon, wit) == [mon |-> mon, line |-> l, scen |-> scen, w |-> wit]

Init == l = 1 /\ s = SchedInit("msg") /\ scen = "" /\ viol = {} /\ bad = FALSE /\ w = <<>> /\ served = <<>> /\ TLCSet(1, 0)
TrInit == /\ IsEv("sqinit") /\ s' = SchedInit(E.mode) /\ scen' = E.label /\ viol' = {} /\ bad' = FALSE
          /\ w' = E.weights /\ served' = <<>> /\ l' = l + 1

Both(st, p) == p[1] \in Backlogged(st) /\ p[2] \in Backlogged(st)
PairsOf(st) == {p \in Backlogged(st) \X Backlogged(st) : p[1] < p[2]}
Wt(sid) == IF ToString(sid) \in DOMAIN w THEN w[ToString(sid)] ELSE 1
Lmax == 8

Step(e) ==
  CASE e.op = "push" -> LET s2 == SchedPush(s, e.c, Wt(e.c.sid)) IN <<s2, "", [none |-> TRUE]>>
    [] e.op = "peek" -> LET pk == SchedPeek(s) id == IF pk[2] = NoChunk THEN 0 ELSE pk[2].id IN
                        <<pk[1], IF id # e.id THEN "peek" ELSE "", pk[2]>>
    [] e.op = "pop"  -> LET pk == SchedPeek(s) IN
                        IF pk[2] = NoChunk THEN <<s, "pop-empty", pk[2]>>
                        ELSE <<SchedPop(s), IF pk[2].id # e.id THEN "pop" ELSE "", pk[2]>>

TrOp == /\ IsEv("sq")
        /\ LET x == Step(E)
               m == IF "err" \in DOMAIN E /\ E.err # "" THEN "error" ELSE IF x[2] # "" THEN x[2]
                    ELSE IF E.nb # x[1].nb THEN "nbytes" ELSE IF E.nc # x[1].nc THEN "nchunks" ELSE ""
               c == x[3]
               \* service counters of continuously backlogged pairs (reset when a pair starts being backlogged)
               sv == [p \in PairsOf(x[1]) |->
                        LET old == IF p \in DOMAIN served /\ Both(s, p) THEN served[p] ELSE <<0, 0, 0, 0>> IN
                        IF E.op = "pop" /\ c # NoChunk /\ Both(s, p)
                        THEN IF c.sid = p[1] THEN <<old[1] + 1, old[2], old[3] + c.len * (Scale \div Wt(p[1])), old[4]>>
                             ELSE IF c.sid = p[2] THEN <<old[1], old[2] + 1, old[3], old[4] + c.len * (Scale \div Wt(p[2]))>> ELSE old
                        ELSE old]
               unfairRR == {p \in DOMAIN sv : s.mode = "rr" /\ AbsI(sv[p][1] - sv[p][2]) > 1}
               unfairWFQ == {p \in DOMAIN sv : s.mode = "wfq" /\ AbsI(sv[p][3] - sv[p][4]) > Lmax * (Scale \div Wt(p[1])) + Lmax * (Scale \div Wt(p[2]))}
           IN /\ s' = x[1] /\ served' = sv
              /\ viol' = viol \cup (IF m # "" /\ ~bad THEN {V("C17_Sched_" \o m, <<E.op, s.mode>>)} ELSE {})
                              \cup (IF unfairRR # {} /\ ~bad THEN {V("C17_RRFair", <<s.mode, CHOOSE p \in unfairRR : TRUE>>)} ELSE {})
                              \cup (IF unfairWFQ # {} /\ ~bad THEN {V("C17_WFQFair", <<s.mode, CHOOSE p \in unfairWFQ : TRUE>>)} ELSE {})
              /\ bad' = (bad \/ m # "" \/ unfairRR # {} \/ unfairWFQ # {})
        /\ l' = l + 1 /\ UNCHANGED <<scen, w>>

TrEnd == /\ IsEv("sqend")
         /\ PrintT(<<"VFSCEN", scen, Cardinality(viol), l>>)
         /\ \A v \in viol : PrintT(<<"VFVIOL", ToJson(v)>>)
         /\ viol' = {} /\ l' = l + 1 /\ UNCHANGED <<s, scen, bad, w, served>>
Next == TrInit \/ TrOp \/ TrEnd
Spec == Init /\ [][Next]_vars
HighWater == TLCSet(1, MaxI(TLCGet(1), l))
Accepted == TLCGet(1) = Len(Trace) + 1
=============================================================================
