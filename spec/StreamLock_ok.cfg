SPECIFICATION Spec
CONSTANTS
 Rounds = 2
 HoldStreamInClose = FALSE
 ReentrantRLock = FALSE
 CallbackUnderAssoc = FALSE
INVARIANTS NoDeadlock LockOrder Mutex
CHECK_DEADLOCK FALSE
