SPECIFICATION Spec
CONSTANTS
 Writers = {1, 2, 3}
 MaxCalls = 3
 Blocking = FALSE
 UseLock = TRUE
INVARIANTS GaplessInv NoDuplicate LockInv
CHECK_DEADLOCK FALSE
