------------------------------ MODULE MC_Serial ------------------------------
EXTENDS Serial
VARIABLE x
Init == x = 0
Next == x' = x
Spec == Init /\ [][Next]_x
Laws == Characterised /\ Trichotomy /\ Antisymmetric /\ ShiftInvariant
=============================================================================
