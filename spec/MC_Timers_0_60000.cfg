SPECIFICATION Spec
CONSTANTS
 MaxRetrans = 0
 RtoMax = 60000
 Depth = 9
INVARIANT Laws
VIEW View
CHECK_DEADLOCK FALSE
