----------------------------- MODULE SerialTrace -----------------------------
(***************************************************************************)
(* Trace validation of the real sna16 / sna32 functions: each recorded   *)
(* evaluation must agree with Serial's characterisation by the forward     *)
(* distance.  16-bit operands are used directly (M = 2^16); 32-bit         *)
(* operands arrive as 16-bit halves because TLC integers are 32-bit, and   *)
(* the forward distance is computed in halves.                             *)
(***************************************************************************)
EXTENDS Integers, Sequences, TLC, Json, IOUtils, FiniteSets
Trace == ndJsonDeserialize(IOEnv.VF_TRACE)
VARIABLES l, viol
vars == <<l, viol>>
E == Trace[l]
H == 65536
MaxI(a, b) == IF a >= b THEN a ELSE b
\* forward distance (b - a) mod 2^32 as <<hi, lo>>
DLo(e) == (e.blo - e.alo) % H
Borrow(e) == IF e.blo < e.alo THEN 1 ELSE 0
DHi(e) == (e.bhi - e.ahi - Borrow(e)) % H
Zero(e) == DHi(e) = 0 /\ DLo(e) = 0
ExpLT(e) == IF e.bits = 16 THEN ((e.b - e.a) % H) # 0 /\ ((e.b - e.a) % H) < 32768
            ELSE ~Zero(e) /\ DHi(e) < 32768
ExpGT(e) == IF e.bits = 16 THEN ((e.b - e.a) % H) # 0 /\ ((e.b - e.a) % H) >= 32768
            ELSE ~Zero(e) /\ DHi(e) >= 32768
ExpEQ(e) == IF e.bits = 16 THEN e.a = e.b ELSE Zero(e)
Bad(e) == IF e.lt # ExpLT(e) THEN "lt" ELSE IF e.gt # ExpGT(e) THEN "gt"
          ELSE IF e.lte # (ExpEQ(e) \/ ExpLT(e)) THEN "lte" ELSE IF e.gte # (ExpEQ(e) \/ ExpGT(e)) THEN "gte"
          ELSE IF e.eq # ExpEQ(e) THEN "eq" ELSE ""
Init == l = 1 /\ viol = {} /\ TLCSet(1, 0)
TrSna == /\ l <= Len(Trace) /\ E.ev = "sna"
         /\ viol' = IF Bad(E) # "" /\ Cardinality(viol) < 20
                    THEN viol \cup {[mon |-> "C16_Serial_" \o Bad(E), line |-> l, scen |-> "sna" \o ToString(E.bits), w |-> E]} ELSE viol
         /\ l' = l + 1
TrEnd == /\ l <= Len(Trace) /\ E.ev = "snaend"
         /\ PrintT(<<"VFSCEN", "sna", Cardinality(viol), l>>)
         /\ \A v \in viol : PrintT(<<"VFVIOL", ToJson(v)>>)
         /\ viol' = {} /\ l' = l + 1
Next == TrSna \/ TrEnd
Spec == Init /\ [][Next]_vars
HighWater == TLCSet(1, MaxI(TLCGet(1), l))
Accepted == TLCGet(1) = Len(Trace) + 1
=============================================================================
