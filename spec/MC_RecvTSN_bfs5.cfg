SPECIFICATION Spec
CONSTANTS
 W = 64
 Depth = 5
INVARIANTS TypeOK SackSound
PROPERTY CumMonotone
VIEW View
CHECK_DEADLOCK FALSE
