----------------------------- MODULE StreamLock -----------------------------
(***************************************************************************)
(* Lock hierarchy between the association lock, a stream's own lock and    *)
(* the stream's write lock (pion/sctp stream.go, association.go).          *)
(*                                                                         *)
(*   - the read loop holds the association lock `alock` for a whole        *)
(*     inbound packet and, inside it, calls into the stream (handleData,   *)
(*     handleForwardTSN..., onInboundStreamReset, unregisterStream), each  *)
(*     of which takes the stream lock `slock` for a moment:                *)
(*     order  alock -> slock;                                              *)
(*   - when a SACK released buffered bytes the read loop RELEASES `alock`, *)
(*     calls Stream.onBufferReleased (slock, released again before the     *)
(*     application's low-threshold callback runs) and re-takes `alock`;    *)
(*     the callback may call back into the API (Write);                    *)
(*   - Stream.Close takes `slock` for the state change, RELEASES it, and   *)
(*     only then calls sendResetRequest, which takes `alock`;              *)
(*   - Stream.WriteSCTP takes `wlock`, then `slock` briefly (packetize),   *)
(*     then `alock` (sendPayloadData), then on failure `slock` again,      *)
(*     then releases `wlock`;                                              *)
(*   - ReadSCTP / SetReliabilityParams / BufferedAmount / deadlines take   *)
(*     `slock` only.                                                       *)
(*                                                                         *)
(* C20 / C02: no interleaving of these deadlocks.  Negative controls (TLC  *)
(* must find the deadlock):                                                *)
(*     HoldStreamInClose  - Close keeps `slock` across sendResetRequest    *)
(*                          (order slock -> alock);                        *)
(*     CallbackUnderAssoc - the released-bytes callback runs with `alock`  *)
(*                          still held and writes.                         *)
(*     ReentrantRLock     - the write loop, which reads the stream's        *)
(*                          reliability parameters under the stream's READ   *)
(*                          lock (checkPartialReliabilityStatus), takes the  *)
(*                          read lock a second time inside: Go's RWMutex     *)
(*                          turns new readers away once a writer waits, so   *)
(*                          a setter arriving in between deadlocks both.     *)
(* Bound to the code by the real-time families lockapi-rt and setters-rt:  *)
(* (setters-rt: every setter / accessor of a stream hammered from several  *)
(* goroutines while the write loop sends on that stream)                   *)
(* lockapi-rt: the read loop is  *)
(* parked inside an inbound handler (under `alock`, before it enters the   *)
(* stream) while every public call on that stream is started; the only     *)
(* verdict is a certified lock cycle.                                      *)
(***************************************************************************)
EXTENDS Integers, FiniteSets, TLC

CONSTANTS Rounds,               \* invocations per goroutine
          HoldStreamInClose, CallbackUnderAssoc, ReentrantRLock

RL == 0      \* read loop
CL == 1      \* application: Stream.Close
WR == 2      \* application: Stream.WriteSCTP (send fails: the roll-back path is taken too)
RD == 3      \* application: ReadSCTP / accessors (stream lock only)
WL == 4      \* write loop: gathers a chunk of the stream, reading its parameters under the stream's read lock
ST == 5      \* application: a setter (SetReliabilityParams ...): stream WRITE lock, announced before it is granted
Procs == {RL, CL, WR, RD, WL, ST}

VARIABLES alock, slock, wlock,  \* holder or -1 (slock: holder of the stream's WRITE lock)
          srd,                  \* read holds on the stream lock (all by the write loop)
          swait,                \* a writer is waiting for the stream lock: new readers are turned away (sync.RWMutex)
          pc, n
vars == <<alock, slock, wlock, srd, swait, pc, n>>

Init == alock = -1 /\ slock = -1 /\ wlock = -1 /\ srd = 0 /\ swait = FALSE /\ pc = [p \in Procs |-> "idle"] /\ n = [p \in Procs |-> 0]

Go(p, from, to) == pc[p] = from /\ pc' = [pc EXCEPT ![p] = to]
Fin(p, from)    == pc[p] = from /\ pc' = [pc EXCEPT ![p] = "idle"] /\ n' = [n EXCEPT ![p] = @ + 1]

\* ---- read loop: one inbound packet with DATA for the stream and a SACK that releases bytes
RLLock    == Go(RL, "idle", "locked") /\ n[RL] < Rounds /\ alock = -1 /\ alock' = RL /\ UNCHANGED <<slock, wlock, srd, swait, n>>
RLStrIn   == Go(RL, "locked", "instream") /\ slock = -1 /\ srd = 0 /\ slock' = RL /\ UNCHANGED <<alock, wlock, srd, swait, n>>
RLStrOut  == Go(RL, "instream", "sack") /\ slock' = -1 /\ UNCHANGED <<alock, wlock, srd, swait, n>>
\* released bytes: unlock the association, enter the stream, leave it, run the callback, lock again
RLRelUnl  == Go(RL, "sack", "rel") /\ alock' = (IF CallbackUnderAssoc THEN alock ELSE -1) /\ UNCHANGED <<slock, wlock, srd, swait, n>>
RLRelIn   == Go(RL, "rel", "relin") /\ slock = -1 /\ srd = 0 /\ slock' = RL /\ UNCHANGED <<alock, wlock, srd, swait, n>>
RLRelOut  == Go(RL, "relin", "cb") /\ slock' = -1 /\ UNCHANGED <<alock, wlock, srd, swait, n>>
\* the application's callback writes: it needs the association lock (sendPayloadData)
RLCbWrite == Go(RL, "cb", "cbw") /\ alock = -1 /\ alock' = RL /\ UNCHANGED <<slock, wlock, srd, swait, n>>
RLCbDone  == Go(RL, "cbw", "relock") /\ alock' = -1 /\ UNCHANGED <<slock, wlock, srd, swait, n>>
RLRelock  == Go(RL, "relock", "tail") /\ alock = -1 /\ alock' = RL /\ UNCHANGED <<slock, wlock, srd, swait, n>>
RLUnlock  == Fin(RL, "tail") /\ alock' = -1 /\ UNCHANGED <<slock, wlock, srd, swait>>

\* ---- Stream.Close
CLIn      == Go(CL, "idle", "state") /\ n[CL] < Rounds /\ slock = -1 /\ srd = 0 /\ slock' = CL /\ UNCHANGED <<alock, wlock, srd, swait, n>>
CLOut     == Go(CL, "state", "reset") /\ slock' = (IF HoldStreamInClose THEN slock ELSE -1) /\ UNCHANGED <<alock, wlock, srd, swait, n>>
CLReset   == Go(CL, "reset", "inreset") /\ alock = -1 /\ alock' = CL /\ UNCHANGED <<slock, wlock, srd, swait, n>>
CLDone    == Fin(CL, "inreset") /\ alock' = -1 /\ slock' = (IF slock = CL THEN -1 ELSE slock) /\ UNCHANGED <<wlock, srd, swait>>

\* ---- Stream.WriteSCTP
WRLock    == Go(WR, "idle", "w") /\ n[WR] < Rounds /\ wlock = -1 /\ wlock' = WR /\ UNCHANGED <<alock, slock, srd, swait, n>>
WRPackIn  == Go(WR, "w", "pack") /\ slock = -1 /\ srd = 0 /\ slock' = WR /\ UNCHANGED <<alock, wlock, srd, swait, n>>
WRPackOut == Go(WR, "pack", "send") /\ slock' = -1 /\ UNCHANGED <<alock, wlock, srd, swait, n>>
WRSendIn  == Go(WR, "send", "insend") /\ alock = -1 /\ alock' = WR /\ UNCHANGED <<slock, wlock, srd, swait, n>>
WRSendOut == Go(WR, "insend", "roll") /\ alock' = -1 /\ UNCHANGED <<slock, wlock, srd, swait, n>>
WRRollIn  == Go(WR, "roll", "inroll") /\ slock = -1 /\ srd = 0 /\ slock' = WR /\ UNCHANGED <<alock, wlock, srd, swait, n>>
WRRollOut == Go(WR, "inroll", "wend") /\ slock' = -1 /\ UNCHANGED <<alock, wlock, srd, swait, n>>
WRUnlock  == Fin(WR, "wend") /\ wlock' = -1 /\ UNCHANGED <<alock, slock, srd, swait>>

\* ---- ReadSCTP / accessors
RDIn      == Go(RD, "idle", "r") /\ n[RD] < Rounds /\ slock = -1 /\ srd = 0 /\ slock' = RD /\ UNCHANGED <<alock, wlock, srd, swait, n>>
RDOut     == Fin(RD, "r") /\ slock' = -1 /\ UNCHANGED <<alock, wlock, srd, swait>>

\* ---- write loop: association lock; stream READ lock (once, or -- negative control -- twice); unlock
WLLock    == Go(WL, "idle", "g") /\ n[WL] < Rounds /\ alock = -1 /\ alock' = WL /\ UNCHANGED <<slock, wlock, srd, swait, n>>
WLRead1   == Go(WL, "g", "r1") /\ slock = -1 /\ ~swait /\ srd' = srd + 1 /\ UNCHANGED <<alock, slock, wlock, swait, n>>
WLRead2   == Go(WL, "r1", "r2") /\ (IF ReentrantRLock THEN slock = -1 /\ ~swait /\ srd' = srd + 1 ELSE srd' = srd)
             /\ UNCHANGED <<alock, slock, wlock, swait, n>>
WLReadOut == Go(WL, "r2", "gend") /\ srd' = 0 /\ UNCHANGED <<alock, slock, wlock, swait, n>>
WLUnlock  == Fin(WL, "gend") /\ alock' = -1 /\ UNCHANGED <<slock, wlock, srd, swait>>

\* ---- a setter: announces itself, is granted the write lock when nobody reads or writes
STRequest == Go(ST, "idle", "want") /\ n[ST] < Rounds /\ ~swait /\ swait' = TRUE /\ UNCHANGED <<alock, slock, wlock, srd, n>>
STAcquire == Go(ST, "want", "set") /\ slock = -1 /\ srd = 0 /\ slock' = ST /\ swait' = FALSE /\ UNCHANGED <<alock, wlock, srd, n>>
STRelease == Fin(ST, "set") /\ slock' = -1 /\ UNCHANGED <<alock, wlock, srd, swait>>

Next == WLLock \/ WLRead1 \/ WLRead2 \/ WLReadOut \/ WLUnlock \/ STRequest \/ STAcquire \/ STRelease
        \/ RLLock \/ RLStrIn \/ RLStrOut \/ RLRelUnl \/ RLRelIn \/ RLRelOut \/ RLCbWrite \/ RLCbDone \/ RLRelock \/ RLUnlock
        \/ CLIn \/ CLOut \/ CLReset \/ CLDone
        \/ WRLock \/ WRPackIn \/ WRPackOut \/ WRSendIn \/ WRSendOut \/ WRRollIn \/ WRRollOut \/ WRUnlock
        \/ RDIn \/ RDOut
Done == \A p \in Procs : pc[p] = "idle" /\ n[p] = Rounds
Spec == Init /\ [][Next]_vars

NoDeadlock == Done \/ ENABLED Next
\* the hierarchy: nobody who holds a stream lock waits for the association lock
LockOrder == \A p \in Procs : slock = p => pc[p] \notin {"reset", "send", "cb", "relock"}
Mutex == /\ (alock # -1 => pc[alock] \in {"locked", "instream", "sack", "rel", "relin", "cb", "cbw", "tail", "inreset", "insend", "g", "r1", "r2", "gend"})
         /\ (slock # -1 => pc[slock] \in {"instream", "relin", "state", "reset", "inreset", "pack", "inroll", "r", "set"} /\ srd = 0)
         /\ (wlock # -1 => pc[wlock] \in {"w", "pack", "send", "insend", "roll", "inroll", "wend"})
=============================================================================
