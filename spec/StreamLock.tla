----------------------------- MODULE StreamLock -----------------------------
(***************************************************************************)
(* Lock hierarchy between the association lock, a stream's own lock and    *)
(* the stream's write lock (pion/sctp stream.go, association.go).          *)
(*                                                                         *)
(*   - the read loop holds the association lock `alock` for a whole        *)
(*     inbound packet and, inside it, calls into the stream (handleData,   *)
(*     handleForwardTSN..., onInboundStreamReset, unregisterStream), each  *)
(*     of which takes the stream lock `slock` for a moment:                *)
(*     order  alock -> slock;                                              *)
(*   - when a SACK released buffered bytes the read loop RELEASES `alock`, *)
(*     calls Stream.onBufferReleased (slock, released again before the     *)
(*     application's low-threshold callback runs) and re-takes `alock`;    *)
(*     the callback may call back into the API (Write);                    *)
(*   - Stream.Close takes `slock` for the state change, RELEASES it, and   *)
(*     only then calls sendResetRequest, which takes `alock`;              *)
(*   - Stream.WriteSCTP takes `wlock`, then `slock` briefly (packetize),   *)
(*     then `alock` (sendPayloadData), then on failure `slock` again,      *)
(*     then releases `wlock`;                                              *)
(*   - ReadSCTP / SetReliabilityParams / BufferedAmount / deadlines take   *)
(*     `slock` only.                                                       *)
(*                                                                         *)
(* C20 / C02: no interleaving of these deadlocks.  Negative controls (TLC  *)
(* must find the deadlock):                                                *)
(*     HoldStreamInClose  - Close keeps `slock` across sendResetRequest    *)
(*                          (order slock -> alock);                        *)
(*     CallbackUnderAssoc - the released-bytes callback runs with `alock`  *)
(*                          still held and writes.                         *)
(* Bound to the code by the real-time family lockapi-rt: the read loop is  *)
(* parked inside an inbound handler (under `alock`, before it enters the   *)
(* stream) while every public call on that stream is started; the only     *)
(* verdict is a certified lock cycle.                                      *)
(***************************************************************************)
EXTENDS Integers, FiniteSets, TLC

CONSTANTS Rounds,               \* invocations per goroutine
          HoldStreamInClose, CallbackUnderAssoc

RL == 0      \* read loop
CL == 1      \* application: Stream.Close
WR == 2      \* application: Stream.WriteSCTP (send fails: the roll-back path is taken too)
RD == 3      \* application: ReadSCTP / accessors (stream lock only)
Procs == {RL, CL, WR, RD}

VARIABLES alock, slock, wlock,  \* holder or -1
          pc, n
vars == <<alock, slock, wlock, pc, n>>

Init == alock = -1 /\ slock = -1 /\ wlock = -1 /\ pc = [p \in Procs |-> "idle"] /\ n = [p \in Procs |-> 0]

Go(p, from, to) == pc[p] = from /\ pc' = [pc EXCEPT ![p] = to]
Fin(p, from)    == pc[p] = from /\ pc' = [pc EXCEPT ![p] = "idle"] /\ n' = [n EXCEPT ![p] = @ + 1]

\* ---- read loop: one inbound packet with DATA for the stream and a SACK that releases bytes
RLLock    == Go(RL, "idle", "locked") /\ n[RL] < Rounds /\ alock = -1 /\ alock' = RL /\ UNCHANGED <<slock, wlock, n>>
RLStrIn   == Go(RL, "locked", "instream") /\ slock = -1 /\ slock' = RL /\ UNCHANGED <<alock, wlock, n>>
RLStrOut  == Go(RL, "instream", "sack") /\ slock' = -1 /\ UNCHANGED <<alock, wlock, n>>
\* released bytes: unlock the association, enter the stream, leave it, run the callback, lock again
RLRelUnl  == Go(RL, "sack", "rel") /\ alock' = (IF CallbackUnderAssoc THEN alock ELSE -1) /\ UNCHANGED <<slock, wlock, n>>
RLRelIn   == Go(RL, "rel", "relin") /\ slock = -1 /\ slock' = RL /\ UNCHANGED <<alock, wlock, n>>
RLRelOut  == Go(RL, "relin", "cb") /\ slock' = -1 /\ UNCHANGED <<alock, wlock, n>>
\* the application's callback writes: it needs the association lock (sendPayloadData)
RLCbWrite == Go(RL, "cb", "cbw") /\ alock = -1 /\ alock' = RL /\ UNCHANGED <<slock, wlock, n>>
RLCbDone  == Go(RL, "cbw", "relock") /\ alock' = -1 /\ UNCHANGED <<slock, wlock, n>>
RLRelock  == Go(RL, "relock", "tail") /\ alock = -1 /\ alock' = RL /\ UNCHANGED <<slock, wlock, n>>
RLUnlock  == Fin(RL, "tail") /\ alock' = -1 /\ UNCHANGED <<slock, wlock>>

\* ---- Stream.Close
CLIn      == Go(CL, "idle", "state") /\ n[CL] < Rounds /\ slock = -1 /\ slock' = CL /\ UNCHANGED <<alock, wlock, n>>
CLOut     == Go(CL, "state", "reset") /\ slock' = (IF HoldStreamInClose THEN slock ELSE -1) /\ UNCHANGED <<alock, wlock, n>>
CLReset   == Go(CL, "reset", "inreset") /\ alock = -1 /\ alock' = CL /\ UNCHANGED <<slock, wlock, n>>
CLDone    == Fin(CL, "inreset") /\ alock' = -1 /\ slock' = (IF slock = CL THEN -1 ELSE slock) /\ UNCHANGED wlock

\* ---- Stream.WriteSCTP
WRLock    == Go(WR, "idle", "w") /\ n[WR] < Rounds /\ wlock = -1 /\ wlock' = WR /\ UNCHANGED <<alock, slock, n>>
WRPackIn  == Go(WR, "w", "pack") /\ slock = -1 /\ slock' = WR /\ UNCHANGED <<alock, wlock, n>>
WRPackOut == Go(WR, "pack", "send") /\ slock' = -1 /\ UNCHANGED <<alock, wlock, n>>
WRSendIn  == Go(WR, "send", "insend") /\ alock = -1 /\ alock' = WR /\ UNCHANGED <<slock, wlock, n>>
WRSendOut == Go(WR, "insend", "roll") /\ alock' = -1 /\ UNCHANGED <<slock, wlock, n>>
WRRollIn  == Go(WR, "roll", "inroll") /\ slock = -1 /\ slock' = WR /\ UNCHANGED <<alock, wlock, n>>
WRRollOut == Go(WR, "inroll", "wend") /\ slock' = -1 /\ UNCHANGED <<alock, wlock, n>>
WRUnlock  == Fin(WR, "wend") /\ wlock' = -1 /\ UNCHANGED <<alock, slock>>

\* ---- ReadSCTP / accessors
RDIn      == Go(RD, "idle", "r") /\ n[RD] < Rounds /\ slock = -1 /\ slock' = RD /\ UNCHANGED <<alock, wlock, n>>
RDOut     == Fin(RD, "r") /\ slock' = -1 /\ UNCHANGED <<alock, wlock>>

Next == RLLock \/ RLStrIn \/ RLStrOut \/ RLRelUnl \/ RLRelIn \/ RLRelOut \/ RLCbWrite \/ RLCbDone \/ RLRelock \/ RLUnlock
        \/ CLIn \/ CLOut \/ CLReset \/ CLDone
        \/ WRLock \/ WRPackIn \/ WRPackOut \/ WRSendIn \/ WRSendOut \/ WRRollIn \/ WRRollOut \/ WRUnlock
        \/ RDIn \/ RDOut
Done == \A p \in Procs : pc[p] = "idle" /\ n[p] = Rounds
Spec == Init /\ [][Next]_vars

NoDeadlock == Done \/ ENABLED Next
\* the hierarchy: nobody who holds a stream lock waits for the association lock
LockOrder == \A p \in Procs : slock = p => pc[p] \notin {"reset", "send", "cb", "relock"}
Mutex == /\ (alock # -1 => pc[alock] \in {"locked", "instream", "sack", "rel", "relin", "cb", "cbw", "tail", "inreset", "insend"})
         /\ (slock # -1 => pc[slock] \in {"instream", "relin", "state", "reset", "inreset", "pack", "inroll", "r"})
         /\ (wlock # -1 => pc[wlock] \in {"w", "pack", "send", "insend", "roll", "inroll", "wend"})
=============================================================================
