---------------------------- MODULE FramingTrace ----------------------------
(***************************************************************************)
(* Validation of the real encoder/decoder against Framing: for every       *)
(* concretised bundle the recorded packet length, chunk offsets and        *)
(* declared lengths (as seen by the harness's independent decoder) must be *)
(* what the specification computes, the real decoder must accept the real  *)
(* encoder's output, re-encoding must be stable, every chunk must mean     *)
(* inside the bundle what it means alone, and every length corruption the  *)
(* specification's Walk rejects must be rejected by the real decoder.      *)
(***************************************************************************)
EXTENDS Framing, IOUtils
Trace == ndJsonDeserialize(IOEnv.VF_TRACE)
VARIABLES l, scen, viol
vars == <<l, scen, viol>>
E == Trace[l]
IsEv(n) == l <= Len(Trace) /\ Trace[l].ev = n
MaxI(a, b) == IF a >= b THEN a ELSE b
V(mon, w) == [mon |-> mon, line |-> l, scen |-> scen, w |-> w]
Init == l = 1 /\ scen = "" /\ viol = {} /\ TLCSet(1, 0)
TrInit == IsEv("frinit") /\ scen' = E.label /\ viol' = {} /\ l' = l + 1

\* the model's view of a recorded packet: total length and declared lengths as the spec computed them
SpecWalk(e, dlens, total) == Walk(total, dlens, 12)
\* I-FORWARD-TSN field fidelity. What an I-FORWARD-TSN says is, per (stream, U bit), the serially newest message
\* identifier listed; entries of one key may be merged on the way out, but the keys and each key's newest MID must be
\* those the chunk was built from. MIDs are logged as signed distances from 2^32 - 1, so serial order is integer order.
RangeOf(s) == {s[i] : i \in DOMAIN s}
KeysOf(s) == {<<x[1], x[2]>> : x \in RangeOf(s)}
NewestOf(s, k) == LET S == {x[3] : x \in {y \in RangeOf(s) : y[1] = k[1] /\ y[2] = k[2]}} IN CHOOSE m \in S : \A x \in S : x <= m
IfwdSame(q) == KeysOf(q.built) = KeysOf(q.got) /\ \A k \in KeysOf(q.built) : NewestOf(q.built, k) = NewestOf(q.got, k)
IfwdViol(e) == IF "ifwd" \in DOMAIN e THEN {V("C12_FieldsAsBuilt", <<e.bundle, q.i, q.built, q.got>>) : q \in {r \in RangeOf(e.ifwd) : ~IfwdSame(r)}} ELSE {}
FrameViol(e) ==
  IF e.marshal # "ok" THEN {V("C12_Encodes", <<e.bundle, e.marshal>>)}
  ELSE
    IfwdViol(e) \cup
    (IF e.wf # <<>> THEN {V("C12_WellFormed", <<e.bundle, e.wf>>)} ELSE {})
    \cup (IF e.len # e.mlen \/ e.lens # e.mlens \/ e.offs # e.moffs THEN {V("C12_LayoutAsSpecified", <<e.bundle, e.len, e.mlen, e.lens, e.mlens>>)} ELSE {})
    \cup (IF e.ck # "ok" THEN {V("C13_EmitCorrect", <<e.bundle>>)} ELSE {})
    \cup (IF e.unmarshal # "ok" THEN {V("C12_DecodesOwnOutput", <<e.bundle, e.unmarshal>>)}
          ELSE (IF e.nchunks # Len(e.bundle) THEN {V("C12_ChunkCount", <<e.bundle, e.nchunks>>)} ELSE {})
               \cup (IF ~e.stable THEN {V("C12_ReencodeStable", <<e.bundle>>)} ELSE {})
               \cup (IF ~e.indep THEN {V("C12_BundleIndependence", <<e.bundle, IF "indepwhy" \in DOMAIN e THEN e.indepwhy ELSE "">>)} ELSE {})
               \* C03: corrupted declared lengths / truncations the specification rejects must be rejected
               \cup {V("C03_MalformedLengthRejected", <<e.bundle, m[1], m[2]>>) :
                       m \in {e.mal[i] : i \in {j \in DOMAIN e.mal :
                                e.mal[j][3] /\ SpecWalk(e, [q \in DOMAIN e.lens |-> IF q = e.mal[j][1] THEN e.mal[j][2] ELSE e.lens[q]], e.len) # "ok"}}}
               \cup {V("C03_TruncatedRejected", <<e.bundle, m[1]>>) :
                       m \in {e.trunc[i] : i \in {j \in DOMAIN e.trunc : e.trunc[j][2] /\ SpecWalk(e, e.lens, e.len - e.trunc[j][1]) # "ok"}}})
TrFrame == /\ IsEv("frame") /\ viol' = viol \cup FrameViol(E) /\ l' = l + 1 /\ UNCHANGED scen
TrEnd == /\ IsEv("frend")
         /\ PrintT(<<"VFSCEN", scen, Cardinality(viol), l>>)
         /\ \A v \in viol : PrintT(<<"VFVIOL", ToJson(v)>>)
         /\ viol' = {} /\ l' = l + 1 /\ UNCHANGED scen
Next == TrInit \/ TrFrame \/ TrEnd
Spec == Init /\ [][Next]_vars
HighWater == TLCSet(1, MaxI(TLCGet(1), l))
Accepted == TLCGet(1) = Len(Trace) + 1
=============================================================================
