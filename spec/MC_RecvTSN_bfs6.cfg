SPECIFICATION Spec
CONSTANTS
 W = 64
 Depth = 6
INVARIANTS TypeOK SackSound
PROPERTY CumMonotone
VIEW View
CHECK_DEADLOCK FALSE
