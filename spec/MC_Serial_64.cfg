SPECIFICATION Spec
CONSTANT M = 64
INVARIANT Laws
