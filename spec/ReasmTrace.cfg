SPECIFICATION Spec
CONSTRAINT HighWater
POSTCONDITION Accepted
INVARIANT SpecBytesExact
CHECK_DEADLOCK FALSE
