---------------------------- MODULE RecvTSNTrace ----------------------------
(***************************************************************************)
(* Trace validation of the real receivePayloadQueue against RecvTSN: every *)
(* recorded operation (name, argument relative to the initial TSN) is      *)
(* applied to the specification's state with RecvTSN's own operators and   *)
(* the recorded result and projected state must be what the specification  *)
(* computes.  A mismatch is recorded as a violation with the operation as  *)
(* witness; the walk continues from the RECORDED state... no: from the     *)
(* specification's state, so one defect yields one report per scenario.    *)
(***************************************************************************)
EXTENDS RecvTSN, TLC, Json, IOUtils
Trace == ndJsonDeserialize(IOEnv.VF_TRACE)
Pfx == IF "VF_MONPFX" \in DOMAIN IOEnv THEN IOEnv.VF_MONPFX ELSE "C05"

VARIABLES l, q, W, scen, wrapdist, viol, bad
vars == <<l, q, W, scen, wrapdist, viol, bad>>
E == Trace[l]
IsEv(n) == l <= Len(Trace) /\ Trace[l].ev = n
MaxI(a, b) == IF a >= b THEN a ELSE b

Init == l = 1 /\ q = RInit(0) /\ W = 64 /\ scen = "" /\ wrapdist = 0 /\ viol = {} /\ bad = FALSE /\ TLCSet(1, 0)

TrInit == /\ IsEv("rqinit")
          /\ q' = RInit(0) /\ W' = E.W /\ scen' = E.label /\ wrapdist' = E.wrapdist /\ viol' = {} /\ bad' = FALSE
          /\ l' = l + 1

\* expected outcome of the recorded operation according to the specification
Expect(e) ==
  CASE e.op = "push"    -> LET r == RPush(q, W, e.arg) IN [q |-> r[1], ret |-> r[2], dups |-> r[1].dups]
    [] e.op = "canpush" -> [q |-> q, ret |-> RCanPush(q, W, e.arg), dups |-> q.dups]
    [] e.op = "has"     -> [q |-> q, ret |-> RHas(q, e.arg), dups |-> q.dups]
    [] e.op = "pop"     -> LET r == RPop(q, e.arg = 1) IN [q |-> r[1], ret |-> r[2], dups |-> r[1].dups]
    [] e.op = "advance" -> [q |-> RAdvance(q, e.arg), ret |-> TRUE, dups |-> q.dups]
    [] e.op = "popdups" -> LET r == RPopDups(q) IN [q |-> r[1], ret |-> TRUE, dups |-> r[2]]

Mismatch(e, x) ==
  IF "panic" \in DOMAIN e THEN "panic"
  ELSE IF e.ret # x.ret THEN "ret"
  ELSE IF e.cum # x.q.cum THEN "cum"
  ELSE IF e.n # Cardinality(x.q.held) THEN "n"
  ELSE IF e.tail # RTail(x.q) THEN "tail"
  ELSE IF e.gaps # RGaps(x.q) THEN "gaps"
  ELSE IF e.dups # x.dups THEN "dups"
  ELSE ""

TrOp == /\ IsEv("rq")
        /\ LET x == Expect(E) m == Mismatch(E, x) IN
             /\ q' = x.q
             /\ viol' = IF m # "" /\ ~bad
                        THEN viol \cup {[mon |-> Pfx \o "_RecvTSN_" \o m, line |-> l, scen |-> scen,
                                         w |-> <<E.op, E.arg, W, IF wrapdist < 3 * W THEN "nearwrap" ELSE "far", q.cum>>]}
                        ELSE viol
             /\ bad' = (bad \/ m # "")
        /\ l' = l + 1 /\ UNCHANGED <<W, scen, wrapdist>>

TrEnd == /\ IsEv("rqend")
         /\ PrintT(<<"VFSCEN", scen, Cardinality(viol), l>>)
         /\ \A v \in viol : PrintT(<<"VFVIOL", ToJson(v)>>)
         /\ viol' = {} /\ l' = l + 1 /\ UNCHANGED <<q, W, scen, wrapdist, bad>>

Next == TrInit \/ TrOp \/ TrEnd
Spec == Init /\ [][Next]_vars
HighWater == TLCSet(1, MaxI(TLCGet(1), l))
Accepted == TLCGet(1) = Len(Trace) + 1
\* the specification's own state stays well-formed along every validated trace
SpecTypeOK == RTypeOK(q, W)
=============================================================================
