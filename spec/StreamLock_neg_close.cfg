SPECIFICATION Spec
CONSTANTS
 Rounds = 2
 HoldStreamInClose = TRUE
 CallbackUnderAssoc = FALSE
INVARIANTS NoDeadlock Mutex
CHECK_DEADLOCK FALSE
