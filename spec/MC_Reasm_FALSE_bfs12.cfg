SPECIFICATION Spec
CONSTANTS
 IL = FALSE
 Depth = 12
INVARIANTS BytesExact TypeOK NoSplice AtMostOnce OrderedInOrder
VIEW View
CHECK_DEADLOCK FALSE
