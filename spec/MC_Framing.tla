----------------------------- MODULE MC_Framing -----------------------------
(***************************************************************************)
(* Bounded universe for Framing: every bundle of <= MaxBundle chunks over  *)
(* the chunk variants below (kind + value length as the real encoder       *)
(* produces it for the variant), and every length malformation of them.    *)
(* TLC checks the laws and prints the bundles; the harness concretises     *)
(* each one with boundary field values and pushes it through the real      *)
(* marshal -> unmarshal -> marshal and through its own decoder.            *)
(***************************************************************************)
EXTENDS Framing
CONSTANTS MaxBundle
\* variant name -> value length produced by the encoder (see harness/vf_framing_test.go: same table)
Variants == [
  data1 |-> 13, data4 |-> 16, dataUBE |-> 15, idataB |-> 19, idataM |-> 17,
  sack0 |-> 12, sackGaps |-> 20, sackDups |-> 24,
  hb |-> 12, hbLong |-> 17, hback |-> 12,
  abort0 |-> 0, abortUser |-> 9, abortPV |-> 11, abort2 |-> 20,
  errUnrec |-> 12,
  shutdown |-> 4, shutdownAck |-> 0, shutdownComplete |-> 0,
  cookieEcho5 |-> 5, cookieEcho8 |-> 8, cookieAck |-> 0,
  reconfReq1 |-> 18, reconfReq0 |-> 16, reconfResp |-> 12, reconfBoth |-> 28,
  fwd0 |-> 4, fwd2 |-> 12, ifwd0 |-> 4, ifwd2 |-> 20, ifwdDup |-> 28 ]
Names == DOMAIN Variants
\* INIT / INIT-ACK travel alone (C12: INIT alone in its packet)
Single == [ init |-> 24, initZca |-> 32, initAck |-> 32, initAckZca |-> 40 ]

VARIABLES b, done
Chunk(nm) == [k |-> nm, vlen |-> Variants[nm]]
Init == b = <<>> /\ done = FALSE
Add(nm) == ~done /\ Len(b) < MaxBundle /\ b' = Append(b, Chunk(nm)) /\ done' = FALSE
Stop == ~done /\ b # <<>> /\ done' = TRUE /\ b' = b
Next == Stop \/ \E nm \in Names : Add(nm)
Spec == Init /\ [][Next]_<<b, done>>

Laws == RoundTrip(b) /\ Independent(b) /\ Aligned(b)
\* malformed variants of the finished bundle: each declared length replaced by one below the chunk header or reaching
\* beyond the packet end must be rejected, and so must a merely longer one for the last chunk. (A longer length for
\* an earlier chunk that happens to end exactly on the packet end swallows the later chunks and is structurally
\* well-formed: with three chunks <<sackGaps, data1, idataB>> and +44 on the first -- no law forbids it.)
Malformed == done => \A i \in DOMAIN b : \A d \in {0, 3, PacketLen(b)} \cup (IF i = Len(b) THEN {ChunkLen(b[i]) + 4 * (Len(b) + 8)} ELSE {}) :
               Walk(PacketLen(b), [j \in DOMAIN b |-> IF j = i THEN d ELSE ChunkLen(b[j])], 12) # "ok"
Emit == ~done \/ PrintT(<<"BEHAVIOUR", ToJson([bundle |-> [i \in DOMAIN b |-> b[i].k], len |-> PacketLen(b),
                                               offs |-> Offsets(b, 12), lens |-> [i \in DOMAIN b |-> ChunkLen(b[i])]])>>)
=============================================================================
