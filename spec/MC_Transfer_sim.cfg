SPECIFICATION Spec
CONSTANTS
 Shape = 1
 Frags <- MCFrags
 Cwnd = 4380
 W = 3
 MaxLoss = 2
 MaxDup = 1
 MaxT3 = 1
 MaxSacks = 2
 MaxMark = 0
 MaxSackLoss = 2
INVARIANTS C01_Prefix C05_Sound NoRelease C11_Bounded C10_Window TypeOK
CONSTRAINT Emit
CHECK_DEADLOCK FALSE
