SPECIFICATION Spec
CONSTANTS
 Rounds = 2
 HoldStreamInClose = FALSE
 ReentrantRLock = FALSE
 CallbackUnderAssoc = TRUE
INVARIANTS NoDeadlock Mutex
CHECK_DEADLOCK FALSE
