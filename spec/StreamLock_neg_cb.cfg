SPECIFICATION Spec
CONSTANTS
 Rounds = 2
 HoldStreamInClose = FALSE
 CallbackUnderAssoc = TRUE
INVARIANTS NoDeadlock Mutex
CHECK_DEADLOCK FALSE
