------------------------------- MODULE PrSctp -------------------------------
(***************************************************************************)
(* Engine specification, partial-reliability slice (RFC 3758 as implemented *)
(* in pion/sctp: checkPartialReliabilityStatus, the C1-C3 rules in          *)
(* finishAcknowledgement and on T3-rtx, createForwardTSN, handleForwardTSN; *)
(* DESIGN.md Appendix A.2-A.4).  One sender, one receiver, two ordered      *)
(* streams: stream 1 gives a message up after RL retransmissions, stream 2  *)
(* is fully reliable.  Msgs is the sequence of <<stream, fragments>> written *)
(* at the start; every chunk travels in its own packet and is sent at once. *)
(* DATA, SACK and FORWARD-TSN packets are lost within a budget and may be   *)
(* re-ordered freely.                                                       *)
(*                                                                          *)
(* SkipGapAcked = TRUE is a negative control (the Advanced.Peer.Ack.Point   *)
(* also steps over chunks that are merely gap-acked: seeded change C07c):   *)
(* TLC must find a reliable message destroyed.                              *)
(*                                                                          *)
(* Properties (C07, C06): a FORWARD-TSN only ever covers abandoned chunks   *)
(* and names only streams of abandoned messages; no fully reliable message  *)
(* is skipped at the receiver; a chunk of a limited message is transmitted  *)
(* at most RL + 1 times; each stream delivers in order.                     *)
(***************************************************************************)
EXTENDS Integers, Sequences, FiniteSets, TLC, Json

CONSTANTS Msgs,      \* sequence of <<sid, nfrag>>
          RL,        \* retransmission limit of stream 1
          MaxLoss, MaxT3, SkipGapAcked, Depth

NMsg == Len(Msgs)
RECURSIVE SumTo(_)
SumTo(i) == IF i = 0 THEN 0 ELSE Msgs[i][2] + SumTo(i - 1)
K == SumTo(NMsg)
MsgOf(t) == CHOOSE m \in 1..NMsg : SumTo(m - 1) < t /\ t <= SumTo(m)
Sid(m) == Msgs[m][1]
Ssn(m) == Cardinality({j \in 1..(m - 1) : Sid(j) = Sid(m)})      \* 0-based per stream
Chunks(m) == (SumTo(m - 1) + 1)..SumTo(m)
Limited(m) == Sid(m) = 1

VARIABLES nsent,     \* [tsn -> transmissions]
          acked,     \* set of TSNs acknowledged (cumulatively or in a gap block) as the sender knows
          cum,       \* sender's cumulative ack point
          apap,      \* Advanced.Peer.Ack.Point
          aband,     \* set of abandoned messages
          dnet, snet, fnet,   \* DATA [tsn, n], SACK [id, cum, gaps], FORWARD-TSN [id, newcum, skips]
          nsack, nfwd,
          got,       \* receiver: TSNs accepted (above rcum)
          rcum,      \* receiver's cumulative TSN (moved by data and by FORWARD-TSN)
          next,      \* [sid -> next expected SSN]
          delivered, \* sequence of message ids read
          skipped,   \* messages the receiver gave up on because of a FORWARD-TSN
          loss, nT3, ops
vars == <<nsent, acked, cum, apap, aband, dnet, snet, fnet, nsack, nfwd, got, rcum, next, delivered, skipped, loss, nT3, ops>>

Init ==
  /\ nsent = [t \in 1..K |-> 1] /\ acked = {} /\ cum = 0 /\ apap = 0 /\ aband = {}
  /\ dnet = {[tsn |-> t, n |-> 1] : t \in 1..K} /\ snet = {} /\ fnet = {} /\ nsack = 0 /\ nfwd = 0
  /\ got = {} /\ rcum = 0 /\ next = [s \in {1, 2} |-> 0] /\ delivered = <<>> /\ skipped = {}
  /\ loss = 0 /\ nT3 = 0 /\ ops = <<>>
Log(o) == ops' = Append(ops, o)

\* ---- sender helpers
AbandonedChunk(t, A) == MsgOf(t) \in A
RECURSIVE Advance(_, _, _)
Advance(p, A, AK) == IF p + 1 <= K /\ (AbandonedChunk(p + 1, A) \/ (SkipGapAcked /\ (p + 1) \in AK)) THEN Advance(p + 1, A, AK) ELSE p
\* C1-C3 + createForwardTSN: the new advanced point and the FORWARD-TSN to send (or none)
Fwd(c, p0, A, AK) ==
  LET p1 == Advance(IF p0 < c THEN c ELSE p0, A, AK)
      ms == {MsgOf(t) : t \in (c + 1)..p1}
      sk == {<<s, CHOOSE x \in {Ssn(m) : m \in {y \in ms : Sid(y) = s}} : \A z \in {Ssn(m) : m \in {y \in ms : Sid(y) = s}} : z <= x>> :
               s \in {Sid(m) : m \in ms}}
  IN [apap |-> p1, send |-> p1 > c, skips |-> sk]

\* ---- receiver helpers: deliver every complete in-order message
Have(t, G, rc) == t <= rc \/ t \in G
RECURSIVE Drain(_, _, _, _, _)
Drain(nx, dl, sk, G, rc) ==
  LET ready == {m \in 1..NMsg : m \notin sk /\ ~(\E i \in DOMAIN dl : dl[i] = m) /\ Ssn(m) = nx[Sid(m)]
                                /\ \A t \in Chunks(m) : t \in G}
  IN IF ready = {} THEN <<nx, dl>>
     ELSE LET m == CHOOSE x \in ready : TRUE IN Drain([nx EXCEPT ![Sid(m)] = @ + 1], Append(dl, m), sk, G, rc)
RECURSIVE CumUp(_, _)
CumUp(rc, G) == IF (rc + 1) \in G THEN CumUp(rc + 1, G) ELSE rc
Sack(rc, G) == [id |-> nsack + 1, cum |-> rc, gaps |-> {t \in G : t > rc}]

\* ---- actions
RecvData(p) ==
  /\ p \in dnet /\ dnet' = dnet \ {p}
  /\ LET fresh == p.tsn > rcum /\ p.tsn \notin got /\ MsgOf(p.tsn) \notin skipped
         G == IF fresh THEN got \cup {p.tsn} ELSE got
         rc == CumUp(rcum, G)
         d == Drain(next, delivered, skipped, G \cup 1..rc, rc)
     IN /\ got' = G /\ rcum' = rc /\ next' = d[1] /\ delivered' = d[2]
        /\ snet' = snet \cup {Sack(rc, G)} /\ nsack' = nsack + 1
  /\ Log([op |-> "deliver", tsn |-> p.tsn, n |-> p.n])
  /\ UNCHANGED <<nsent, acked, cum, apap, aband, fnet, nfwd, skipped, loss, nT3>>
DropData(p) ==
  /\ p \in dnet /\ loss < MaxLoss /\ dnet' = dnet \ {p} /\ loss' = loss + 1
  /\ Log([op |-> "drop", tsn |-> p.tsn, n |-> p.n])
  /\ UNCHANGED <<nsent, acked, cum, apap, aband, snet, fnet, nsack, nfwd, got, rcum, next, delivered, skipped, nT3>>
RecvSack(p) ==
  /\ p \in snet /\ snet' = snet \ {p}
  /\ LET c == IF p.cum > cum THEN p.cum ELSE cum
         AK == acked \cup 1..c \cup (IF p.cum >= cum THEN p.gaps ELSE {})
         f == Fwd(c, apap, aband, AK)
     IN /\ cum' = c /\ acked' = AK /\ apap' = f.apap
        /\ IF f.send THEN fnet' = fnet \cup {[id |-> nfwd + 1, newcum |-> f.apap, skips |-> f.skips, from |-> c]} /\ nfwd' = nfwd + 1
           ELSE UNCHANGED <<fnet, nfwd>>
  /\ Log([op |-> "sack", id |-> p.id])
  /\ UNCHANGED <<nsent, aband, dnet, nsack, got, rcum, next, delivered, skipped, loss, nT3>>
DropSack(p) ==
  /\ p \in snet /\ loss < MaxLoss /\ snet' = snet \ {p} /\ loss' = loss + 1
  /\ Log([op |-> "dropsack", id |-> p.id])
  /\ UNCHANGED <<nsent, acked, cum, apap, aband, dnet, fnet, nsack, nfwd, got, rcum, next, delivered, skipped, nT3>>
\* T3-rtx: every unacknowledged chunk is looked at: a limited one that has used its transmissions abandons its
\* message, the others are sent again; then the C1-C3 rules run
T3 ==
  /\ nT3 < MaxT3 /\ \E t \in 1..K : t \notin acked /\ ~AbandonedChunk(t, aband)
  /\ \A p \in dnet : FALSE                                   \* the timer outlives what is in flight
  /\ LET un == {t \in 1..K : t \notin acked /\ ~AbandonedChunk(t, aband)}
         giveup == {MsgOf(t) : t \in {u \in un : Limited(MsgOf(u)) /\ nsent[u] >= RL + 1}}
         A == aband \cup giveup
         rtx == {t \in un : MsgOf(t) \notin A}
         f == Fwd(cum, apap, A, acked)
     IN /\ aband' = A
        /\ nsent' = [t \in 1..K |-> IF t \in rtx THEN nsent[t] + 1 ELSE nsent[t]]
        /\ dnet' = dnet \cup {[tsn |-> t, n |-> nsent[t] + 1] : t \in rtx}
        /\ apap' = f.apap
        /\ IF f.send THEN fnet' = fnet \cup {[id |-> nfwd + 1, newcum |-> f.apap, skips |-> f.skips, from |-> cum]} /\ nfwd' = nfwd + 1
           ELSE UNCHANGED <<fnet, nfwd>>
  /\ nT3' = nT3 + 1
  /\ Log([op |-> "t3"])
  /\ UNCHANGED <<acked, cum, snet, nsack, got, rcum, next, delivered, skipped, loss>>
RecvFwd(p) ==
  /\ p \in fnet /\ fnet' = fnet \ {p}
  /\ LET rc0 == IF p.newcum > rcum THEN p.newcum ELSE rcum
         rc == CumUp(rc0, got)
         \* messages of the named streams up to the named SSN that were not delivered are given up
         sk == skipped \cup {m \in 1..NMsg : (\E e \in p.skips : e[1] = Sid(m) /\ Ssn(m) <= e[2]) /\ ~(\E i \in DOMAIN delivered : delivered[i] = m)}
         nx == [s \in {1, 2} |-> IF \E e \in p.skips : e[1] = s /\ e[2] + 1 > next[s]
                                 THEN (CHOOSE e \in p.skips : e[1] = s)[2] + 1 ELSE next[s]]
         d == Drain(nx, delivered, sk, got \cup 1..rc, rc)
     IN /\ IF p.newcum > rcum
           THEN rcum' = rc /\ skipped' = sk /\ next' = d[1] /\ delivered' = d[2]
           ELSE UNCHANGED <<rcum, skipped, next, delivered>>
        /\ snet' = snet \cup {Sack(IF p.newcum > rcum THEN rc ELSE rcum, got)} /\ nsack' = nsack + 1
  /\ Log([op |-> "fwd", id |-> p.id])
  /\ UNCHANGED <<nsent, acked, cum, apap, aband, dnet, nfwd, got, loss, nT3>>
DropFwd(p) ==
  /\ p \in fnet /\ loss < MaxLoss /\ fnet' = fnet \ {p} /\ loss' = loss + 1
  /\ Log([op |-> "dropfwd", id |-> p.id])
  /\ UNCHANGED <<nsent, acked, cum, apap, aband, dnet, snet, nsack, nfwd, got, rcum, next, delivered, skipped, nT3>>

Next == T3 \/ (\E p \in dnet : RecvData(p) \/ DropData(p)) \/ (\E p \in snet : RecvSack(p) \/ DropSack(p))
           \/ (\E p \in fnet : RecvFwd(p) \/ DropFwd(p))
Spec == Init /\ [][Next]_vars

\* ---- properties
NoReliableSkipped == \A m \in skipped : Limited(m)
\* negative control: print the counterexample's history so that it can be replayed on the code
NoReliableSkippedP == NoReliableSkipped \/ (PrintT(<<"BEHAVIOUR", ToJson(ops)>>) /\ FALSE)
FwdCoversOnlyAbandoned == \A p \in fnet : \A t \in (p.from + 1)..p.newcum : AbandonedChunk(t, aband)
FwdNamesOnlyAbandoned == \A p \in fnet : \A e \in p.skips : \E m \in aband : Sid(m) = e[1] /\ Ssn(m) = e[2]
RexmitCap == \A t \in 1..K : Limited(MsgOf(t)) => nsent[t] <= RL + 1
InOrder == \A i, j \in DOMAIN delivered : i < j /\ Sid(delivered[i]) = Sid(delivered[j]) => Ssn(delivered[i]) < Ssn(delivered[j])
OnlyAbandonedSkippedBySender == \A m \in aband : Limited(m)
TypeOK == cum <= K /\ rcum <= K /\ apap <= K
View == <<nsent, acked, cum, apap, aband, {[q EXCEPT !.n = 0] : q \in dnet}, {[q EXCEPT !.id = 0] : q \in snet}, {[q EXCEPT !.id = 0] : q \in fnet},
          got, rcum, next, delivered, skipped, loss, nT3>>
EmitCut == Len(ops) < Depth \/ (Len(ops) = Depth /\ PrintT(<<"BEHAVIOUR", ToJson(ops)>>) /\ FALSE)
=============================================================================
