-------------------------------- MODULE Reasm --------------------------------
(***************************************************************************)
(* Abstract specification of one stream's reassembly queue                 *)
(* (pion/sctp reassembly_queue.go): ordered / unordered, DATA / I-DATA,    *)
(* forward-TSN purges, reads (incl. short buffer) and the byte counter     *)
(* that feeds the advertised receiver window (C01, C06, C07, C11, C18).    *)
(*                                                                         *)
(* Sequence numbers (TSN, SSN, MID, FSN) are unbounded integers; the real  *)
(* structure must behave identically at every absolute base (C16).         *)
(*                                                                         *)
(* A chunk is a record [tsn, seq, fi, b, e, len, ppi, u, il, m]:           *)
(*   seq = SSN (DATA) or MID (I-DATA), fi = fragment index (= FSN),        *)
(*   m = identity of the message it belongs to (model/harness bookkeeping).*)
(* Precondition (guaranteed by the association through the received-TSN    *)
(* record): a TSN is pushed at most once; chunks come from a well-formed   *)
(* sender (fragments of a DATA message have consecutive TSNs).             *)
(*                                                                         *)
(* State: next  - next expected ordered SSN/MID                            *)
(*        ord   - stored ordered chunks                                    *)
(*        ulo   - stored unordered chunks not (yet) part of a complete msg *)
(*        uq    - complete unordered messages, in completion order         *)
(*        nb    - byte counter                                             *)
(*        il    - TRUE once an I-DATA chunk was pushed                     *)
(***************************************************************************)
EXTENDS Integers, Sequences, FiniteSets, FiniteSetsExt

ReasmInit == [next |-> 0, ord |-> {}, ulo |-> {}, uq |-> <<>>, nb |-> 0, il |-> FALSE]

SumLen(S) == MapThenSumSet(LAMBDA c : c.len, S)
ByKey(S, k) == {c \in S : c.seq = k}

\* DATA: the chunks of one SSN / one unordered run are complete when first..last TSN is gap-free, B first, E last
DataComplete(S) ==
  S # {} /\ LET lo == Min({c.tsn : c \in S}) hi == Max({c.tsn : c \in S}) IN
    /\ \A t \in lo..hi : \E c \in S : c.tsn = t
    /\ (CHOOSE c \in S : c.tsn = lo).b /\ (CHOOSE c \in S : c.tsn = hi).e
\* I-DATA: fragments 0..n gap-free, B first, E last
IDataComplete(S) ==
  S # {} /\ LET hi == Max({c.fi : c \in S}) IN
    /\ \A f \in 0..hi : \E c \in S : c.fi = f
    /\ (CHOOSE c \in S : c.fi = 0).b /\ (CHOOSE c \in S : c.fi = hi).e
Complete(r, S) == IF r.il THEN IDataComplete(S) ELSE DataComplete(S)

\* DATA unordered: the run of loose chunks around tsn t that forms a complete B..E message, or {}
RECURSIVE DownTo(_, _)
DownTo(S, t) == IF \E c \in S : c.tsn = t
                THEN LET c == CHOOSE x \in S : x.tsn = t IN IF c.b THEN {c} ELSE {c} \cup DownTo(S, t - 1)
                ELSE {}
RECURSIVE UpTo(_, _)
UpTo(S, t) == IF \E c \in S : c.tsn = t
              THEN LET c == CHOOSE x \in S : x.tsn = t IN IF c.e THEN {c} ELSE {c} \cup UpTo(S, t + 1)
              ELSE {}
RunAround(S, t) == LET R == DownTo(S, t) \cup UpTo(S, t) IN IF DataComplete(R) THEN R ELSE {}

\* ---- push: <<new state, "complete"/"stored"/"dropped">>
ReasmPush(r0, c) ==
  LET r == IF c.il THEN [r0 EXCEPT !.il = TRUE] ELSE r0 IN
  IF c.u THEN
    IF r.il THEN
      \* I-DATA unordered: dropped if a complete unread message with this MID is queued, or duplicate FSN
      IF (\E i \in DOMAIN r.uq : \E x \in r.uq[i] : x.seq = c.seq) \/ (\E x \in ByKey(r.ulo, c.seq) : x.fi = c.fi)
      THEN <<r, "dropped">>
      ELSE LET S == ByKey(r.ulo, c.seq) \cup {c} IN
           IF IDataComplete(S)
           THEN <<[r EXCEPT !.ulo = @ \ S, !.uq = Append(@, S), !.nb = @ + c.len], "complete">>
           ELSE <<[r EXCEPT !.ulo = @ \cup {c}, !.nb = @ + c.len], "stored">>
    ELSE
      LET L == r.ulo \cup {c} R == RunAround(L, c.tsn) IN
      IF R # {} THEN <<[r EXCEPT !.ulo = L \ R, !.uq = Append(@, R), !.nb = @ + c.len], "complete">>
      ELSE <<[r EXCEPT !.ulo = L, !.nb = @ + c.len], "stored">>
  ELSE
    IF c.seq < r.next THEN <<r, "dropped">>
    ELSE LET S == ByKey(r.ord, c.seq) IN
      IF (\E x \in S : x.tsn = c.tsn) \/ (r.il /\ ((\E x \in S : x.fi = c.fi) \/ IDataComplete(S)))
      THEN <<r, "dropped">>
      ELSE <<[r EXCEPT !.ord = @ \cup {c}, !.nb = @ + c.len],
             IF Complete(r, S \cup {c}) THEN "complete" ELSE "stored">>

\* ---- what a read would return: the complete unordered message queued first, else the ordered head
OrdHead(r) == IF r.ord = {} THEN {} ELSE ByKey(r.ord, Min({c.seq : c \in r.ord}))
OrdReadable(r) == LET H == OrdHead(r) IN H # {} /\ Complete(r, H) /\ (CHOOSE c \in H : TRUE).seq <= r.next
ReasmReadable(r) == r.uq # <<>> \/ OrdReadable(r)

MsgLen(S) == SumLen(S)
MsgPpi(r, S) == IF r.il THEN (CHOOSE c \in S : c.fi = 0).ppi ELSE (CHOOSE c \in S : c.tsn = Min({x.tsn : x \in S})).ppi

\* read into a buffer of size buf: <<new state, [kind, n, S]>>, kind in "none"/"short"/"ok"
ReasmRead(r, buf) ==
  IF r.uq # <<>> THEN
    LET S == Head(r.uq) IN
    IF MsgLen(S) > buf THEN <<r, [kind |-> "short", n |-> MsgLen(S), S |-> S]>>
    ELSE <<[r EXCEPT !.uq = Tail(@), !.nb = @ - MsgLen(S)], [kind |-> "ok", n |-> MsgLen(S), S |-> S]>>
  ELSE IF OrdReadable(r) THEN
    LET S == OrdHead(r) s == (CHOOSE c \in S : TRUE).seq IN
    IF MsgLen(S) > buf THEN <<r, [kind |-> "short", n |-> MsgLen(S), S |-> S]>>
    ELSE <<[r EXCEPT !.ord = @ \ S, !.nb = @ - MsgLen(S), !.next = IF s = @ THEN @ + 1 ELSE @],
           [kind |-> "ok", n |-> MsgLen(S), S |-> S]>>
  ELSE <<r, [kind |-> "none", n |-> 0, S |-> {}]>>

\* ---- forward-TSN purges
\* ordered (SSN or MID): incomplete messages at or below `last` are dropped, complete ones stay readable
ReasmFwdOrdered(r, last) ==
  LET dead == {c \in r.ord : c.seq <= last /\ ~Complete(r, ByKey(r.ord, c.seq))} IN
  [r EXCEPT !.ord = @ \ dead, !.nb = @ - SumLen(dead), !.next = IF @ <= last THEN last + 1 ELSE @]
\* unordered DATA: loose fragments at or below the new cumulative TSN are dropped
ReasmFwdUnordered(r, newCum) ==
  LET dead == {c \in r.ulo : c.tsn <= newCum} IN [r EXCEPT !.ulo = @ \ dead, !.nb = @ - SumLen(dead)]
\* unordered I-DATA: incomplete messages with MID at or below `last` are dropped
ReasmFwdUnorderedMID(r, last) ==
  LET dead == {c \in r.ulo : c.seq <= last} IN [r EXCEPT !.ulo = @ \ dead, !.nb = @ - SumLen(dead)]

\* ---- invariants of the abstract structure
ReasmStored(r) == r.ord \cup r.ulo \cup UNION {r.uq[i] : i \in DOMAIN r.uq}
ReasmBytesExact(r) == r.nb = SumLen(ReasmStored(r))          \* C11: counter = bytes reachable
ReasmTypeOK(r) == r.nb >= 0 /\ \A c \in r.ord : c.seq >= r.next \/ Complete(r, ByKey(r.ord, c.seq))
=============================================================================
