------------------------------ MODULE Reconfig ------------------------------
(***************************************************************************)
(* Engine specification, stream-reset slice (RFC 6525 as implemented in    *)
(* pion/sctp: Stream.Close / sendResetRequest, handleReconfigParam,        *)
(* resetStreamsIfAny, resetOutgoingStreamSequenceNumbers, reconfig timer;  *)
(* Appendix A.5 of DESIGN.md) for ONE stream identifier between endpoint 0  *)
(* (opens, writes, closes, re-opens the identifier) and endpoint 1 (reads; *)
(* closes its side when it sees end-of-file, as the data-channel layer     *)
(* does).  DATA is delivered reliably and in order (retransmission is the  *)
(* Transfer slice's business) but may lag behind RE-CONFIG packets;        *)
(* RE-CONFIG packets may be lost, duplicated and re-ordered within a       *)
(* budget; the reconfig timer re-sends the stored requests.                *)
(*                                                                         *)
(* DupDetect = FALSE / FixRenum = FALSE is the code as pinned (defects F21, *)
(* F22: TLC finds both, the counterexamples were replayed on the real      *)
(* code); both TRUE is the code after the two fix: commits and satisfies   *)
(* the invariants.  The FALSE configuration is kept as negative control.   *)
(*                                                                         *)
(* Properties (C14): EofOnlyAfterClose -- a reader's stream object gets    *)
(* end-of-file only for an incarnation its writer has closed;              *)
(* NoMidStreamRenumbering -- an open incarnation's sequence numbers are    *)
(* reset only when that incarnation was the one closed.                    *)
(***************************************************************************)
EXTENDS Integers, Sequences, FiniteSets, TLC, Json

CONSTANTS MaxInc,      \* incarnations endpoint 0 may open
          MaxWrites,   \* messages per incarnation
          MaxDrop, MaxFire,
          DupDetect,   \* retransmitted requests already performed are answered, not performed again (fix F21)
          FixRenum,    \* a 'performed' response only renumbers a stream that is no longer open (fix F22)
          Depth

EP == {0, 1}
Peer(e) == 1 - e

VARIABLES reg,      \* [e -> BOOLEAN] stream object registered in a.streams
          inc,      \* [e -> Nat] ghost: incarnation (of endpoint 0's opens) the object belongs to
          sst,      \* [e -> "none"/"open"/"closing"/"closed"] state of the object the application holds
          eof,      \* [e -> BOOLEAN] read error EOF set on that object
          seq,      \* next outgoing SSN/MID of endpoint 0's object
          nopen, nwr,               \* incarnations opened, messages written in the current one
          tsn,      \* next TSN of endpoint 0 (endpoint 1 sends no data: its last TSN is 0)
          cum,      \* endpoint 1's cumulative TSN (peerLastTSN); data in flight = cum+1 .. tsn-1
          dataInc,  \* [tsn -> incarnation] ghost
          own,      \* [e -> set of [rsn, last, ginc]] own outstanding requests (a.reconfigs)
          nextRsn,  \* [e -> Nat]
          timer,    \* [e -> BOOLEAN] reconfig timer running
          stored,   \* [e -> set of requests kept "in progress"] (a.reconfigRequests)
          lastDone, \* [e -> highest request sequence number performed, -1] (only used when DupDetect)
          net,      \* RE-CONFIG packets in flight: [from, k, rsn, last, ginc, res, n]
          sent,     \* [e -> [k -> count]] ordinals for content-keyed replay
          closedIncs,               \* ghost: incarnations endpoint 0 has closed
          eofs,     \* ghost: set of [e, inc, legit]
          renum,    \* ghost: set of [inc, legit] sequence-number resets of endpoint 0's object
          drops, fires, ops
vars == <<reg, inc, sst, eof, seq, nopen, nwr, tsn, cum, dataInc, own, nextRsn, timer, stored, lastDone, net, sent,
          closedIncs, eofs, renum, drops, fires, ops>>

Init ==
  /\ reg = [e \in EP |-> FALSE] /\ inc = [e \in EP |-> 0] /\ sst = [e \in EP |-> "none"] /\ eof = [e \in EP |-> FALSE]
  /\ seq = 0 /\ nopen = 0 /\ nwr = 0 /\ tsn = 1 /\ cum = 0 /\ dataInc = <<>>
  /\ own = [e \in EP |-> {}] /\ nextRsn = [e \in EP |-> 1] /\ timer = [e \in EP |-> FALSE]
  /\ stored = [e \in EP |-> {}] /\ lastDone = [e \in EP |-> 0]
  /\ net = {} /\ sent = [e \in EP |-> [k \in {"req", "resp"} |-> 0]]
  /\ closedIncs = [e \in EP |-> {}] /\ eofs = {} /\ renum = {} /\ drops = 0 /\ fires = 0 /\ ops = <<>>

Log(o) == ops' = Append(ops, o)
Pkt(e, k, rsn, last, ginc, res) == [from |-> e, k |-> k, rsn |-> rsn, last |-> last, ginc |-> ginc, res |-> res, n |-> sent[e][k] + 1]

\* ---- API of endpoint 0
Open0 ==
  /\ ~reg[0] /\ nopen < MaxInc /\ sst[0] \in {"none", "closed"}
  /\ reg' = [reg EXCEPT ![0] = TRUE] /\ nopen' = nopen + 1 /\ inc' = [inc EXCEPT ![0] = nopen + 1]
  /\ sst' = [sst EXCEPT ![0] = "open"] /\ eof' = [eof EXCEPT ![0] = FALSE] /\ seq' = 0 /\ nwr' = 0
  /\ Log([op |-> "open"])
  /\ UNCHANGED <<tsn, cum, dataInc, own, nextRsn, timer, stored, lastDone, net, sent, closedIncs, eofs, renum, drops, fires>>
Write0 ==
  /\ reg[0] /\ sst[0] = "open" /\ nwr < MaxWrites
  /\ dataInc' = (tsn :> inc[0]) @@ dataInc /\ tsn' = tsn + 1 /\ seq' = seq + 1 /\ nwr' = nwr + 1
  /\ Log([op |-> "write"])
  /\ UNCHANGED <<reg, inc, sst, eof, nopen, cum, own, nextRsn, timer, stored, lastDone, net, sent, closedIncs, eofs, renum, drops, fires>>
\* Stream.Close: open => closing (closed if EOF was already seen); the reset request leaves after the data queued before it
Close(e) ==
  /\ sst[e] = "open" /\ (e = 1 => eof[1])            \* the reader closes only after it has seen EOF
  /\ sst' = [sst EXCEPT ![e] = IF eof[e] THEN "closed" ELSE "closing"]
  /\ LET r == [rsn |-> nextRsn[e], last |-> IF e = 0 THEN tsn - 1 ELSE 0, ginc |-> inc[e]] IN
       /\ own' = [own EXCEPT ![e] = @ \cup {r}]
       /\ net' = net \cup {Pkt(e, "req", r.rsn, r.last, r.ginc, "")}
  /\ sent' = [sent EXCEPT ![e]["req"] = @ + 1]
  /\ nextRsn' = [nextRsn EXCEPT ![e] = @ + 1] /\ timer' = [timer EXCEPT ![e] = TRUE]
  /\ closedIncs' = [closedIncs EXCEPT ![e] = @ \cup {inc[e]}]
  /\ Log([op |-> "close", e |-> e])
  /\ UNCHANGED <<reg, inc, eof, seq, nopen, nwr, tsn, cum, dataInc, stored, lastDone, eofs, renum, drops, fires>>

\* ---- inbound reset at endpoint e for request r: the registered object (if any) gets EOF and is unregistered
Perform(e, r, R, EO, ST, EF) ==   \* returns the new <<reg, eofs, sst, eof>> for endpoint e
  IF R[e]
  THEN <<[R EXCEPT ![e] = FALSE],
         EO \cup {[e |-> e, inc |-> inc[e], legit |-> inc[e] \in closedIncs[Peer(e)] /\ r.ginc = inc[e]]},
         [ST EXCEPT ![e] = IF @ = "closing" THEN "closed" ELSE @],
         [EF EXCEPT ![e] = TRUE]>>
  ELSE <<R, EO, ST, EF>>

Ready(e, r) == r.last <= (IF e = 1 THEN cum ELSE 0)

\* handleReconfigParam(OutgoingResetRequest) + resetStreamsIfAny
RecvReq(p) ==
  LET e == Peer(p.from)
      r == [rsn |-> p.rsn, last |-> p.last, ginc |-> p.ginc]
      old == DupDetect /\ p.rsn <= lastDone[e]
  IN
  /\ p \in net /\ p.k = "req"
  /\ net' = (net \ {p}) \cup {Pkt(e, "resp", p.rsn, 0, 0, IF old \/ Ready(e, r) THEN "performed" ELSE "inprogress")}
  /\ sent' = [sent EXCEPT ![e]["resp"] = @ + 1]
  /\ IF old
     THEN UNCHANGED <<reg, eofs, sst, eof, stored, lastDone>>
     ELSE IF Ready(e, r)
          THEN LET x == Perform(e, r, reg, eofs, sst, eof) IN
                 /\ reg' = x[1] /\ eofs' = x[2] /\ sst' = x[3] /\ eof' = x[4]
                 /\ stored' = [stored EXCEPT ![e] = {s \in @ : s.rsn # r.rsn}]
                 /\ lastDone' = [lastDone EXCEPT ![e] = IF p.rsn > @ THEN p.rsn ELSE @]
          ELSE /\ stored' = [stored EXCEPT ![e] = {s \in @ : s.rsn # r.rsn} \cup {r}]
               /\ UNCHANGED <<reg, eofs, sst, eof, lastDone>>
  /\ Log([op |-> "deliver", from |-> p.from, k |-> "req", n |-> p.n])
  /\ UNCHANGED <<inc, seq, nopen, nwr, tsn, cum, dataInc, own, nextRsn, timer, closedIncs, renum, drops, fires>>

\* handleReconfigParam(ReconfigResponse)
RecvResp(p) ==
  LET e == Peer(p.from)
      mine == {r \in own[e] : r.rsn = p.rsn}
  IN
  /\ p \in net /\ p.k = "resp"
  /\ net' = net \ {p}
  /\ IF p.res = "inprogress"
     THEN UNCHANGED <<own, timer, seq, renum>>       \* the timer is restarted: still running
     ELSE /\ own' = [own EXCEPT ![e] = @ \ mine]
          /\ timer' = [timer EXCEPT ![e] = (own[e] \ mine) # {}]
          \* resetOutgoingStreamSequenceNumbers: the stream CURRENTLY registered under the identifier
          /\ IF e = 0 /\ mine # {} /\ reg[0] /\ (FixRenum => sst[0] # "open")
             THEN /\ seq' = 0
                  /\ renum' = renum \cup {[inc |-> inc[0], legit |-> (CHOOSE r \in mine : TRUE).ginc = inc[0] \/ seq = 0 \/ sst[0] # "open"]}
             ELSE UNCHANGED <<seq, renum>>
  /\ Log([op |-> "deliver", from |-> p.from, k |-> "resp", n |-> p.n])
  /\ UNCHANGED <<reg, inc, sst, eof, nopen, nwr, tsn, cum, dataInc, nextRsn, stored, lastDone, sent, closedIncs, eofs, drops, fires>>

\* DATA tsn = cum + 1 reaches endpoint 1: getOrCreateStream, then stored requests are re-evaluated
RecvData ==
  /\ cum + 1 < tsn
  /\ LET t == cum + 1
         R0 == [reg EXCEPT ![1] = TRUE]
         created == ~reg[1]
         inc1 == IF created THEN [inc EXCEPT ![1] = dataInc[t]] ELSE inc
         sst1 == IF created THEN [sst EXCEPT ![1] = "open"] ELSE sst
         eof1 == IF created THEN [eof EXCEPT ![1] = FALSE] ELSE eof
         ready == {r \in stored[1] : r.last <= t}
     IN /\ cum' = t
        /\ inc' = inc1
        /\ IF ready = {}
           THEN /\ reg' = R0 /\ sst' = sst1 /\ eof' = eof1 /\ UNCHANGED <<eofs, stored, net, sent, lastDone>>
           ELSE LET r == CHOOSE x \in ready : \A y \in ready : x.rsn <= y.rsn IN
                  /\ reg' = [R0 EXCEPT ![1] = FALSE]
                  /\ eofs' = eofs \cup {[e |-> 1, inc |-> inc1[1], legit |-> inc1[1] \in closedIncs[0] /\ r.ginc = inc1[1]]}
                  /\ sst' = [sst1 EXCEPT ![1] = IF @ = "closing" THEN "closed" ELSE @]
                  /\ eof' = [eof1 EXCEPT ![1] = TRUE]
                  /\ stored' = [stored EXCEPT ![1] = @ \ {r}]
                  /\ lastDone' = [lastDone EXCEPT ![1] = IF r.rsn > @ THEN r.rsn ELSE @]
                  /\ net' = net \cup {Pkt(1, "resp", r.rsn, 0, 0, "performed")}
                  /\ sent' = [sent EXCEPT ![1]["resp"] = @ + 1]
  /\ Log([op |-> "data"])
  /\ UNCHANGED <<seq, nopen, nwr, tsn, dataInc, own, nextRsn, timer, closedIncs, renum, drops, fires>>

\* reconfig timer expiry: every stored own request is sent again
Fire(e) ==
  /\ timer[e] /\ own[e] # {} /\ fires < MaxFire
  /\ \A p \in net : ~(p.from = e /\ p.k = "req")                    \* the timer outlives the packets in flight
  /\ LET r == CHOOSE x \in own[e] : \A y \in own[e] : x.rsn <= y.rsn IN
       net' = net \cup {Pkt(e, "req", r.rsn, r.last, r.ginc, "")}
  /\ sent' = [sent EXCEPT ![e]["req"] = @ + 1]
  /\ fires' = fires + 1
  /\ Log([op |-> "fire", e |-> e])
  /\ UNCHANGED <<reg, inc, sst, eof, seq, nopen, nwr, tsn, cum, dataInc, own, nextRsn, timer, stored, lastDone, closedIncs, eofs, renum, drops>>

Drop(p) == /\ p \in net /\ drops < MaxDrop /\ net' = net \ {p} /\ drops' = drops + 1
           /\ Log([op |-> "drop", from |-> p.from, k |-> p.k, n |-> p.n])
           /\ UNCHANGED <<reg, inc, sst, eof, seq, nopen, nwr, tsn, cum, dataInc, own, nextRsn, timer, stored, lastDone, sent, closedIncs, eofs, renum, fires>>
Next == Open0 \/ Write0 \/ Close(0) \/ Close(1) \/ RecvData \/ Fire(0) \/ Fire(1)
        \/ \E p \in net : RecvReq(p) \/ RecvResp(p) \/ Drop(p)
Spec == Init /\ [][Next]_vars

\* ---- properties
EofOnlyAfterClose == \A x \in eofs : x.legit
NoMidStreamRenumbering == \A x \in renum : x.legit
\* negative controls: print the counterexample's environment history as JSON so that it can be replayed on the code
EofOnlyAfterCloseP == EofOnlyAfterClose \/ (PrintT(<<"BEHAVIOUR", ToJson(ops)>>) /\ FALSE)
NoMidStreamRenumberingP == NoMidStreamRenumbering \/ (PrintT(<<"BEHAVIOUR", ToJson(ops)>>) /\ FALSE)
TypeOK == /\ cum < tsn /\ seq >= 0 /\ \A e \in EP : reg[e] \in BOOLEAN

View == <<reg, inc, sst, eof, seq, nopen, nwr, tsn, cum, own, nextRsn, timer, stored, lastDone,
          {[q EXCEPT !.n = 0] : q \in net}, closedIncs, eofs, renum, drops, fires>>
Emit == Len(ops) < Depth \/ PrintT(<<"BEHAVIOUR", ToJson(ops)>>)
\* breadth-first export: one history per distinct state (under View) first reached at exactly Depth steps
EmitCut == Len(ops) < Depth \/ (Len(ops) = Depth /\ PrintT(<<"BEHAVIOUR", ToJson(ops)>>) /\ FALSE)
=============================================================================
