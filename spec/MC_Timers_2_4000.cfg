SPECIFICATION Spec
CONSTANTS
 MaxRetrans = 2
 RtoMax = 4000
 Depth = 9
INVARIANT Laws
VIEW View
CHECK_DEADLOCK FALSE
