SPECIFICATION Spec
CONSTANTS
 Small = TRUE
 Msgs <- MCMsgs
 RL = 1
 MaxLoss = 2
 MaxT3 = 2
 SkipGapAcked = FALSE
 Depth = 99
INVARIANTS TypeOK NoReliableSkipped FwdCoversOnlyAbandoned FwdNamesOnlyAbandoned RexmitCap InOrder OnlyAbandonedSkippedBySender

VIEW View
CHECK_DEADLOCK FALSE
