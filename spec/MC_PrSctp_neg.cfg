SPECIFICATION Spec
CONSTANTS
 Msgs <- MCMsgs
 RL = 0
 MaxLoss = 2
 MaxT3 = 2
 SkipGapAcked = TRUE
 Depth = 99
INVARIANTS TypeOK NoReliableSkipped

VIEW View
CHECK_DEADLOCK FALSE
