SPECIFICATION Spec
CONSTANTS
 Scale = 4
 Mode = "wfq"
 Depth = 6
 MaxQueued = 5
 Lens = {1, 4}
 MaxFrag = 2
INVARIANTS RRFair WFQFair Counters
VIEW View
CHECK_DEADLOCK FALSE
