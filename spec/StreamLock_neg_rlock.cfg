SPECIFICATION Spec
CONSTANTS
 Rounds = 2
 HoldStreamInClose = FALSE
 ReentrantRLock = TRUE
 CallbackUnderAssoc = FALSE
INVARIANTS NoDeadlock Mutex
CHECK_DEADLOCK FALSE
