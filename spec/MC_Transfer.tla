----------------------------- MODULE MC_Transfer -----------------------------
EXTENDS Transfer
CONSTANT Shape
\* message shapes (fragments per message)
MCFrags == CASE Shape = 1 -> <<1, 2, 1>>          \* 4 chunks
             [] Shape = 2 -> <<2, 1, 1, 1>>       \* 5 chunks
             [] Shape = 3 -> <<1, 1, 3, 1>>       \* 6 chunks
             [] OTHER -> <<1, 1>>
=============================================================================
