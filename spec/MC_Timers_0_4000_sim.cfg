SPECIFICATION Spec
CONSTANTS
 MaxRetrans = 0
 RtoMax = 4000
 Depth = 14
INVARIANT Laws
CONSTRAINT Emit
CHECK_DEADLOCK FALSE
