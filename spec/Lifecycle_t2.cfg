SPECIFICATION Spec
CONSTANTS
 MaxPkts = 2
 T1Retries = 1
 Closers = {6,7}
 Aborters = {}
 Readers = {5}
 defaultInitValue = defaultInitValue
INVARIANT LockOrder
PROPERTY TerminatesWhenClosed
CHECK_DEADLOCK FALSE
