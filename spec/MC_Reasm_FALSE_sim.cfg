SPECIFICATION Spec
CONSTANTS
 IL = FALSE
 Depth = 16
INVARIANTS BytesExact TypeOK NoSplice AtMostOnce OrderedInOrder
CONSTRAINT Emit
CHECK_DEADLOCK FALSE
