------------------------------ MODULE MC_Reasm ------------------------------
(***************************************************************************)
(* Bounded model of Reasm over a small well-formed universe of messages:   *)
(* all arrival orders, reads (short and large buffers) and forward-TSN     *)
(* purges at any step.  Checks the delivery invariants the properties need *)
(* (no splice, ordered delivery, exact byte counter) and emits behaviours  *)
(* for lock-step replay against the real reassemblyQueue.                  *)
(***************************************************************************)
EXTENDS Reasm, TLC, Json
CONSTANTS IL,      \* TRUE: I-DATA universe, FALSE: DATA universe
          Depth
VARIABLES r, ops, pushed, floor, delivered

vars == <<r, ops, pushed, floor, delivered>>

\* message table: <<id, unordered, seq, number of fragments>>; TSNs are assigned in table order
Msgs == << <<1, FALSE, 0, 2>>, <<2, TRUE, 0, 2>>, <<3, FALSE, 1, 1>>, <<4, TRUE, 1, 1>>, <<5, FALSE, 2, 3>> >>
FirstTsn(i) == IF i = 1 THEN 1 ELSE 1 + MapThenSumSet(LAMBDA j : Msgs[j][4], 1..(i-1))
Chunks == UNION { { [tsn |-> FirstTsn(i) + f, seq |-> IF ~IL /\ Msgs[i][2] THEN 0 ELSE Msgs[i][3], fi |-> f, b |-> f = 0, e |-> f = Msgs[i][4] - 1,
                     len |-> 2 + f + i, ppi |-> 50 + i, u |-> Msgs[i][2], il |-> IL, m |-> Msgs[i][1]] : f \in 0..(Msgs[i][4] - 1) } : i \in DOMAIN Msgs }
AllTsns == {c.tsn : c \in Chunks}

Obs(op, arg, res) == [op |-> op, arg |-> arg, res |-> res, nb |-> r'.nb, readable |-> ReasmReadable(r'), next |-> r'.next]
\* a read result in a replayable form: ordered list of <<message, fragment>>
PartsSeq(S) == IF IL THEN [i \in 1..Cardinality(S) |-> LET c == CHOOSE x \in S : x.fi = i - 1 IN <<c.m, c.fi>>]
               ELSE LET lo == Min({c.tsn : c \in S}) IN
                    [i \in 1..Cardinality(S) |-> LET c == CHOOSE x \in S : x.tsn = lo + i - 1 IN <<c.m, c.fi>>]

Init == r = ReasmInit /\ ops = <<>> /\ pushed = {} /\ floor = 0 /\ delivered = <<>>

DoPush(c) == LET x == ReasmPush(r, c) IN
  /\ c \notin pushed /\ c.tsn > floor
  /\ r' = x[1] /\ pushed' = pushed \cup {c}
  /\ ops' = Append(ops, Obs("push", c, x[2])) /\ UNCHANGED <<floor, delivered>>
DoRead(buf) == LET x == ReasmRead(r, buf) IN
  /\ r' = x[1]
  /\ ops' = Append(ops, Obs("read", buf, [kind |-> x[2].kind, n |-> x[2].n,
                                           ppi |-> IF x[2].kind = "ok" THEN MsgPpi(r, x[2].S) ELSE 0,
                                           parts |-> IF x[2].kind = "none" THEN <<>> ELSE PartsSeq(x[2].S)]))
  /\ delivered' = (IF x[2].kind = "ok" THEN Append(delivered, x[2].S) ELSE delivered)
  /\ UNCHANGED <<pushed, floor>>
\* a forward-TSN as the association applies it to one stream: new cumulative TSN T
DoForward(T) ==
  LET covered == {c \in Chunks : c.tsn <= T}
      ordSeqs == {c.seq : c \in {x \in covered : ~x.u}}
      unoSeqs == {c.seq : c \in {x \in covered : x.u}}
      r1 == IF ordSeqs # {} THEN ReasmFwdOrdered(r, Max(ordSeqs)) ELSE r
      r2 == IF IL THEN (IF unoSeqs # {} THEN ReasmFwdUnorderedMID(r1, Max(unoSeqs)) ELSE r1) ELSE ReasmFwdUnordered(r1, T)
  IN /\ T > floor
     /\ r' = r2 /\ floor' = T
     /\ ops' = Append(ops, Obs("forward", [T |-> T, ord |-> IF ordSeqs # {} THEN Max(ordSeqs) ELSE -1,
                                          uno |-> IF unoSeqs # {} THEN Max(unoSeqs) ELSE -1], "ok"))
     /\ UNCHANGED <<pushed, delivered>>

Next == /\ Len(ops) < Depth
        /\ \/ \E c \in Chunks : DoPush(c)
           \/ \E b \in {3, 100} : DoRead(b)
           \/ \E T \in AllTsns : DoForward(T)
Spec == Init /\ [][Next]_vars

\* ---- properties at component level
BytesExact == ReasmBytesExact(r)                                     \* C11
TypeOK == ReasmTypeOK(r)
\* C01/C06: every delivered message is exactly the fragments 0..last of ONE message, delivered at most once
NoSplice == \A i \in DOMAIN delivered : LET S == delivered[i] IN
               /\ \A x, y \in S : x.m = y.m
               /\ S = {c \in Chunks : c.m = (CHOOSE x \in S : TRUE).m}
AtMostOnce == \A i, j \in DOMAIN delivered : i # j => delivered[i] # delivered[j]
\* ordered messages are delivered in increasing sequence order
OrderedInOrder == \A i, j \in DOMAIN delivered : (i < j /\ ~(CHOOSE x \in delivered[i] : TRUE).u /\ ~(CHOOSE x \in delivered[j] : TRUE).u)
                      => (CHOOSE x \in delivered[i] : TRUE).seq < (CHOOSE x \in delivered[j] : TRUE).seq
View == <<r, pushed, floor, delivered, Len(ops)>>
Emit == Len(ops) < Depth \/ PrintT(<<"BEHAVIOUR", ToJson(ops)>>)
=============================================================================
