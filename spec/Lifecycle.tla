----------------------------- MODULE Lifecycle -----------------------------
(***************************************************************************)
(* Goroutine / lock / channel skeleton of one association (pion/sctp       *)
(* association.go: readLoop :1137, writeLoop :1189, timer callbacks        *)
(* :4254/:4360, completeHandshake :4427, Close :1040, close :1061,         *)
(* Abort :1086; stream.go ReadSCTP :129) in PlusCal.  One process per      *)
(* goroutine kind; a label wherever the Go code can block or takes /       *)
(* releases a lock.  Used for C09 and C20: no interleaving of the          *)
(* goroutines, API callers and the environment (packet arrival, transport  *)
(* failure, Close, Abort at any moment) deadlocks, and once the transport  *)
(* is closed every goroutine terminates and every caller returns.          *)
(*                                                                         *)
(* Abstractions: packets are tokens; "ESTABLISH" is the packet that        *)
(* completes the handshake; the association lock is `alock` (0 = free,     *)
(* otherwise the holder), the stream lock `slock`.  The unbuffered         *)
(* handshakeCompletedCh is a rendezvous: the sender may proceed only while *)
(* the connect caller is waiting, or when closeWriteLoopCh /               *)
(* readLoopCloseCh is closed.                                              *)
(***************************************************************************)
EXTENDS Integers, Sequences, FiniteSets, TLC

CONSTANTS MaxPkts,     \* packets the environment may deliver
          T1Retries    \* T1 expiries before the handshake is failed

(* --algorithm Lifecycle {
  variables
    alock = 0, slock = 0,                      \* association lock, stream lock (holder id or 0)
    inbox = 0,                                 \* packets waiting in the transport's read side
    delivered = 0,
    connClosed = FALSE,                        \* the transport is closed (Read returns an error)
    readDeadline = FALSE,                      \* Abort set the read deadline to "now"
    state = "cookieWait",
    closeWriteLoopCh = FALSE, readLoopCloseCh = FALSE, acceptChClosed = FALSE,
    awake = FALSE,                             \* awakeWriteLoopCh token
    connWaiting = TRUE, hsResult = "none",     \* the connect caller and what it received
    readErr = FALSE, readable = FALSE,         \* stream read side
    willAbort = FALSE, abortSent = FALSE,
    timersClosed = FALSE,
    t1Count = 0;

  define {
    Lock(v, me) == v = 0
    LoopsGone == readLoopCloseCh /\ closeWriteLoopCh
  }

  \* completeHandshake(err): select { case ch <- err: ; case <-closeWriteLoopCh: ; case <-readLoopCloseCh: }
  \* -- called with the association lock held
  macro CompleteHandshake(res) {
    await connWaiting \/ closeWriteLoopCh \/ readLoopCloseCh;
    if (connWaiting /\ hsResult = "none") { hsResult := res; connWaiting := FALSE; }
  }

  \* close(): state closed, transport closed once, timers closed, closeWriteLoopCh closed once
  macro CloseAssoc() {
    state := "closed"; connClosed := TRUE; timersClosed := TRUE; closeWriteLoopCh := TRUE;
  }

  fair process (ReadLoop = 1)
  {
  rl:  while (TRUE) {
  rd:    await inbox > 0 \/ connClosed \/ readDeadline;
         if (connClosed \/ readDeadline) { goto rexit; } else { inbox := inbox - 1; };
  rlk:   await alock = 0; alock := 1;                            \* handleChunk: lock
  rh:    if (state \in {"cookieWait"} /\ delivered = 0) {
           \* the packet that completes the handshake: establish + completeHandshake(nil) WITH the lock held
           state := "established";
           delivered := delivered + 1;
  rch:     CompleteHandshake("ok");
         } else {
           delivered := delivered + 1;
           readable := TRUE; awake := TRUE;                       \* data for the stream, wake the writer
         };
  rul:   alock := 0;
       };
  rexit: closeWriteLoopCh := TRUE;
  rxl:   await alock = 0; alock := 1;
  rx2:   state := "closed"; readErr := TRUE;                      \* unregister streams, wake readers
  rx3:   alock := 0;
  rx4:   acceptChClosed := TRUE;
  rx5:   readLoopCloseCh := TRUE;
  }

  fair process (WriteLoop = 2)
    variable wfail = FALSE;
  {
  wl:  while (TRUE) {
  wlk:   await alock = 0; alock := 2;                            \* gatherOutbound under the lock
  wg:    alock := 0;
  ww:    \* write the gathered packets: the transport may already be closed -> error -> close it, leave
         if (connClosed) { connClosed := TRUE; goto wexit; }
         else if (willAbort) { abortSent := TRUE; willAbort := FALSE; CloseAssoc(); goto wdone; };
  wsel:  await awake \/ closeWriteLoopCh;
         if (awake) { awake := FALSE; }
         else {
  wab:     await alock = 0; alock := 2;
  wab2:    if (willAbort) { alock := 0; } else { alock := 0; goto wexit; };
         };
       };
  wexit: state := "closed"; timersClosed := TRUE;
  wdone: skip;
  }

  \* T1-init retransmission timer: expires until the handshake completes or the retry budget is used up
  fair process (T1 = 3)
  {
  t1:  while (t1Count < T1Retries /\ ~timersClosed /\ state = "cookieWait") {
         t1Count := t1Count + 1;
  t1l:   await alock = 0; alock := 3;                             \* onRetransmissionTimeout: re-send INIT
  t1u:   awake := TRUE; alock := 0;
       };
  t1f: if (state = "cookieWait" /\ ~timersClosed) {
  t1fl:  await alock = 0; alock := 3;                             \* onRetransmissionFailure
  t1fc:  CompleteHandshake("err");                                \* ... with the lock held
  t1fu:  alock := 0;
       };
  }

  \* Client() / ClientWithOptions: select { handshakeCompletedCh ; readLoopCloseCh }
  fair process (Connect = 4)
  {
  c1:  await hsResult # "none" \/ readLoopCloseCh;
       connWaiting := FALSE;
  }

  \* Stream.ReadSCTP: loop under the stream lock, sync.Cond wait releases it
  fair process (Reader = 5)
  {
  r1:  await slock = 0; slock := 5;
  r2:  while (~readable /\ ~readErr) {
  r3:    slock := 0;                                              \* Cond.Wait
  r4:    await (readable \/ readErr) /\ slock = 0; slock := 5;
       };
  r5:  slock := 0;
  }

  \* Association.Close, called (possibly twice, concurrently) at any moment
  fair process (Closer \in {6, 7})
  {
  cl0: either { skip; } or { goto cldone; };                      \* the application may or may not call Close
  cl1: CloseAssoc();
  cl2: await readLoopCloseCh;
  cldone: skip;
  }

  \* Association.Abort at any moment
  fair process (Aborter = 8)
  {
  ab0: either { skip; } or { goto abdone; };
  ab1: await alock = 0; alock := 8;
  ab2: willAbort := TRUE; alock := 0;
  ab3: awake := TRUE;
  ab4: await abortSent \/ TRUE;                                   \* wait <= 200 ms for the ABORT to be written
  ab5: readDeadline := TRUE;                                      \* unblock the read loop
  ab6: await readLoopCloseCh;
  abdone: skip;
  }

  \* the environment: packets arrive, the transport may fail at any moment
  process (Env = 9)
    variable sentPkts = 0;
  {
  e1:  while (sentPkts < MaxPkts /\ ~connClosed) {
         either { inbox := inbox + 1; sentPkts := sentPkts + 1; }
         or     { connClosed := TRUE; };
       };
  }
} *)
\* BEGIN TRANSLATION
\* END TRANSLATION

\* ---------------------------------------------------------------- properties
\* the association lock is never requested while the stream lock is held by the same goroutine
\* (lock order association -> stream): no process of this model takes alock while it holds slock
LockOrder == ~(slock # 0 /\ alock = slock)
\* callbacks / channel rendezvous with the lock held can always be released by closing the loops
\* C09: once the transport is closed (by failure, Close or Abort) every goroutine of the association
\* terminates and every blocked caller returns
AllDone == /\ pc[1] = "Done" /\ pc[2] = "Done" /\ pc[3] = "Done" /\ pc[4] = "Done" /\ pc[5] = "Done"
           /\ (\A c \in {6, 7} : pc[c] = "Done") /\ pc[8] = "Done"
TerminatesWhenClosed == connClosed ~> AllDone
=============================================================================
