----------------------------- MODULE Lifecycle -----------------------------
(***************************************************************************)
(* Goroutine / lock / channel skeleton of one association (pion/sctp       *)
(* association.go: readLoop :1137, writeLoop :1189, timer callbacks        *)
(* :4254/:4360, completeHandshake :4427, Close :1040, close :1061,         *)
(* Abort :1086; stream.go ReadSCTP :129) in PlusCal.  One process per      *)
(* goroutine kind; a label wherever the Go code can block or takes /       *)
(* releases a lock.  Used for C09 and C20: no interleaving of the          *)
(* goroutines, API callers and the environment (packet arrival, transport  *)
(* failure, Close, Abort at any moment) deadlocks, and once the transport  *)
(* is closed every goroutine terminates and every caller returns.          *)
(*                                                                         *)
(* Abstractions: packets are tokens; "ESTABLISH" is the packet that        *)
(* completes the handshake; the association lock is `alock` (0 = free,     *)
(* otherwise the holder), the stream lock `slock`.  The unbuffered         *)
(* handshakeCompletedCh is a rendezvous: the sender may proceed only while *)
(* the connect caller is waiting, or when closeWriteLoopCh /               *)
(* readLoopCloseCh is closed.                                              *)
(***************************************************************************)
EXTENDS Integers, Sequences, FiniteSets, TLC

CONSTANTS MaxPkts,     \* packets the environment may deliver
          T1Retries,   \* T1 expiries before the handshake is failed
          Closers,     \* ids (subset of {6,7}) of concurrent Association.Close callers
          Aborters,    \* {8} or {}: an Association.Abort caller
          Readers      \* {5} or {}: a blocked Stream.ReadSCTP caller

(* --algorithm Lifecycle {
  variables
    alock = 0, slock = 0,                      \* association lock, stream lock (holder id or 0)
    inbox = 0,                                 \* packets waiting in the transport's read side
    delivered = 0,
    connClosed = FALSE,                        \* the transport is closed (Read returns an error)
    readDeadline = FALSE,                      \* Abort set the read deadline to "now"
    state = "cookieWait",
    closeWriteLoopCh = FALSE, readLoopCloseCh = FALSE, acceptChClosed = FALSE,
    awake = FALSE,                             \* awakeWriteLoopCh token
    connWaiting = TRUE, hsResult = "none",     \* the connect caller and what it received
    readErr = FALSE, readable = FALSE,         \* stream read side
    willAbort = FALSE, abortSent = FALSE,
    timersClosed = FALSE,
    t1Count = 0;

  define {
    Lock(v, me) == v = 0
    LoopsGone == readLoopCloseCh /\ closeWriteLoopCh
  }

  \* completeHandshake(err): select { case ch <- err: ; case <-closeWriteLoopCh: ; case <-readLoopCloseCh: }
  \* -- called with the association lock held
  macro CompleteHandshake(res) {
    await connWaiting \/ closeWriteLoopCh \/ readLoopCloseCh;
    if (connWaiting /\ hsResult = "none") { hsResult := res; connWaiting := FALSE; }
  }

  \* close(): state closed, transport closed once, timers closed, closeWriteLoopCh closed once
  macro CloseAssoc() {
    state := "closed"; connClosed := TRUE; timersClosed := TRUE; closeWriteLoopCh := TRUE;
  }

  fair process (ReadLoop = 1)
  {
  rl:  while (TRUE) {
  rd:    await inbox > 0 \/ connClosed \/ readDeadline;
         if (connClosed \/ readDeadline) { goto rexit; } else { inbox := inbox - 1; };
  rlk:   await alock = 0; alock := 1;                            \* handleChunk: lock
  rh:    if (state \in {"cookieWait"} /\ delivered = 0) {
           \* the packet that completes the handshake: establish + completeHandshake(nil) WITH the lock held
           state := "established";
           delivered := delivered + 1;
  rch:     CompleteHandshake("ok");
         } else {
           delivered := delivered + 1;
           readable := TRUE; awake := TRUE;                       \* data for the stream, wake the writer
         };
  rul:   alock := 0;
       };
  rexit: closeWriteLoopCh := TRUE;
  rxl:   await alock = 0; alock := 1;
  rx2:   state := "closed"; readErr := TRUE;                      \* unregister streams, wake readers
  rx3:   alock := 0;
  rx4:   acceptChClosed := TRUE;
  rx5:   readLoopCloseCh := TRUE;
  }

  fair process (WriteLoop = 2)
    variable wfail = FALSE;
  {
  wl:  while (TRUE) {
  wlk:   await alock = 0; alock := 2;                            \* gatherOutbound under the lock
  wg:    alock := 0;
  ww:    \* write the gathered packets: the transport may already be closed -> error -> close it, leave
         if (connClosed) { connClosed := TRUE; goto wexit; }
         else if (willAbort) { abortSent := TRUE; willAbort := FALSE; CloseAssoc(); goto wdone; };
  wsel:  await awake \/ closeWriteLoopCh;
         if (awake) { awake := FALSE; }
         else {
  wab:     await alock = 0; alock := 2;
  wab2:    if (willAbort) { alock := 0; } else { alock := 0; goto wexit; };
         };
       };
  wexit: state := "closed"; timersClosed := TRUE;
  wdone: skip;
  }

  \* T1-init retransmission timer: expires until the handshake completes or the retry budget is used up
  fair process (T1 = 3)
  {
  t1:  while (t1Count < T1Retries /\ ~timersClosed /\ state = "cookieWait") {
         t1Count := t1Count + 1;
  t1l:   await alock = 0; alock := 3;                             \* onRetransmissionTimeout: re-send INIT
  t1u:   awake := TRUE; alock := 0;
       };
  t1f: if (state = "cookieWait" /\ ~timersClosed) {
  t1fl:  await alock = 0; alock := 3;                             \* onRetransmissionFailure
  t1fc:  CompleteHandshake("err");                                \* ... with the lock held
  t1fu:  alock := 0;
       };
  }

  \* Client() / ClientWithOptions: select { handshakeCompletedCh ; readLoopCloseCh }
  fair process (Connect = 4)
  {
  c1:  await hsResult # "none" \/ readLoopCloseCh;
       connWaiting := FALSE;
       \* a failed handshake tears the association down before the error is returned (the caller gets no
       \* handle). Without these two steps TLC finds: T1 failure -> error returned -> late COOKIE-ACK ->
       \* read loop blocks in completeHandshake(nil) holding the association lock for ever (was defect F19).
       if (hsResult = "err") {
  c2:    CloseAssoc();
  c3:    await readLoopCloseCh;
       };
  }

  \* Stream.ReadSCTP: loop under the stream lock, sync.Cond wait releases it
  fair process (Reader \in Readers)
  {
  r1:  await slock = 0; slock := self;
  r2:  while (~readable /\ ~readErr) {
  r3:    slock := 0;                                              \* Cond.Wait
  r4:    await (readable \/ readErr) /\ slock = 0; slock := self;
       };
  r5:  slock := 0;
  }

  \* Association.Close, called (possibly twice, concurrently) at any moment
  fair process (Closer \in Closers)
  {
  cl0: either { skip; } or { goto cldone; };                      \* the application may or may not call Close
  cl1: CloseAssoc();
  cl2: await readLoopCloseCh;
  cldone: skip;
  }

  \* Association.Abort at any moment
  fair process (Aborter \in Aborters)
  {
  ab0: either { skip; } or { goto abdone; };
  ab1: await alock = 0; alock := self;
  ab2: willAbort := TRUE; alock := 0;
  ab3: awake := TRUE;
  ab4: await abortSent \/ TRUE;                                   \* wait <= 200 ms for the ABORT to be written
  ab5: readDeadline := TRUE;                                      \* unblock the read loop
  ab6: await readLoopCloseCh;
  abdone: skip;
  }

  \* the environment: packets arrive, the transport may fail at any moment
  process (Env = 9)
    variable sentPkts = 0;
  {
  e1:  while (sentPkts < MaxPkts /\ ~connClosed) {
         either { inbox := inbox + 1; sentPkts := sentPkts + 1; }
         or     { connClosed := TRUE; };
       };
  }
} *)
\* BEGIN TRANSLATION
VARIABLES pc, alock, slock, inbox, delivered, connClosed, readDeadline, state, 
          closeWriteLoopCh, readLoopCloseCh, acceptChClosed, awake, 
          connWaiting, hsResult, readErr, readable, willAbort, abortSent, 
          timersClosed, t1Count

(* define statement *)
Lock(v, me) == v = 0
LoopsGone == readLoopCloseCh /\ closeWriteLoopCh

VARIABLES wfail, sentPkts

vars == << pc, alock, slock, inbox, delivered, connClosed, readDeadline, 
           state, closeWriteLoopCh, readLoopCloseCh, acceptChClosed, awake, 
           connWaiting, hsResult, readErr, readable, willAbort, abortSent, 
           timersClosed, t1Count, wfail, sentPkts >>

ProcSet == {1} \cup {2} \cup {3} \cup {4} \cup (Readers) \cup (Closers) \cup (Aborters) \cup {9}

Init == (* Global variables *)
        /\ alock = 0
        /\ slock = 0
        /\ inbox = 0
        /\ delivered = 0
        /\ connClosed = FALSE
        /\ readDeadline = FALSE
        /\ state = "cookieWait"
        /\ closeWriteLoopCh = FALSE
        /\ readLoopCloseCh = FALSE
        /\ acceptChClosed = FALSE
        /\ awake = FALSE
        /\ connWaiting = TRUE
        /\ hsResult = "none"
        /\ readErr = FALSE
        /\ readable = FALSE
        /\ willAbort = FALSE
        /\ abortSent = FALSE
        /\ timersClosed = FALSE
        /\ t1Count = 0
        (* Process WriteLoop *)
        /\ wfail = FALSE
        (* Process Env *)
        /\ sentPkts = 0
        /\ pc = [self \in ProcSet |-> CASE self = 1 -> "rl"
                                        [] self = 2 -> "wl"
                                        [] self = 3 -> "t1"
                                        [] self = 4 -> "c1"
                                        [] self \in Readers -> "r1"
                                        [] self \in Closers -> "cl0"
                                        [] self \in Aborters -> "ab0"
                                        [] self = 9 -> "e1"]

rl == /\ pc[1] = "rl"
      /\ pc' = [pc EXCEPT ![1] = "rd"]
      /\ UNCHANGED << alock, slock, inbox, delivered, connClosed, readDeadline, 
                      state, closeWriteLoopCh, readLoopCloseCh, acceptChClosed, 
                      awake, connWaiting, hsResult, readErr, readable, 
                      willAbort, abortSent, timersClosed, t1Count, wfail, 
                      sentPkts >>

rd == /\ pc[1] = "rd"
      /\ inbox > 0 \/ connClosed \/ readDeadline
      /\ IF connClosed \/ readDeadline
            THEN /\ pc' = [pc EXCEPT ![1] = "rexit"]
                 /\ inbox' = inbox
            ELSE /\ inbox' = inbox - 1
                 /\ pc' = [pc EXCEPT ![1] = "rlk"]
      /\ UNCHANGED << alock, slock, delivered, connClosed, readDeadline, state, 
                      closeWriteLoopCh, readLoopCloseCh, acceptChClosed, awake, 
                      connWaiting, hsResult, readErr, readable, willAbort, 
                      abortSent, timersClosed, t1Count, wfail, sentPkts >>

rlk == /\ pc[1] = "rlk"
       /\ alock = 0
       /\ alock' = 1
       /\ pc' = [pc EXCEPT ![1] = "rh"]
       /\ UNCHANGED << slock, inbox, delivered, connClosed, readDeadline, 
                       state, closeWriteLoopCh, readLoopCloseCh, 
                       acceptChClosed, awake, connWaiting, hsResult, readErr, 
                       readable, willAbort, abortSent, timersClosed, t1Count, 
                       wfail, sentPkts >>

rh == /\ pc[1] = "rh"
      /\ IF state \in {"cookieWait"} /\ delivered = 0
            THEN /\ state' = "established"
                 /\ delivered' = delivered + 1
                 /\ pc' = [pc EXCEPT ![1] = "rch"]
                 /\ UNCHANGED << awake, readable >>
            ELSE /\ delivered' = delivered + 1
                 /\ readable' = TRUE
                 /\ awake' = TRUE
                 /\ pc' = [pc EXCEPT ![1] = "rul"]
                 /\ state' = state
      /\ UNCHANGED << alock, slock, inbox, connClosed, readDeadline, 
                      closeWriteLoopCh, readLoopCloseCh, acceptChClosed, 
                      connWaiting, hsResult, readErr, willAbort, abortSent, 
                      timersClosed, t1Count, wfail, sentPkts >>

rch == /\ pc[1] = "rch"
       /\ connWaiting \/ closeWriteLoopCh \/ readLoopCloseCh
       /\ IF connWaiting /\ hsResult = "none"
             THEN /\ hsResult' = "ok"
                  /\ connWaiting' = FALSE
             ELSE /\ TRUE
                  /\ UNCHANGED << connWaiting, hsResult >>
       /\ pc' = [pc EXCEPT ![1] = "rul"]
       /\ UNCHANGED << alock, slock, inbox, delivered, connClosed, 
                       readDeadline, state, closeWriteLoopCh, readLoopCloseCh, 
                       acceptChClosed, awake, readErr, readable, willAbort, 
                       abortSent, timersClosed, t1Count, wfail, sentPkts >>

rul == /\ pc[1] = "rul"
       /\ alock' = 0
       /\ pc' = [pc EXCEPT ![1] = "rl"]
       /\ UNCHANGED << slock, inbox, delivered, connClosed, readDeadline, 
                       state, closeWriteLoopCh, readLoopCloseCh, 
                       acceptChClosed, awake, connWaiting, hsResult, readErr, 
                       readable, willAbort, abortSent, timersClosed, t1Count, 
                       wfail, sentPkts >>

rexit == /\ pc[1] = "rexit"
         /\ closeWriteLoopCh' = TRUE
         /\ pc' = [pc EXCEPT ![1] = "rxl"]
         /\ UNCHANGED << alock, slock, inbox, delivered, connClosed, 
                         readDeadline, state, readLoopCloseCh, acceptChClosed, 
                         awake, connWaiting, hsResult, readErr, readable, 
                         willAbort, abortSent, timersClosed, t1Count, wfail, 
                         sentPkts >>

rxl == /\ pc[1] = "rxl"
       /\ alock = 0
       /\ alock' = 1
       /\ pc' = [pc EXCEPT ![1] = "rx2"]
       /\ UNCHANGED << slock, inbox, delivered, connClosed, readDeadline, 
                       state, closeWriteLoopCh, readLoopCloseCh, 
                       acceptChClosed, awake, connWaiting, hsResult, readErr, 
                       readable, willAbort, abortSent, timersClosed, t1Count, 
                       wfail, sentPkts >>

rx2 == /\ pc[1] = "rx2"
       /\ state' = "closed"
       /\ readErr' = TRUE
       /\ pc' = [pc EXCEPT ![1] = "rx3"]
       /\ UNCHANGED << alock, slock, inbox, delivered, connClosed, 
                       readDeadline, closeWriteLoopCh, readLoopCloseCh, 
                       acceptChClosed, awake, connWaiting, hsResult, readable, 
                       willAbort, abortSent, timersClosed, t1Count, wfail, 
                       sentPkts >>

rx3 == /\ pc[1] = "rx3"
       /\ alock' = 0
       /\ pc' = [pc EXCEPT ![1] = "rx4"]
       /\ UNCHANGED << slock, inbox, delivered, connClosed, readDeadline, 
                       state, closeWriteLoopCh, readLoopCloseCh, 
                       acceptChClosed, awake, connWaiting, hsResult, readErr, 
                       readable, willAbort, abortSent, timersClosed, t1Count, 
                       wfail, sentPkts >>

rx4 == /\ pc[1] = "rx4"
       /\ acceptChClosed' = TRUE
       /\ pc' = [pc EXCEPT ![1] = "rx5"]
       /\ UNCHANGED << alock, slock, inbox, delivered, connClosed, 
                       readDeadline, state, closeWriteLoopCh, readLoopCloseCh, 
                       awake, connWaiting, hsResult, readErr, readable, 
                       willAbort, abortSent, timersClosed, t1Count, wfail, 
                       sentPkts >>

rx5 == /\ pc[1] = "rx5"
       /\ readLoopCloseCh' = TRUE
       /\ pc' = [pc EXCEPT ![1] = "Done"]
       /\ UNCHANGED << alock, slock, inbox, delivered, connClosed, 
                       readDeadline, state, closeWriteLoopCh, acceptChClosed, 
                       awake, connWaiting, hsResult, readErr, readable, 
                       willAbort, abortSent, timersClosed, t1Count, wfail, 
                       sentPkts >>

ReadLoop == rl \/ rd \/ rlk \/ rh \/ rch \/ rul \/ rexit \/ rxl \/ rx2
               \/ rx3 \/ rx4 \/ rx5

wl == /\ pc[2] = "wl"
      /\ pc' = [pc EXCEPT ![2] = "wlk"]
      /\ UNCHANGED << alock, slock, inbox, delivered, connClosed, readDeadline, 
                      state, closeWriteLoopCh, readLoopCloseCh, acceptChClosed, 
                      awake, connWaiting, hsResult, readErr, readable, 
                      willAbort, abortSent, timersClosed, t1Count, wfail, 
                      sentPkts >>

wlk == /\ pc[2] = "wlk"
       /\ alock = 0
       /\ alock' = 2
       /\ pc' = [pc EXCEPT ![2] = "wg"]
       /\ UNCHANGED << slock, inbox, delivered, connClosed, readDeadline, 
                       state, closeWriteLoopCh, readLoopCloseCh, 
                       acceptChClosed, awake, connWaiting, hsResult, readErr, 
                       readable, willAbort, abortSent, timersClosed, t1Count, 
                       wfail, sentPkts >>

wg == /\ pc[2] = "wg"
      /\ alock' = 0
      /\ pc' = [pc EXCEPT ![2] = "ww"]
      /\ UNCHANGED << slock, inbox, delivered, connClosed, readDeadline, state, 
                      closeWriteLoopCh, readLoopCloseCh, acceptChClosed, awake, 
                      connWaiting, hsResult, readErr, readable, willAbort, 
                      abortSent, timersClosed, t1Count, wfail, sentPkts >>

ww == /\ pc[2] = "ww"
      /\ IF connClosed
            THEN /\ connClosed' = TRUE
                 /\ pc' = [pc EXCEPT ![2] = "wexit"]
                 /\ UNCHANGED << state, closeWriteLoopCh, willAbort, abortSent, 
                                 timersClosed >>
            ELSE /\ IF willAbort
                       THEN /\ abortSent' = TRUE
                            /\ willAbort' = FALSE
                            /\ state' = "closed"
                            /\ connClosed' = TRUE
                            /\ timersClosed' = TRUE
                            /\ closeWriteLoopCh' = TRUE
                            /\ pc' = [pc EXCEPT ![2] = "wdone"]
                       ELSE /\ pc' = [pc EXCEPT ![2] = "wsel"]
                            /\ UNCHANGED << connClosed, state, 
                                            closeWriteLoopCh, willAbort, 
                                            abortSent, timersClosed >>
      /\ UNCHANGED << alock, slock, inbox, delivered, readDeadline, 
                      readLoopCloseCh, acceptChClosed, awake, connWaiting, 
                      hsResult, readErr, readable, t1Count, wfail, sentPkts >>

wsel == /\ pc[2] = "wsel"
        /\ awake \/ closeWriteLoopCh
        /\ IF awake
              THEN /\ awake' = FALSE
                   /\ pc' = [pc EXCEPT ![2] = "wl"]
              ELSE /\ pc' = [pc EXCEPT ![2] = "wab"]
                   /\ awake' = awake
        /\ UNCHANGED << alock, slock, inbox, delivered, connClosed, 
                        readDeadline, state, closeWriteLoopCh, readLoopCloseCh, 
                        acceptChClosed, connWaiting, hsResult, readErr, 
                        readable, willAbort, abortSent, timersClosed, t1Count, 
                        wfail, sentPkts >>

wab == /\ pc[2] = "wab"
       /\ alock = 0
       /\ alock' = 2
       /\ pc' = [pc EXCEPT ![2] = "wab2"]
       /\ UNCHANGED << slock, inbox, delivered, connClosed, readDeadline, 
                       state, closeWriteLoopCh, readLoopCloseCh, 
                       acceptChClosed, awake, connWaiting, hsResult, readErr, 
                       readable, willAbort, abortSent, timersClosed, t1Count, 
                       wfail, sentPkts >>

wab2 == /\ pc[2] = "wab2"
        /\ IF willAbort
              THEN /\ alock' = 0
                   /\ pc' = [pc EXCEPT ![2] = "wl"]
              ELSE /\ alock' = 0
                   /\ pc' = [pc EXCEPT ![2] = "wexit"]
        /\ UNCHANGED << slock, inbox, delivered, connClosed, readDeadline, 
                        state, closeWriteLoopCh, readLoopCloseCh, 
                        acceptChClosed, awake, connWaiting, hsResult, readErr, 
                        readable, willAbort, abortSent, timersClosed, t1Count, 
                        wfail, sentPkts >>

wexit == /\ pc[2] = "wexit"
         /\ state' = "closed"
         /\ timersClosed' = TRUE
         /\ pc' = [pc EXCEPT ![2] = "wdone"]
         /\ UNCHANGED << alock, slock, inbox, delivered, connClosed, 
                         readDeadline, closeWriteLoopCh, readLoopCloseCh, 
                         acceptChClosed, awake, connWaiting, hsResult, readErr, 
                         readable, willAbort, abortSent, t1Count, wfail, 
                         sentPkts >>

wdone == /\ pc[2] = "wdone"
         /\ TRUE
         /\ pc' = [pc EXCEPT ![2] = "Done"]
         /\ UNCHANGED << alock, slock, inbox, delivered, connClosed, 
                         readDeadline, state, closeWriteLoopCh, 
                         readLoopCloseCh, acceptChClosed, awake, connWaiting, 
                         hsResult, readErr, readable, willAbort, abortSent, 
                         timersClosed, t1Count, wfail, sentPkts >>

WriteLoop == wl \/ wlk \/ wg \/ ww \/ wsel \/ wab \/ wab2 \/ wexit \/ wdone

t1 == /\ pc[3] = "t1"
      /\ IF t1Count < T1Retries /\ ~timersClosed /\ state = "cookieWait"
            THEN /\ t1Count' = t1Count + 1
                 /\ pc' = [pc EXCEPT ![3] = "t1l"]
            ELSE /\ pc' = [pc EXCEPT ![3] = "t1f"]
                 /\ UNCHANGED t1Count
      /\ UNCHANGED << alock, slock, inbox, delivered, connClosed, readDeadline, 
                      state, closeWriteLoopCh, readLoopCloseCh, acceptChClosed, 
                      awake, connWaiting, hsResult, readErr, readable, 
                      willAbort, abortSent, timersClosed, wfail, sentPkts >>

t1l == /\ pc[3] = "t1l"
       /\ alock = 0
       /\ alock' = 3
       /\ pc' = [pc EXCEPT ![3] = "t1u"]
       /\ UNCHANGED << slock, inbox, delivered, connClosed, readDeadline, 
                       state, closeWriteLoopCh, readLoopCloseCh, 
                       acceptChClosed, awake, connWaiting, hsResult, readErr, 
                       readable, willAbort, abortSent, timersClosed, t1Count, 
                       wfail, sentPkts >>

t1u == /\ pc[3] = "t1u"
       /\ awake' = TRUE
       /\ alock' = 0
       /\ pc' = [pc EXCEPT ![3] = "t1"]
       /\ UNCHANGED << slock, inbox, delivered, connClosed, readDeadline, 
                       state, closeWriteLoopCh, readLoopCloseCh, 
                       acceptChClosed, connWaiting, hsResult, readErr, 
                       readable, willAbort, abortSent, timersClosed, t1Count, 
                       wfail, sentPkts >>

t1f == /\ pc[3] = "t1f"
       /\ IF state = "cookieWait" /\ ~timersClosed
             THEN /\ pc' = [pc EXCEPT ![3] = "t1fl"]
             ELSE /\ pc' = [pc EXCEPT ![3] = "Done"]
       /\ UNCHANGED << alock, slock, inbox, delivered, connClosed, 
                       readDeadline, state, closeWriteLoopCh, readLoopCloseCh, 
                       acceptChClosed, awake, connWaiting, hsResult, readErr, 
                       readable, willAbort, abortSent, timersClosed, t1Count, 
                       wfail, sentPkts >>

t1fl == /\ pc[3] = "t1fl"
        /\ alock = 0
        /\ alock' = 3
        /\ pc' = [pc EXCEPT ![3] = "t1fc"]
        /\ UNCHANGED << slock, inbox, delivered, connClosed, readDeadline, 
                        state, closeWriteLoopCh, readLoopCloseCh, 
                        acceptChClosed, awake, connWaiting, hsResult, readErr, 
                        readable, willAbort, abortSent, timersClosed, t1Count, 
                        wfail, sentPkts >>

t1fc == /\ pc[3] = "t1fc"
        /\ connWaiting \/ closeWriteLoopCh \/ readLoopCloseCh
        /\ IF connWaiting /\ hsResult = "none"
              THEN /\ hsResult' = "err"
                   /\ connWaiting' = FALSE
              ELSE /\ TRUE
                   /\ UNCHANGED << connWaiting, hsResult >>
        /\ pc' = [pc EXCEPT ![3] = "t1fu"]
        /\ UNCHANGED << alock, slock, inbox, delivered, connClosed, 
                        readDeadline, state, closeWriteLoopCh, readLoopCloseCh, 
                        acceptChClosed, awake, readErr, readable, willAbort, 
                        abortSent, timersClosed, t1Count, wfail, sentPkts >>

t1fu == /\ pc[3] = "t1fu"
        /\ alock' = 0
        /\ pc' = [pc EXCEPT ![3] = "Done"]
        /\ UNCHANGED << slock, inbox, delivered, connClosed, readDeadline, 
                        state, closeWriteLoopCh, readLoopCloseCh, 
                        acceptChClosed, awake, connWaiting, hsResult, readErr, 
                        readable, willAbort, abortSent, timersClosed, t1Count, 
                        wfail, sentPkts >>

T1 == t1 \/ t1l \/ t1u \/ t1f \/ t1fl \/ t1fc \/ t1fu

c1 == /\ pc[4] = "c1"
      /\ hsResult # "none" \/ readLoopCloseCh
      /\ connWaiting' = FALSE
      /\ IF hsResult = "err"
            THEN /\ pc' = [pc EXCEPT ![4] = "c2"]
            ELSE /\ pc' = [pc EXCEPT ![4] = "Done"]
      /\ UNCHANGED << alock, slock, inbox, delivered, connClosed, readDeadline, 
                      state, closeWriteLoopCh, readLoopCloseCh, acceptChClosed, 
                      awake, hsResult, readErr, readable, willAbort, abortSent, 
                      timersClosed, t1Count, wfail, sentPkts >>

c2 == /\ pc[4] = "c2"
      /\ state' = "closed"
      /\ connClosed' = TRUE
      /\ timersClosed' = TRUE
      /\ closeWriteLoopCh' = TRUE
      /\ pc' = [pc EXCEPT ![4] = "c3"]
      /\ UNCHANGED << alock, slock, inbox, delivered, readDeadline, 
                      readLoopCloseCh, acceptChClosed, awake, connWaiting, 
                      hsResult, readErr, readable, willAbort, abortSent, 
                      t1Count, wfail, sentPkts >>

c3 == /\ pc[4] = "c3"
      /\ readLoopCloseCh
      /\ pc' = [pc EXCEPT ![4] = "Done"]
      /\ UNCHANGED << alock, slock, inbox, delivered, connClosed, readDeadline, 
                      state, closeWriteLoopCh, readLoopCloseCh, acceptChClosed, 
                      awake, connWaiting, hsResult, readErr, readable, 
                      willAbort, abortSent, timersClosed, t1Count, wfail, 
                      sentPkts >>

Connect == c1 \/ c2 \/ c3

r1(self) == /\ pc[self] = "r1"
            /\ slock = 0
            /\ slock' = self
            /\ pc' = [pc EXCEPT ![self] = "r2"]
            /\ UNCHANGED << alock, inbox, delivered, connClosed, readDeadline, 
                            state, closeWriteLoopCh, readLoopCloseCh, 
                            acceptChClosed, awake, connWaiting, hsResult, 
                            readErr, readable, willAbort, abortSent, 
                            timersClosed, t1Count, wfail, sentPkts >>

r2(self) == /\ pc[self] = "r2"
            /\ IF ~readable /\ ~readErr
                  THEN /\ pc' = [pc EXCEPT ![self] = "r3"]
                  ELSE /\ pc' = [pc EXCEPT ![self] = "r5"]
            /\ UNCHANGED << alock, slock, inbox, delivered, connClosed, 
                            readDeadline, state, closeWriteLoopCh, 
                            readLoopCloseCh, acceptChClosed, awake, 
                            connWaiting, hsResult, readErr, readable, 
                            willAbort, abortSent, timersClosed, t1Count, wfail, 
                            sentPkts >>

r3(self) == /\ pc[self] = "r3"
            /\ slock' = 0
            /\ pc' = [pc EXCEPT ![self] = "r4"]
            /\ UNCHANGED << alock, inbox, delivered, connClosed, readDeadline, 
                            state, closeWriteLoopCh, readLoopCloseCh, 
                            acceptChClosed, awake, connWaiting, hsResult, 
                            readErr, readable, willAbort, abortSent, 
                            timersClosed, t1Count, wfail, sentPkts >>

r4(self) == /\ pc[self] = "r4"
            /\ (readable \/ readErr) /\ slock = 0
            /\ slock' = self
            /\ pc' = [pc EXCEPT ![self] = "r2"]
            /\ UNCHANGED << alock, inbox, delivered, connClosed, readDeadline, 
                            state, closeWriteLoopCh, readLoopCloseCh, 
                            acceptChClosed, awake, connWaiting, hsResult, 
                            readErr, readable, willAbort, abortSent, 
                            timersClosed, t1Count, wfail, sentPkts >>

r5(self) == /\ pc[self] = "r5"
            /\ slock' = 0
            /\ pc' = [pc EXCEPT ![self] = "Done"]
            /\ UNCHANGED << alock, inbox, delivered, connClosed, readDeadline, 
                            state, closeWriteLoopCh, readLoopCloseCh, 
                            acceptChClosed, awake, connWaiting, hsResult, 
                            readErr, readable, willAbort, abortSent, 
                            timersClosed, t1Count, wfail, sentPkts >>

Reader(self) == r1(self) \/ r2(self) \/ r3(self) \/ r4(self) \/ r5(self)

cl0(self) == /\ pc[self] = "cl0"
             /\ \/ /\ TRUE
                   /\ pc' = [pc EXCEPT ![self] = "cl1"]
                \/ /\ pc' = [pc EXCEPT ![self] = "cldone"]
             /\ UNCHANGED << alock, slock, inbox, delivered, connClosed, 
                             readDeadline, state, closeWriteLoopCh, 
                             readLoopCloseCh, acceptChClosed, awake, 
                             connWaiting, hsResult, readErr, readable, 
                             willAbort, abortSent, timersClosed, t1Count, 
                             wfail, sentPkts >>

cl1(self) == /\ pc[self] = "cl1"
             /\ state' = "closed"
             /\ connClosed' = TRUE
             /\ timersClosed' = TRUE
             /\ closeWriteLoopCh' = TRUE
             /\ pc' = [pc EXCEPT ![self] = "cl2"]
             /\ UNCHANGED << alock, slock, inbox, delivered, readDeadline, 
                             readLoopCloseCh, acceptChClosed, awake, 
                             connWaiting, hsResult, readErr, readable, 
                             willAbort, abortSent, t1Count, wfail, sentPkts >>

cl2(self) == /\ pc[self] = "cl2"
             /\ readLoopCloseCh
             /\ pc' = [pc EXCEPT ![self] = "cldone"]
             /\ UNCHANGED << alock, slock, inbox, delivered, connClosed, 
                             readDeadline, state, closeWriteLoopCh, 
                             readLoopCloseCh, acceptChClosed, awake, 
                             connWaiting, hsResult, readErr, readable, 
                             willAbort, abortSent, timersClosed, t1Count, 
                             wfail, sentPkts >>

cldone(self) == /\ pc[self] = "cldone"
                /\ TRUE
                /\ pc' = [pc EXCEPT ![self] = "Done"]
                /\ UNCHANGED << alock, slock, inbox, delivered, connClosed, 
                                readDeadline, state, closeWriteLoopCh, 
                                readLoopCloseCh, acceptChClosed, awake, 
                                connWaiting, hsResult, readErr, readable, 
                                willAbort, abortSent, timersClosed, t1Count, 
                                wfail, sentPkts >>

Closer(self) == cl0(self) \/ cl1(self) \/ cl2(self) \/ cldone(self)

ab0(self) == /\ pc[self] = "ab0"
             /\ \/ /\ TRUE
                   /\ pc' = [pc EXCEPT ![self] = "ab1"]
                \/ /\ pc' = [pc EXCEPT ![self] = "abdone"]
             /\ UNCHANGED << alock, slock, inbox, delivered, connClosed, 
                             readDeadline, state, closeWriteLoopCh, 
                             readLoopCloseCh, acceptChClosed, awake, 
                             connWaiting, hsResult, readErr, readable, 
                             willAbort, abortSent, timersClosed, t1Count, 
                             wfail, sentPkts >>

ab1(self) == /\ pc[self] = "ab1"
             /\ alock = 0
             /\ alock' = self
             /\ pc' = [pc EXCEPT ![self] = "ab2"]
             /\ UNCHANGED << slock, inbox, delivered, connClosed, readDeadline, 
                             state, closeWriteLoopCh, readLoopCloseCh, 
                             acceptChClosed, awake, connWaiting, hsResult, 
                             readErr, readable, willAbort, abortSent, 
                             timersClosed, t1Count, wfail, sentPkts >>

ab2(self) == /\ pc[self] = "ab2"
             /\ willAbort' = TRUE
             /\ alock' = 0
             /\ pc' = [pc EXCEPT ![self] = "ab3"]
             /\ UNCHANGED << slock, inbox, delivered, connClosed, readDeadline, 
                             state, closeWriteLoopCh, readLoopCloseCh, 
                             acceptChClosed, awake, connWaiting, hsResult, 
                             readErr, readable, abortSent, timersClosed, 
                             t1Count, wfail, sentPkts >>

ab3(self) == /\ pc[self] = "ab3"
             /\ awake' = TRUE
             /\ pc' = [pc EXCEPT ![self] = "ab4"]
             /\ UNCHANGED << alock, slock, inbox, delivered, connClosed, 
                             readDeadline, state, closeWriteLoopCh, 
                             readLoopCloseCh, acceptChClosed, connWaiting, 
                             hsResult, readErr, readable, willAbort, abortSent, 
                             timersClosed, t1Count, wfail, sentPkts >>

ab4(self) == /\ pc[self] = "ab4"
             /\ abortSent \/ TRUE
             /\ pc' = [pc EXCEPT ![self] = "ab5"]
             /\ UNCHANGED << alock, slock, inbox, delivered, connClosed, 
                             readDeadline, state, closeWriteLoopCh, 
                             readLoopCloseCh, acceptChClosed, awake, 
                             connWaiting, hsResult, readErr, readable, 
                             willAbort, abortSent, timersClosed, t1Count, 
                             wfail, sentPkts >>

ab5(self) == /\ pc[self] = "ab5"
             /\ readDeadline' = TRUE
             /\ pc' = [pc EXCEPT ![self] = "ab6"]
             /\ UNCHANGED << alock, slock, inbox, delivered, connClosed, state, 
                             closeWriteLoopCh, readLoopCloseCh, acceptChClosed, 
                             awake, connWaiting, hsResult, readErr, readable, 
                             willAbort, abortSent, timersClosed, t1Count, 
                             wfail, sentPkts >>

ab6(self) == /\ pc[self] = "ab6"
             /\ readLoopCloseCh
             /\ pc' = [pc EXCEPT ![self] = "abdone"]
             /\ UNCHANGED << alock, slock, inbox, delivered, connClosed, 
                             readDeadline, state, closeWriteLoopCh, 
                             readLoopCloseCh, acceptChClosed, awake, 
                             connWaiting, hsResult, readErr, readable, 
                             willAbort, abortSent, timersClosed, t1Count, 
                             wfail, sentPkts >>

abdone(self) == /\ pc[self] = "abdone"
                /\ TRUE
                /\ pc' = [pc EXCEPT ![self] = "Done"]
                /\ UNCHANGED << alock, slock, inbox, delivered, connClosed, 
                                readDeadline, state, closeWriteLoopCh, 
                                readLoopCloseCh, acceptChClosed, awake, 
                                connWaiting, hsResult, readErr, readable, 
                                willAbort, abortSent, timersClosed, t1Count, 
                                wfail, sentPkts >>

Aborter(self) == ab0(self) \/ ab1(self) \/ ab2(self) \/ ab3(self)
                    \/ ab4(self) \/ ab5(self) \/ ab6(self) \/ abdone(self)

e1 == /\ pc[9] = "e1"
      /\ IF sentPkts < MaxPkts /\ ~connClosed
            THEN /\ \/ /\ inbox' = inbox + 1
                       /\ sentPkts' = sentPkts + 1
                       /\ UNCHANGED connClosed
                    \/ /\ connClosed' = TRUE
                       /\ UNCHANGED <<inbox, sentPkts>>
                 /\ pc' = [pc EXCEPT ![9] = "e1"]
            ELSE /\ pc' = [pc EXCEPT ![9] = "Done"]
                 /\ UNCHANGED << inbox, connClosed, sentPkts >>
      /\ UNCHANGED << alock, slock, delivered, readDeadline, state, 
                      closeWriteLoopCh, readLoopCloseCh, acceptChClosed, awake, 
                      connWaiting, hsResult, readErr, readable, willAbort, 
                      abortSent, timersClosed, t1Count, wfail >>

Env == e1

(* Allow infinite stuttering to prevent deadlock on termination. *)
Terminating == /\ \A self \in ProcSet: pc[self] = "Done"
               /\ UNCHANGED vars

Next == ReadLoop \/ WriteLoop \/ T1 \/ Connect \/ Env
           \/ (\E self \in Readers: Reader(self))
           \/ (\E self \in Closers: Closer(self))
           \/ (\E self \in Aborters: Aborter(self))
           \/ Terminating

Spec == /\ Init /\ [][Next]_vars
        /\ WF_vars(ReadLoop)
        /\ WF_vars(WriteLoop)
        /\ WF_vars(T1)
        /\ WF_vars(Connect)
        /\ \A self \in Readers : WF_vars(Reader(self))
        /\ \A self \in Closers : WF_vars(Closer(self))
        /\ \A self \in Aborters : WF_vars(Aborter(self))

Termination == <>(\A self \in ProcSet: pc[self] = "Done")

\* END TRANSLATION

\* ---------------------------------------------------------------- properties
\* the association lock is never requested while the stream lock is held by the same goroutine
\* (lock order association -> stream): no process of this model takes alock while it holds slock
LockOrder == ~(slock # 0 /\ alock = slock)
\* callbacks / channel rendezvous with the lock held can always be released by closing the loops
\* C09: once the transport is closed (by failure, Close or Abort) every goroutine of the association
\* terminates and every blocked caller returns
AllDone == /\ pc[1] = "Done" /\ pc[2] = "Done" /\ pc[3] = "Done" /\ pc[4] = "Done"
           /\ (\A c \in Closers \cup Aborters \cup Readers : pc[c] = "Done")
TerminatesWhenClosed == connClosed ~> AllDone
=============================================================================
