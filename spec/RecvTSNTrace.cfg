SPECIFICATION Spec
CONSTRAINT HighWater
POSTCONDITION Accepted
INVARIANT SpecTypeOK
CHECK_DEADLOCK FALSE
