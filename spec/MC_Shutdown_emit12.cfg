SPECIFICATION Spec
CONSTANTS
 NA = 2
 NB = 1
 N <- MCN
 Who = {0, 1}
 MaxDrop = 1
 MaxT2 = 1
 MaxT3 = 1
 Depth = 12
INVARIANTS TypeOK
CONSTRAINT EmitCut
VIEW View
CHECK_DEADLOCK FALSE
