------------------------------ MODULE Shutdown ------------------------------
(***************************************************************************)
(* Engine specification, graceful-shutdown slice (pion/sctp association.go: *)
(* Shutdown, handleShutdown, handleShutdownAck, handleShutdownComplete,    *)
(* advanceShutdownAfterDataDrain, finishShutdownHandling,                  *)
(* gatherOutboundShutdownPackets, onShutdownTimeout (T2), handleData /     *)
(* handleSack in the shutdown states; Appendix A.6 of DESIGN.md).          *)
(*                                                                         *)
(* Two endpoints, each with N[e] single-chunk messages already written and *)
(* transmitted once when the model starts.  Either or both call Shutdown.  *)
(* The network may lose (budget), delay and re-order every packet; T3-rtx  *)
(* re-sends the earliest unacknowledged DATA, T2 re-sends SHUTDOWN /       *)
(* SHUTDOWN-ACK.  The writer is composed into every handler (it runs as    *)
(* soon as it is woken).  When one side has closed, the other side's       *)
(* transport eventually closes too (as DTLS would): ConnClose.             *)
(*                                                                         *)
(* Properties (C08): a Shutdown call returns nil only after everything the *)
(* caller had written was acknowledged AND received by the peer; the       *)
(* cumulative TSN ack carried by a SHUTDOWN never exceeds what was         *)
(* received; no state without successor other than both closed.            *)
(***************************************************************************)
EXTENDS Integers, Sequences, FiniteSets, TLC, Json

CONSTANTS N,        \* [0..1 -> Nat] messages written by each endpoint before the model starts
          Who,      \* set of endpoints that call Shutdown
          MaxDrop, MaxT2, MaxT3, Depth

EP == {0, 1}
Peer(e) == 1 - e

VARIABLES st,       \* "est" "pend" "sent" "recv" "acksent" "closed"
          ackd,     \* [e -> highest own TSN cumulatively acknowledged by the peer]
          got,      \* [e -> set of the peer's TSNs received]
          wSh, wAck, wComp, compPend, t2,
          ret,      \* Shutdown call: "none" / "pending" / "ok" / "err" (association closed by its transport)
          dnet,     \* DATA in flight: [from, tsn, n]
          cnet,     \* control packets in flight: [from, k, cum, n]
          sentc,    \* [e -> [kind -> packets of that kind sent]]
          dcount,   \* [e -> DATA packets sent] (ordinal of DATA transmissions)
          drops, nT2, nT3, ops
vars == <<st, ackd, got, wSh, wAck, wComp, compPend, t2, ret, dnet, cnet, sentc, dcount, drops, nT2, nT3, ops>>

Kinds == {"sack", "shutdown", "shutdownack", "shutdowncomplete"}
Cum(S) == IF S = {} THEN 0 ELSE CHOOSE c \in 0..Cardinality(S) : (\A t \in 1..c : t \in S) /\ (c + 1 \notin S)
Outstanding(e, A) == A[e] < N[e]

Init ==
  /\ st = [e \in EP |-> "est"] /\ ackd = [e \in EP |-> 0] /\ got = [e \in EP |-> {}]
  /\ wSh = [e \in EP |-> FALSE] /\ wAck = [e \in EP |-> FALSE] /\ wComp = [e \in EP |-> FALSE]
  /\ compPend = [e \in EP |-> FALSE] /\ t2 = [e \in EP |-> FALSE] /\ ret = [e \in EP |-> "none"]
  /\ dnet = UNION {{[from |-> e, tsn |-> t, n |-> t] : t \in 1..N[e]} : e \in EP}
  /\ cnet = {} /\ sentc = [e \in EP |-> [k \in Kinds |-> 0]] /\ dcount = [e \in EP |-> N[e]]
  /\ drops = 0 /\ nT2 = 0 /\ nT3 = 0 /\ ops = <<>>

Log(o) == ops' = Append(ops, o)

(* the writer, as a function of the state after a handler: returns the new <<st, wSh, wAck, wComp, t2, packets, closes>> for endpoint e *)
Gather(e, S, A, sh, ak, cp, T) ==
  LET s0 == S[e]
      \* advanceShutdownAfterDataDrain
      drained == ~Outstanding(e, A)
      s1 == IF s0 = "pend" /\ drained THEN "sent" ELSE IF s0 = "recv" /\ drained THEN "acksent" ELSE s0
      sh1 == sh[e] \/ (s0 = "pend" /\ drained)
      ak1 == ak[e] \/ (s0 = "recv" /\ drained)
      can == s1 \in {"pend", "recv", "sent", "acksent"}       \* states in which shutdown packets are gathered
  IN IF ~can THEN [st |-> s1, sh |-> sh1, ak |-> ak1, cp |-> cp[e], t2 |-> T[e], k |-> "none", close |-> FALSE]
     ELSE IF cp[e] THEN [st |-> "closed", sh |-> FALSE, ak |-> FALSE, cp |-> FALSE, t2 |-> FALSE, k |-> "shutdowncomplete", close |-> TRUE]
     ELSE IF ak1 THEN [st |-> s1, sh |-> FALSE, ak |-> FALSE, cp |-> FALSE, t2 |-> TRUE, k |-> "shutdownack", close |-> FALSE]
     ELSE IF sh1 THEN [st |-> s1, sh |-> FALSE, ak |-> FALSE, cp |-> FALSE, t2 |-> TRUE, k |-> "shutdown", close |-> FALSE]
     ELSE [st |-> s1, sh |-> sh1, ak |-> ak1, cp |-> cp[e], t2 |-> T[e], k |-> "none", close |-> FALSE]

\* apply the writer's result for endpoint e and put what it sent (plus `extra` control packets) on the wire
ApplyC(e, g, extra, G, C, calling) ==
  /\ st' = [st EXCEPT ![e] = g.st]
  /\ wSh' = [wSh EXCEPT ![e] = g.sh] /\ wAck' = [wAck EXCEPT ![e] = g.ak] /\ wComp' = [wComp EXCEPT ![e] = g.cp]
  /\ t2' = [t2 EXCEPT ![e] = g.t2]
  /\ LET ks == extra \o (IF g.k = "none" THEN <<>> ELSE <<g.k>>)
         cnt == [k \in Kinds |-> sentc[e][k] + Cardinality({i \in DOMAIN ks : ks[i] = k})]
     IN /\ cnet' = C \cup {[from |-> e, k |-> ks[i], cum |-> Cum(G[e]),
                               n |-> sentc[e][ks[i]] + Cardinality({j \in 1..i : ks[j] = ks[i]})] : i \in DOMAIN ks}
        /\ sentc' = [sentc EXCEPT ![e] = cnt]
  /\ ret' = [ret EXCEPT ![e] = IF g.close /\ (@ = "pending" \/ calling) THEN "ok" ELSE IF calling THEN "pending" ELSE @]

Apply(e, g, extra, G, C) == ApplyC(e, g, extra, G, C, FALSE)

\* ---- API
Call(e) ==
  /\ e \in Who /\ st[e] = "est" /\ ret[e] = "none"
  /\ LET S == [st EXCEPT ![e] = "pend"]
         g == Gather(e, S, ackd, wSh, wAck, wComp, t2)
     IN ApplyC(e, g, <<>>, got, cnet, TRUE)
  /\ Log([op |-> "call", e |-> e])
  /\ UNCHANGED <<ackd, got, compPend, dnet, dcount, drops, nT2, nT3>>

\* ---- DATA arrives at e
RecvData(p) ==
  LET e == Peer(p.from)
      ok == ~compPend[e] /\ st[e] \in {"est", "pend", "sent"}
      G == IF ok THEN [got EXCEPT ![e] = @ \cup {p.tsn}] ELSE got
      sh == IF ok /\ st[e] = "sent" THEN [wSh EXCEPT ![e] = TRUE] ELSE wSh
      T == IF ok /\ st[e] = "sent" THEN [t2 EXCEPT ![e] = FALSE] ELSE t2
      g == Gather(e, st, ackd, sh, wAck, wComp, T)
  IN /\ p \in dnet /\ dnet' = dnet \ {p}
     /\ got' = G
     /\ Apply(e, g, IF ok THEN <<"sack">> ELSE <<>>, G, cnet)
     /\ Log([op |-> "deliver", from |-> p.from, k |-> "data", n |-> p.n])
     /\ UNCHANGED <<ackd, compPend, dcount, drops, nT2, nT3>>

RecvSack(p) ==
  LET e == Peer(p.from)
      ok == st[e] \in {"est", "pend", "recv"}
      A == IF ok /\ p.cum > ackd[e] THEN [ackd EXCEPT ![e] = p.cum] ELSE ackd
      g == Gather(e, st, A, wSh, wAck, wComp, t2)
  IN /\ p \in cnet /\ p.k = "sack"
     /\ ackd' = A
     /\ Apply(e, g, <<>>, got, cnet \ {p})
     /\ Log([op |-> "deliver", from |-> p.from, k |-> "sack", n |-> p.n, cum |-> p.cum])
     /\ UNCHANGED <<got, compPend, dnet, dcount, drops, nT2, nT3>>

RecvShutdown(p) ==
  LET e == Peer(p.from)
      s == st[e]
  IN /\ p \in cnet /\ p.k = "shutdown"
     /\ IF compPend[e] \/ s \in {"closed"} THEN UNCHANGED <<st, ackd, wSh, wAck, wComp, t2, sentc, ret>> /\ cnet' = cnet \ {p}
        ELSE IF s = "acksent"
        THEN LET g == Gather(e, st, ackd, [wSh EXCEPT ![e] = FALSE], [wAck EXCEPT ![e] = TRUE], wComp, [t2 EXCEPT ![e] = FALSE])
             IN Apply(e, g, <<>>, got, cnet \ {p}) /\ UNCHANGED ackd
        ELSE IF s = "sent"
        THEN LET S == [st EXCEPT ![e] = "acksent"]
                 g == Gather(e, S, ackd, [wSh EXCEPT ![e] = FALSE], [wAck EXCEPT ![e] = TRUE], wComp, [t2 EXCEPT ![e] = FALSE])
             IN Apply(e, g, <<>>, got, cnet \ {p}) /\ UNCHANGED ackd
        ELSE \* est / pend / recv: enter SHUTDOWN-RECEIVED, take the cumulative ack, then ack or keep draining
             LET A == IF p.cum > ackd[e] THEN [ackd EXCEPT ![e] = p.cum] ELSE ackd
                 S == [st EXCEPT ![e] = IF Outstanding(e, A) THEN "recv" ELSE "acksent"]
                 ak == IF Outstanding(e, A) THEN wAck ELSE [wAck EXCEPT ![e] = TRUE]
                 g == Gather(e, S, A, wSh, ak, wComp, t2)
             IN ackd' = A /\ Apply(e, g, <<>>, got, cnet \ {p})
     /\ Log([op |-> "deliver", from |-> p.from, k |-> "shutdown", n |-> p.n])
     /\ UNCHANGED <<got, compPend, dnet, dcount, drops, nT2, nT3>>

RecvShutdownAck(p) ==
  LET e == Peer(p.from) IN
  /\ p \in cnet /\ p.k = "shutdownack"
  /\ IF st[e] \in {"sent", "acksent"}
     THEN LET g == Gather(e, st, ackd, [wSh EXCEPT ![e] = FALSE], [wAck EXCEPT ![e] = FALSE], [wComp EXCEPT ![e] = TRUE], [t2 EXCEPT ![e] = FALSE])
          IN Apply(e, g, <<>>, got, cnet \ {p}) /\ compPend' = [compPend EXCEPT ![e] = ~g.close]
     ELSE UNCHANGED <<st, wSh, wAck, wComp, t2, sentc, ret, compPend>> /\ cnet' = cnet \ {p}
  /\ Log([op |-> "deliver", from |-> p.from, k |-> "shutdownack", n |-> p.n])
  /\ UNCHANGED <<ackd, got, dnet, dcount, drops, nT2, nT3>>

RecvShutdownComplete(p) ==
  LET e == Peer(p.from) IN
  /\ p \in cnet /\ p.k = "shutdowncomplete" /\ cnet' = cnet \ {p}
  /\ IF st[e] = "acksent"
     THEN /\ st' = [st EXCEPT ![e] = "closed"] /\ t2' = [t2 EXCEPT ![e] = FALSE]
          /\ ret' = [ret EXCEPT ![e] = IF @ = "pending" THEN "ok" ELSE @]
     ELSE UNCHANGED <<st, t2, ret>>
  /\ Log([op |-> "deliver", from |-> p.from, k |-> "shutdowncomplete", n |-> p.n])
  /\ UNCHANGED <<ackd, got, wSh, wAck, wComp, compPend, dnet, sentc, dcount, drops, nT2, nT3>>

\* ---- timers
T2(e) ==
  /\ t2[e] /\ ~compPend[e] /\ st[e] \in {"sent", "acksent"} /\ nT2 < MaxT2
  /\ \A p \in cnet : ~(p.from = e /\ p.k \in {"shutdown", "shutdownack"})
  /\ LET sh == IF st[e] = "sent" THEN [wSh EXCEPT ![e] = TRUE] ELSE wSh
         ak == IF st[e] = "acksent" THEN [wAck EXCEPT ![e] = TRUE] ELSE wAck
         g == Gather(e, st, ackd, sh, ak, wComp, t2)
     IN Apply(e, g, <<>>, got, cnet)
  /\ nT2' = nT2 + 1
  /\ Log([op |-> "t2", e |-> e])
  /\ UNCHANGED <<ackd, got, compPend, dnet, dcount, drops, nT3>>
T3(e) ==
  /\ st[e] \in {"est", "pend", "recv"} /\ Outstanding(e, ackd) /\ nT3 < MaxT3
  /\ \A p \in dnet : p.from # e
  /\ dnet' = dnet \cup {[from |-> e, tsn |-> ackd[e] + 1, n |-> dcount[e] + 1]}
  /\ dcount' = [dcount EXCEPT ![e] = @ + 1] /\ nT3' = nT3 + 1
  /\ Log([op |-> "t3", e |-> e])
  /\ UNCHANGED <<st, ackd, got, wSh, wAck, wComp, compPend, t2, ret, cnet, sentc, drops, nT2>>

\* ---- environment
DropD(p) == /\ p \in dnet /\ drops < MaxDrop /\ dnet' = dnet \ {p} /\ drops' = drops + 1
            /\ Log([op |-> "drop", from |-> p.from, k |-> "data", n |-> p.n])
            /\ UNCHANGED <<st, ackd, got, wSh, wAck, wComp, compPend, t2, ret, cnet, sentc, dcount, nT2, nT3>>
DropC(p) == /\ p \in cnet /\ drops < MaxDrop /\ cnet' = cnet \ {p} /\ drops' = drops + 1
            /\ Log([op |-> "drop", from |-> p.from, k |-> p.k, n |-> p.n, cum |-> p.cum])
            /\ UNCHANGED <<st, ackd, got, wSh, wAck, wComp, compPend, t2, ret, dnet, sentc, dcount, nT2, nT3>>
\* the transport of the survivor closes after the peer has gone
ConnClose(e) ==
  /\ st[e] # "closed" /\ st[Peer(e)] = "closed"
  /\ \A p \in cnet \cup dnet : p.from # Peer(e)             \* everything the peer still sent has arrived or was lost
  /\ st' = [st EXCEPT ![e] = "closed"] /\ t2' = [t2 EXCEPT ![e] = FALSE]
  /\ ret' = [ret EXCEPT ![e] = IF @ = "pending" THEN "ok" ELSE @]   \* the call returns nil when the write loop ends
  /\ Log([op |-> "connclose", e |-> e])
  /\ UNCHANGED <<ackd, got, wSh, wAck, wComp, compPend, dnet, cnet, sentc, dcount, drops, nT2, nT3>>

Next == \/ \E e \in EP : Call(e) \/ T2(e) \/ T3(e) \/ ConnClose(e)
        \/ \E p \in dnet : RecvData(p) \/ DropD(p)
        \/ \E p \in cnet : RecvSack(p) \/ RecvShutdown(p) \/ RecvShutdownAck(p) \/ RecvShutdownComplete(p) \/ DropC(p)
Spec == Init /\ [][Next]_vars

\* ---- properties
\* a graceful close (by SHUTDOWN-COMPLETE sent or received, not by the transport) means everything was delivered
GracefulMeansDelivered ==
  \A e \in EP : (ret[e] = "ok" /\ ~(\E i \in DOMAIN ops : ops[i].op = "connclose" /\ ops[i].e = e))
                  => ackd[e] = N[e] /\ 1..N[e] \subseteq got[Peer(e)]
ShutdownAckSound == \A p \in cnet : p.k = "shutdown" => \A t \in 1..p.cum : t \in got[p.from]
AckdSound == \A e \in EP : \A t \in 1..ackd[e] : t \in got[Peer(e)]
BothDone == \A e \in EP : st[e] = "closed"
\* short of an exhausted timer budget (a bound of the model, not of the code) the two sides are never stuck
\* before both have closed
NoStall == nT2 = MaxT2 \/ nT3 = MaxT3 \/ BothDone \/ ENABLED Next \/ Who = {}
TypeOK == \A e \in EP : ackd[e] <= N[e]

View == <<st, ackd, got, wSh, wAck, wComp, compPend, t2, ret,
          {[q EXCEPT !.n = 0] : q \in dnet}, {[q EXCEPT !.n = 0] : q \in cnet}, drops, nT2, nT3>>
EmitCut == Len(ops) < Depth \/ (Len(ops) = Depth /\ PrintT(<<"BEHAVIOUR", ToJson(ops)>>) /\ FALSE)
=============================================================================
