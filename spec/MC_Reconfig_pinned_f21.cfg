SPECIFICATION Spec
CONSTANTS
 MaxInc = 2
 MaxWrites = 2
 MaxDrop = 1
 MaxFire = 2
 DupDetect = FALSE
 FixRenum = TRUE
 Depth = 99
INVARIANTS TypeOK EofOnlyAfterCloseP

VIEW View
CHECK_DEADLOCK FALSE
