SPECIFICATION Spec
CONSTANTS
 Handlers = {1, 2, 3}
 Rounds = 2
 HoldMutexInCallback = TRUE
INVARIANTS NoDeadlock Mutex
CHECK_DEADLOCK FALSE
