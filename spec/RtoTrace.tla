------------------------------ MODULE RtoTrace ------------------------------
(***************************************************************************)
(* Validation of the real rtoManager against Timers!RtoNext: after every   *)
(* sample the RTO lies in [1 s, rtoMax] (for rtoMax >= 1 s) and equals the *)
(* integer-microsecond recomputation within a tolerance that covers the    *)
(* floating-point / integer-division difference (C19).                     *)
(***************************************************************************)
EXTENDS Timers, IOUtils, FiniteSets
Trace == ndJsonDeserialize(IOEnv.VF_TRACE)
VARIABLES l, m, mx, scen, viol
vars == <<l, m, mx, scen, viol>>
E == Trace[l]
IsEv(n) == l <= Len(Trace) /\ Trace[l].ev = n
Tol == 8           \* microseconds: accumulated truncation of the integer recomputation
Init == l = 1 /\ m = RtoInit /\ mx = 60000000 /\ scen = "" /\ viol = {} /\ TLCSet(1, 0)
TrInit == IsEv("rtoinit") /\ m' = RtoInit /\ mx' = E.rtomax_us /\ scen' = E.label /\ viol' = {} /\ l' = l + 1
TrRto == /\ IsEv("rto")
         /\ LET x == RtoNext(m, E.rtt_us, mx)
                lo == IF mx >= 1000000 THEN 1000000 ELSE mx
            IN /\ m' = [x EXCEPT !.srtt = E.srtt_us, !.rttvar = E.rttvar_us]   \* resynchronise: errors do not accumulate
               /\ viol' = viol
                    \cup (IF E.rto_us < lo \/ E.rto_us > MaxI(mx, lo) THEN {[mon |-> "C19_RtoBounds", line |-> l, scen |-> scen, w |-> <<E.rto_us, mx>>]} ELSE {})
                    \cup (IF mx >= 1000000 /\ AbsI(E.rto_us - x.rto) > Tol
                          THEN {[mon |-> "C19_RtoFormula", line |-> l, scen |-> scen, w |-> <<E.rtt_us, E.rto_us, x.rto>>]} ELSE {})
         /\ l' = l + 1 /\ UNCHANGED <<mx, scen>>
TrEnd == /\ IsEv("rtoend") /\ PrintT(<<"VFSCEN", scen, Cardinality(viol), l>>)
         /\ \A v \in viol : PrintT(<<"VFVIOL", ToJson(v)>>)
         /\ viol' = {} /\ l' = l + 1 /\ UNCHANGED <<m, mx, scen>>
Next == TrInit \/ TrRto \/ TrEnd
Spec == Init /\ [][Next]_vars
HighWater == TLCSet(1, MaxI(TLCGet(1), l))
Accepted == TLCGet(1) = Len(Trace) + 1
=============================================================================
