-------------------------------- MODULE Sched --------------------------------
(***************************************************************************)
(* Abstract specification of the sender's pending queue and its three      *)
(* policies (pion/sctp pending_queue.go): message-at-a-time (no            *)
(* interleaving), round-robin and weighted fair queueing (interleaving).   *)
(* A chunk is [id, sid, len, b, e, u].  WFQ tags are kept as integers      *)
(* scaled by Scale (a common multiple of all weights), so the arithmetic   *)
(* is exact.  (C17, C01: fragments of a message leave in order.)           *)
(***************************************************************************)
EXTENDS Integers, Sequences, FiniteSets, FiniteSetsExt, TLC
CONSTANT Scale

MaxI(a, b) == IF a >= b THEN a ELSE b
Get(f, k, d) == IF k \in DOMAIN f THEN f[k] ELSE d
Put(f, k, v) == (k :> v) @@ f
Drop(f, k) == [x \in DOMAIN f \ {k} |-> f[x]]

\* mode "msg": two FIFOs; a message in progress keeps its FIFO selected until its E fragment
\* mode "rr":  per-stream FIFOs, order = rotation of backlogged streams
\* mode "wfq": per-stream FIFOs, fin = finish tag of every queued chunk, sfin = last tag per stream, vt = virtual time
SchedInit(mode) == [mode |-> mode, uq |-> <<>>, oq |-> <<>>, sel |-> "none",
                    qs |-> <<>>, order |-> <<>>, picked |-> -1,
                    fin |-> <<>>, sfin |-> <<>>, vt |-> 0, nb |-> 0, nc |-> 0]

SchedPush(s, c, w) ==
  LET s1 == [s EXCEPT !.nb = @ + c.len, !.nc = @ + 1] IN
  CASE s.mode = "msg" -> IF c.u THEN [s1 EXCEPT !.uq = Append(@, c)] ELSE [s1 EXCEPT !.oq = Append(@, c)]
    [] s.mode = "rr"  -> LET was == Get(s.qs, c.sid, <<>>) IN
                         [s1 EXCEPT !.qs = Put(@, c.sid, Append(was, c)),
                                    !.order = IF was = <<>> THEN Append(@, c.sid) ELSE @]
    [] s.mode = "wfq" -> LET start == MaxI(s.vt, Get(s.sfin, c.sid, 0))
                             f == start + c.len * (Scale \div w)
                         IN [s1 EXCEPT !.qs = Put(@, c.sid, Append(Get(@, c.sid, <<>>), c)),
                                       !.sfin = Put(@, c.sid, f), !.fin = Put(@, c.id, f)]

\* the stream a peek selects (rr: sticky until the pop; wfq: smallest finish tag, chosen afresh by every peek)
WfqPick(s) == LET heads == {sid \in DOMAIN s.qs : s.qs[sid] # <<>>}
                  best == CHOOSE sid \in heads : \A o \in heads :
                             LET fs == s.fin[Head(s.qs[sid]).id] fo == s.fin[Head(s.qs[o]).id] IN fs < fo \/ (fs = fo /\ sid <= o)
              IN best
Backlogged(s) == IF s.mode = "msg" THEN {} ELSE {sid \in DOMAIN s.qs : s.qs[sid] # <<>>}
SchedEmpty(s) == s.nc = 0

\* peek: <<state with the selection remembered, chunk or [none]>>
NoChunk == [none |-> TRUE]
SchedPeek(s) ==
  CASE s.mode = "msg" ->
         IF s.sel = "u" THEN <<s, IF s.uq = <<>> THEN NoChunk ELSE Head(s.uq)>>
         ELSE IF s.sel = "o" THEN <<s, IF s.oq = <<>> THEN NoChunk ELSE Head(s.oq)>>
         ELSE IF s.uq # <<>> THEN <<s, Head(s.uq)>> ELSE IF s.oq # <<>> THEN <<s, Head(s.oq)>> ELSE <<s, NoChunk>>
    [] s.mode = "rr" ->
         IF s.picked >= 0 THEN <<s, Head(s.qs[s.picked])>>
         ELSE IF s.order = <<>> THEN <<s, NoChunk>>
         ELSE <<[s EXCEPT !.picked = Head(s.order)], Head(s.qs[Head(s.order)])>>
    [] s.mode = "wfq" ->
         \* every peek chooses afresh (after defect F27: a selection left over from a peek without a pop used to stick,
         \* was served out of tag order after later pushes, and pushed the virtual time past queued chunks)
         IF Backlogged(s) = {} THEN <<s, NoChunk>>
         ELSE LET p == WfqPick(s) IN <<[s EXCEPT !.picked = p], Head(s.qs[p])>>

\* pop the chunk the preceding peek returned
SchedPop(s0) ==
  LET pk == SchedPeek(s0) s == pk[1] c == pk[2] s1 == [s EXCEPT !.nb = @ - c.len, !.nc = @ - 1] IN
  CASE s.mode = "msg" ->
         LET fromU == IF s.sel = "u" THEN TRUE ELSE IF s.sel = "o" THEN FALSE ELSE c.u IN
         [s1 EXCEPT !.uq = IF fromU THEN Tail(@) ELSE @, !.oq = IF fromU THEN @ ELSE Tail(@),
                    !.sel = IF c.e THEN "none" ELSE IF fromU THEN "u" ELSE "o"]
    [] s.mode = "rr" ->
         LET rest == Tail(s.qs[s.picked]) IN
         [s1 EXCEPT !.qs = IF rest = <<>> THEN Drop(@, s.picked) ELSE Put(@, s.picked, rest),
                    !.order = IF rest = <<>> THEN Tail(@) ELSE Append(Tail(@), s.picked), !.picked = -1]
    [] s.mode = "wfq" ->
         LET rest == Tail(s.qs[s.picked]) IN
         [s1 EXCEPT !.qs = IF rest = <<>> THEN Drop(@, s.picked) ELSE Put(@, s.picked, rest),
                    !.vt = MaxI(@, s.fin[c.id]), !.fin = Drop(@, c.id), !.picked = -1]
=============================================================================
