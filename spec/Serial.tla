------------------------------- MODULE Serial -------------------------------
(***************************************************************************)
(* RFC 1982 serial-number comparisons exactly as written in pion/sctp      *)
(* util.go (the sna16 and sna32 families), generic in the (even) modulus M, plus their    *)
(* characterisation by the difference (b - a) mod M that the other         *)
(* specifications rely on (C16).                                           *)
(***************************************************************************)
EXTENDS Integers
CONSTANT M
Half == M \div 2
Vals == 0..(M - 1)

\* as written in util.go (unsigned arithmetic: i2-i1 is only evaluated when i1 < i2, etc.)
LT(a, b)  == (a < b /\ b - a < Half) \/ (a > b /\ a - b > Half)
LTE(a, b) == a = b \/ LT(a, b)
GT(a, b)  == (a < b /\ b - a >= Half) \/ (a > b /\ a - b <= Half)
GTE(a, b) == a = b \/ GT(a, b)

\* characterisation by the forward distance
D(a, b) == (b - a) % M
LTd(a, b) == D(a, b) # 0 /\ D(a, b) < Half
GTd(a, b) == D(a, b) # 0 /\ D(a, b) >= Half

\* ---- laws (checked by TLC for small M; the same definition text is used for 2^16 and 2^32)
Characterised == \A a, b \in Vals : LT(a, b) = LTd(a, b) /\ GT(a, b) = GTd(a, b)
\* for two values less than half the number space apart exactly one of before / equal / after holds
Trichotomy == \A a, b \in Vals : (D(a, b) # Half) =>
                 /\ (IF LT(a, b) THEN 1 ELSE 0) + (IF a = b THEN 1 ELSE 0) + (IF GT(a, b) THEN 1 ELSE 0) = 1
Antisymmetric == \A a, b \in Vals : (D(a, b) # Half) => (LT(a, b) = GT(b, a))
\* the answer is unchanged when both operands are shifted by the same amount
ShiftInvariant == \A a, b, k \in Vals : LT((a + k) % M, (b + k) % M) = LT(a, b) /\ GT((a + k) % M, (b + k) % M) = GT(a, b)
Consistent == \A a, b \in Vals : LTE(a, b) = ~GT(a, b) \/ D(a, b) = Half
=============================================================================
