SPECIFICATION Spec
CONSTANTS
 MaxInc = 3
 MaxWrites = 2
 MaxDrop = 2
 MaxFire = 2
 DupDetect = TRUE
 FixRenum = TRUE
 Depth = 99
INVARIANTS TypeOK EofOnlyAfterClose NoMidStreamRenumbering

VIEW View
CHECK_DEADLOCK FALSE
