SPECIFICATION Spec
CONSTANTS
 Small = TRUE
 Msgs <- MCMsgs
 RL = 0
 MaxLoss = 1
 MaxT3 = 2
 SkipGapAcked = FALSE
 Depth = 10
INVARIANTS TypeOK 
CONSTRAINT EmitCut
VIEW View
CHECK_DEADLOCK FALSE
