SPECIFICATION Spec
CONSTANTS
 RoleCase = 3
 OptCase = 1
 SilentPeer = FALSE
 Client <- MCClient
 IL <- MCIL
 ZC <- MCZC
 Silent <- MCSilent
 MaxDrop = 2
 MaxDup = 1
 MaxRetry = 3
 Depth = 30
INVARIANTS TypeOK Agreement ConnectOk NoHang SuccessWithinBudget SilentFails

CONSTRAINT Emit
CHECK_DEADLOCK FALSE
