SPECIFICATION Spec
CONSTANTS
 MaxRetrans = 2
 RtoMax = 60000
 Depth = 14
INVARIANT Laws
CONSTRAINT Emit
CHECK_DEADLOCK FALSE
