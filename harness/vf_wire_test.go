package sctp

// Independent SCTP wire decoder used by the verification harness. It shares no code with
// pion/sctp's own codec (only encoding/binary and hash/crc32 from the standard library), so a
// defect in the library's marshal/unmarshal cannot hide itself from the trace.

import (
	"encoding/binary"
	"fmt"
	"hash/crc32"
)

var vfCastagnoli = crc32.MakeTable(crc32.Castagnoli)

func vfCRC32c(raw []byte) uint32 {
	b := make([]byte, len(raw))
	copy(b, raw)
	if len(b) >= 12 {
		b[8], b[9], b[10], b[11] = 0, 0, 0, 0
	}
	return crc32.Checksum(b, vfCastagnoli)
}

// vfSetCRC writes the correct CRC32c into raw (in place).
func vfSetCRC(raw []byte) {
	binary.LittleEndian.PutUint32(raw[8:], vfCRC32c(raw))
}

type vfChunk struct {
	Typ   int
	Flags int
	Len   int // declared length
	Val   []byte
	Pad   []byte
}

type vfPacket struct {
	Sport, Dport int
	Vtag         uint32
	CkField      uint32
	CkClass      string // "ok", "zero", "bad" ; "zero" means field is 0 and real crc is not 0
	Chunks       []vfChunk
	WF           []string // well-formedness problems
	RawLen       int
}

func vfDecodePacket(raw []byte) *vfPacket {
	p := &vfPacket{RawLen: len(raw)}
	if len(raw) < 12 {
		p.WF = append(p.WF, "short-header")
		return p
	}
	p.Sport = int(binary.BigEndian.Uint16(raw[0:]))
	p.Dport = int(binary.BigEndian.Uint16(raw[2:]))
	p.Vtag = binary.BigEndian.Uint32(raw[4:])
	p.CkField = binary.LittleEndian.Uint32(raw[8:])
	crc := vfCRC32c(raw)
	switch {
	case p.CkField == crc:
		p.CkClass = "ok"
	case p.CkField == 0:
		p.CkClass = "zero"
	default:
		p.CkClass = "bad"
	}
	if len(raw)%4 != 0 {
		p.WF = append(p.WF, "packet-len-not-multiple-of-4")
	}
	off := 12
	for off < len(raw) {
		if len(raw)-off < 4 {
			p.WF = append(p.WF, "trailing-bytes")
			break
		}
		c := vfChunk{Typ: int(raw[off]), Flags: int(raw[off+1]), Len: int(binary.BigEndian.Uint16(raw[off+2:]))}
		if c.Len < 4 {
			p.WF = append(p.WF, fmt.Sprintf("chunk-len-%d-lt-4", c.Len))
			break
		}
		if off+c.Len > len(raw) {
			p.WF = append(p.WF, "chunk-len-beyond-packet")
			break
		}
		c.Val = raw[off+4 : off+c.Len]
		padded := (c.Len + 3) &^ 3
		if off+padded > len(raw) {
			p.WF = append(p.WF, "missing-padding")
			padded = len(raw) - off
		}
		c.Pad = raw[off+c.Len : off+padded]
		for _, b := range c.Pad {
			if b != 0 {
				p.WF = append(p.WF, "nonzero-padding")
				break
			}
		}
		p.Chunks = append(p.Chunks, c)
		off += padded
	}
	if len(p.Chunks) == 0 && len(p.WF) == 0 {
		p.WF = append(p.WF, "no-chunks")
	}
	return p
}

type vfTLV struct {
	Typ int
	Len int
	Val []byte
}

// vfParseTLVs parses a parameter / error cause list. ok=false if malformed.
func vfParseTLVs(b []byte) (out []vfTLV, problems []string) {
	off := 0
	for off < len(b) {
		if len(b)-off < 4 {
			problems = append(problems, "tlv-trailing")
			return
		}
		t := vfTLV{Typ: int(binary.BigEndian.Uint16(b[off:])), Len: int(binary.BigEndian.Uint16(b[off+2:]))}
		if t.Len < 4 {
			problems = append(problems, "tlv-len-lt-4")
			return
		}
		if off+t.Len > len(b) {
			problems = append(problems, "tlv-len-beyond")
			return
		}
		t.Val = b[off+4 : off+t.Len]
		out = append(out, t)
		off += (t.Len + 3) &^ 3
	}
	return
}

func vfRel(v, base uint32) int { return int(int32(v - base)) }

var vfChunkNames = map[int]string{0: "data", 64: "idata", 1: "init", 2: "initack", 3: "sack", 4: "hb", 5: "hback",
	6: "abort", 7: "shutdown", 8: "shutdownack", 9: "error", 10: "cookieecho", 11: "cookieack",
	14: "shutdowncomplete", 130: "reconfig", 192: "fwd", 194: "ifwd"}

// vfChunkJSON renders one chunk as a JSON-ready map. txBase is the initial TSN of the packet's
// sender, rxBase the initial TSN of the packet's receiver (used for acknowledgement fields).
// ident maps a DATA payload to (message id, fragment index); may be nil.
// vfSeqBase: per-stream presets of the sender's SSN / MID counters (white-box presets used to reach
// the 16/32-bit wraps quickly); sequence numbers are reported relative to them.
type vfSeqBase struct {
	ssn uint16
	mid uint32
}

func vfChunkJSON(c vfChunk, txBase, rxBase uint32, ident func(sid int, payload []byte, b, e bool, tsn uint32, il bool, fsn int) (int, int)) (m map[string]any, problems []string) {
	return vfChunkJSONb(c, txBase, rxBase, ident, nil)
}

func vfChunkJSONb(c vfChunk, txBase, rxBase uint32, ident func(sid int, payload []byte, b, e bool, tsn uint32, il bool, fsn int) (int, int), seqb func(sid int) vfSeqBase) (m map[string]any, problems []string) {
	sb := func(sid int) vfSeqBase {
		if seqb == nil {
			return vfSeqBase{}
		}
		return seqb(sid)
	}
	name, known := vfChunkNames[c.Typ]
	if !known {
		name = "unknown"
	}
	m = map[string]any{"k": name}
	v := c.Val
	u32 := func(o int) uint32 { return binary.BigEndian.Uint32(v[o:]) }
	u16 := func(o int) int { return int(binary.BigEndian.Uint16(v[o:])) }
	need := func(n int) bool {
		if len(v) < n {
			problems = append(problems, name+"-truncated")
			m["bad"] = true
			return false
		}
		return true
	}
	switch c.Typ {
	case 0, 64:
		hdr := 12
		if c.Typ == 64 {
			hdr = 16
		}
		if !need(hdr) {
			return
		}
		b, e, u, i := c.Flags&2 != 0, c.Flags&1 != 0, c.Flags&4 != 0, c.Flags&8 != 0
		m["tsn"] = vfRel(u32(0), txBase)
		m["sid"] = u16(4)
		m["b"], m["e"], m["u"], m["imm"] = b, e, u, i
		m["il"] = c.Typ == 64
		payload := v[hdr:]
		m["len"] = len(payload)
		if c.Typ == 0 {
			m["ssn"] = int(int16(uint16(u16(6)) - sb(u16(4)).ssn))
			m["mid"] = 0
			m["fsn"] = 0
			m["ppi"] = int(u32(8))
		} else {
			m["ssn"] = 0
			m["mid"] = int(int32(u32(8) - sb(u16(4)).mid))
			if b {
				m["ppi"] = int(u32(12))
				m["fsn"] = 0
			} else {
				m["ppi"] = 0
				m["fsn"] = int(int32(u32(12)))
			}
		}
		id, idx := 0, 0
		if ident != nil {
			fsn := 0
			if c.Typ == 64 && !b {
				fsn = int(int32(u32(12)))
			}
			id, idx = ident(u16(4), payload, b, e, u32(0), c.Typ == 64, fsn)
		}
		m["id"], m["fi"] = id, idx
		if len(payload) == 0 {
			problems = append(problems, "data-empty-payload")
		}
	case 1, 2:
		if !need(16) {
			return
		}
		m["tag"] = u32(0) != 0
		m["arwnd"] = int(int32(u32(4)))
		m["os"], m["is"] = u16(8), u16(10)
		m["itsn"] = vfRel(u32(12), txBase)
		tl, pr := vfParseTLVs(v[16:])
		problems = append(problems, pr...)
		exts := []any{}
		m["cookie"], m["fwdsupp"], m["zca"], m["zcaid"] = false, false, false, 0
		ptypes := []any{}
		for _, t := range tl {
			ptypes = append(ptypes, t.Typ)
			switch t.Typ {
			case 7:
				m["cookie"] = true
				m["cookielen"] = len(t.Val)
			case 0x8008:
				for _, x := range t.Val {
					exts = append(exts, int(x))
				}
			case 0xC000:
				m["fwdsupp"] = true
			case 0x8001:
				m["zca"] = true
				if len(t.Val) >= 4 {
					m["zcaid"] = int(binary.BigEndian.Uint32(t.Val))
				} else {
					problems = append(problems, "zca-short")
				}
			}
		}
		m["exts"] = exts
		m["ptypes"] = ptypes
		if c.Typ == 2 && m["cookie"] == false {
			problems = append(problems, "initack-without-cookie")
		}
	case 3:
		if !need(12) {
			return
		}
		m["cum"] = vfRel(u32(0), rxBase)
		m["arwnd"] = int(int32(u32(4)))
		ng, nd := u16(8), u16(10)
		if len(v) != 12+4*ng+4*nd {
			problems = append(problems, "sack-length-mismatch")
			m["bad"] = true
			m["gaps"], m["dups"] = []any{}, []any{}
			return
		}
		gaps := []any{}
		for i := 0; i < ng; i++ {
			gaps = append(gaps, []any{u16(12 + 4*i), u16(14 + 4*i)})
		}
		dups := []any{}
		for i := 0; i < nd; i++ {
			dups = append(dups, vfRel(u32(12+4*ng+4*i), rxBase))
		}
		m["gaps"], m["dups"] = gaps, dups
	case 4, 5:
		tl, pr := vfParseTLVs(v)
		problems = append(problems, pr...)
		m["info"] = false
		m["infolen"] = 0
		for _, t := range tl {
			if t.Typ == 1 {
				m["info"] = true
				m["infolen"] = len(t.Val)
			}
		}
		if m["info"] == false {
			problems = append(problems, name+"-without-info")
		}
	case 6, 9:
		tl, pr := vfParseTLVs(v)
		problems = append(problems, pr...)
		causes := []any{}
		for _, t := range tl {
			causes = append(causes, t.Typ)
			if t.Typ == 12 {
				m["reason"] = string(t.Val)
			}
			if t.Typ == 13 {
				m["pvtext"] = string(t.Val)
			}
		}
		m["causes"] = causes
		m["tbit"] = c.Flags&1 != 0
	case 7:
		if !need(4) {
			return
		}
		if len(v) != 4 {
			problems = append(problems, "shutdown-length")
		}
		m["cum"] = vfRel(u32(0), rxBase)
	case 8, 11, 14:
		if len(v) != 0 {
			problems = append(problems, name+"-has-value")
		}
	case 10:
		m["cookielen"] = len(v)
		if len(v) == 0 {
			problems = append(problems, "cookieecho-empty")
		}
	case 130:
		tl, pr := vfParseTLVs(v)
		problems = append(problems, pr...)
		params := []any{}
		for _, t := range tl {
			switch t.Typ {
			case 13:
				if len(t.Val) < 12 || (len(t.Val)-12)%2 != 0 {
					problems = append(problems, "resetreq-length")
					continue
				}
				sids := []any{}
				for o := 12; o+2 <= len(t.Val); o += 2 {
					sids = append(sids, int(binary.BigEndian.Uint16(t.Val[o:])))
				}
				params = append(params, map[string]any{"p": "req",
					"rsn":  vfRel(binary.BigEndian.Uint32(t.Val[0:]), txBase),
					"rrsn": vfRel(binary.BigEndian.Uint32(t.Val[4:]), rxBase),
					"last": vfRel(binary.BigEndian.Uint32(t.Val[8:]), txBase), "sids": sids})
			case 16:
				if len(t.Val) < 8 {
					problems = append(problems, "reconfigresp-length")
					continue
				}
				params = append(params, map[string]any{"p": "resp",
					"rsn": vfRel(binary.BigEndian.Uint32(t.Val[0:]), rxBase), "result": int(binary.BigEndian.Uint32(t.Val[4:]))})
			default:
				params = append(params, map[string]any{"p": "other", "typ": t.Typ})
			}
		}
		m["params"] = params
		if len(params) == 0 {
			problems = append(problems, "reconfig-empty")
		}
	case 192:
		if !need(4) {
			return
		}
		m["cum"] = vfRel(u32(0), txBase)
		if (len(v)-4)%4 != 0 {
			problems = append(problems, "fwd-length")
		}
		st := []any{}
		for o := 4; o+4 <= len(v); o += 4 {
			st = append(st, []any{u16(o), int(int16(uint16(u16(o+2)) - sb(u16(o)).ssn))})
		}
		m["streams"] = st
	case 194:
		if !need(4) {
			return
		}
		m["cum"] = vfRel(u32(0), txBase)
		if (len(v)-4)%8 != 0 {
			problems = append(problems, "ifwd-length")
		}
		st := []any{}
		for o := 4; o+8 <= len(v); o += 8 {
			uflag := 0
			if u16(o+2)&1 != 0 {
				uflag = 1
			}
			st = append(st, []any{u16(o), uflag, int(int32(u32(o+4) - sb(u16(o)).mid))})
		}
		m["streams"] = st
	default:
		m["typ"] = c.Typ
	}
	return m, problems
}

// ---------- encoders for forged packets (independent of pion's marshal) ----------

func vfEncChunk(typ, flags int, val []byte) []byte {
	l := 4 + len(val)
	b := make([]byte, (l+3)&^3)
	b[0], b[1] = byte(typ), byte(flags)
	binary.BigEndian.PutUint16(b[2:], uint16(l))
	copy(b[4:], val)
	return b
}

func vfEncTLV(typ int, val []byte) []byte {
	l := 4 + len(val)
	b := make([]byte, (l+3)&^3)
	binary.BigEndian.PutUint16(b[0:], uint16(typ))
	binary.BigEndian.PutUint16(b[2:], uint16(l))
	copy(b[4:], val)
	return b
}

func vfEncPacket(sport, dport int, vtag uint32, ck string, chunks ...[]byte) []byte {
	b := make([]byte, 12)
	binary.BigEndian.PutUint16(b[0:], uint16(sport))
	binary.BigEndian.PutUint16(b[2:], uint16(dport))
	binary.BigEndian.PutUint32(b[4:], vtag)
	for _, c := range chunks {
		b = append(b, c...)
	}
	switch ck {
	case "ok":
		vfSetCRC(b)
	case "bad":
		vfSetCRC(b)
		b[8] ^= 0x5a
		if binary.LittleEndian.Uint32(b[8:]) == 0 {
			b[9] ^= 1
		}
	case "zero":
	}
	return b
}

func vfU32(vs ...uint32) []byte {
	b := make([]byte, 4*len(vs))
	for i, v := range vs {
		binary.BigEndian.PutUint32(b[4*i:], v)
	}
	return b
}

func vfEncData(il bool, tsn uint32, sid, ssn int, mid, fsn uint32, ppi uint32, b, e, u, imm bool, payload []byte) []byte {
	flags := 0
	if e {
		flags |= 1
	}
	if b {
		flags |= 2
	}
	if u {
		flags |= 4
	}
	if imm {
		flags |= 8
	}
	if il {
		v := make([]byte, 16+len(payload))
		binary.BigEndian.PutUint32(v[0:], tsn)
		binary.BigEndian.PutUint16(v[4:], uint16(sid))
		binary.BigEndian.PutUint32(v[8:], mid)
		if b {
			binary.BigEndian.PutUint32(v[12:], ppi)
		} else {
			binary.BigEndian.PutUint32(v[12:], fsn)
		}
		copy(v[16:], payload)
		return vfEncChunk(64, flags, v)
	}
	v := make([]byte, 12+len(payload))
	binary.BigEndian.PutUint32(v[0:], tsn)
	binary.BigEndian.PutUint16(v[4:], uint16(sid))
	binary.BigEndian.PutUint16(v[6:], uint16(ssn))
	binary.BigEndian.PutUint32(v[8:], ppi)
	copy(v[12:], payload)
	return vfEncChunk(0, flags, v)
}

func vfEncSack(cum, arwnd uint32, gaps [][2]int, dups []uint32) []byte {
	v := make([]byte, 12+4*len(gaps)+4*len(dups))
	binary.BigEndian.PutUint32(v[0:], cum)
	binary.BigEndian.PutUint32(v[4:], arwnd)
	binary.BigEndian.PutUint16(v[8:], uint16(len(gaps)))
	binary.BigEndian.PutUint16(v[10:], uint16(len(dups)))
	o := 12
	for _, g := range gaps {
		binary.BigEndian.PutUint16(v[o:], uint16(g[0]))
		binary.BigEndian.PutUint16(v[o+2:], uint16(g[1]))
		o += 4
	}
	for _, d := range dups {
		binary.BigEndian.PutUint32(v[o:], d)
		o += 4
	}
	return vfEncChunk(3, 0, v)
}
