package sctp

// Foreign-peer family: well-formed packets that a conforming peer MAY send but that pion/sctp itself never emits
// (both endpoints of every other family are pion/sctp, so whatever pion never produces is otherwise never received).
// The packets are built by the harness's own encoder, or are genuine handshake packets with one parameter
// rewritten, and are handed over as genuine traffic: every monitor of ObsTrace stays in force.
//
//   window-shrink   a SACK that acknowledges nothing new but advertises a smaller window (the receiver's buffer was
//                   taken away): "the peer's most recently advertised receive window" binds the sender (C10)
//   ifwd-both       one I-FORWARD-TSN that skips an ordered AND an unordered message of the same stream while the
//                   receiver holds a fragment of each (C11: held bytes are released; C07)
//   ext-no-ifwd     a peer whose Supported Extensions list I-DATA and FORWARD-TSN but not I-FORWARD-TSN (C17 / C04:
//                   interleaved framing, and no plain FORWARD-TSN inside it)

import (
	"encoding/binary"
	"fmt"
	"math/rand"
	"os"
	"strings"
	"testing"
	"time"
)

// vfEncIFwd encodes an I-FORWARD-TSN chunk: new cumulative TSN, then (sid, U, mid) entries.
func vfEncIFwd(cum uint32, entries [][3]uint32) []byte {
	v := make([]byte, 4+8*len(entries))
	binary.BigEndian.PutUint32(v, cum)
	for i, e := range entries {
		o := 4 + 8*i
		binary.BigEndian.PutUint16(v[o:], uint16(e[0]))
		binary.BigEndian.PutUint16(v[o+2:], uint16(e[1]&1))
		binary.BigEndian.PutUint32(v[o+4:], e[2])
	}
	return vfEncChunk(194, 0, v)
}

// vfStripExtension returns a copy of an INIT / INIT-ACK packet in whose Supported Extensions parameter (0x8008) the
// chunk type `typ` is replaced by `by` (a type that is listed anyway), with a correct CRC32c. nil if not found.
func vfStripExtension(raw []byte, typ, by byte) []byte {
	b := make([]byte, len(raw))
	copy(b, raw)
	if len(b) < 32 || (b[12] != 1 && b[12] != 2) {
		return nil
	}
	end := 12 + int(binary.BigEndian.Uint16(b[14:]))
	if end > len(b) {
		return nil
	}
	found := false
	for off := 32; off+4 <= end; {
		t, l := binary.BigEndian.Uint16(b[off:]), int(binary.BigEndian.Uint16(b[off+2:]))
		if l < 4 || off+l > end {
			break
		}
		if t == 0x8008 {
			for i := off + 4; i < off+l; i++ {
				if b[i] == typ {
					b[i] = by
					found = true
				}
			}
		}
		off += (l + 3) &^ 3
	}
	if !found {
		return nil
	}
	return vfWithCk(b, "ok")
}

func init() {
	vfModes["foreign"] = func(t *testing.T) {
		shard, nshards := vfEnvInt("VF_SHARD", 0), vfEnvInt("VF_NSHARDS", 1)
		only := os.Getenv("VF_ONLY")
		tr, err := vfNewTrace(vfOut(fmt.Sprintf("foreign-%d.ndjson", shard)))
		if err != nil {
			t.Fatal(err)
		}
		defer tr.close()
		k := 0
		run := func(label string, f func()) {
			k++
			if k%nshards != shard || (only != "" && !strings.Contains(label, only)) {
				return
			}
			vfBubble(t, label, f)
		}
		for _, il := range []bool{false, true} {
			il := il
			// ---- window-shrink
			for _, shrinkTo := range []uint32{2000, 0, 1000} {
				shrinkTo := shrinkTo
				label := fmt.Sprintf("foreign-window-shrink-%d-il%v#%d", shrinkTo, il, k+1)
				run(label, func() {
					w := vfNewWorld(vfWorldOpt{Label: label, Trace: tr, A: vfEpCfg{InitTSN: 500, Tag: 0xA3, IL: il}, B: vfEpCfg{InitTSN: 900, Tag: 0xB3, IL: il, Server: true}})
					if !w.vfConnect() {
						w.finish(true)
						return
					}
					w.open(0, 1, 51)
					w.write(0, 1, 1000, 51)
					w.write(0, 1, 1000, 51)
					// the two messages stay in the network: 2000 bytes are outstanding. The peer now advertises less.
					a := w.ep[0].a
					a.lock.RLock()
					cum := a.cumulativeTSNAckPoint
					a.lock.RUnlock()
					w.inject(0, w.vfForge(0, vfEncSack(cum, shrinkTo, nil, nil)), "foreign-sack", true)
					w.write(0, 1, 1000, 51)
					w.write(0, 1, 1000, 51)
					w.quiesce()
					w.sleep(100 * time.Millisecond)
					w.heal(30 * time.Second)
					w.snapAll = true
					w.quiesce()
					w.tr.emit(map[string]any{"ev": "expect", "drained": true, "t": w.now()})
					w.finish(true)
				})
			}
		}
		// ---- ifwd-both (interleaving only): which class is listed first, which fragment of each message is held
		for _, order := range []int{0, 1} {
			for _, hold := range []int{0, 1} {
				order, hold := order, hold
				label := fmt.Sprintf("foreign-ifwd-both-o%d-h%d#%d", order, hold, k+1)
				run(label, func() {
					w := vfNewWorld(vfWorldOpt{Label: label, Trace: tr, A: vfEpCfg{InitTSN: 700, Tag: 0xA3, IL: true}, B: vfEpCfg{InitTSN: 40, Tag: 0xB3, IL: true, Server: true}})
					if !w.vfConnect() {
						w.finish(true)
						return
					}
					p := int(w.ep[0].a.maxPayloadSize)
					w.open(0, 1, 51)
					w.open(0, 2, 51)
					// stream 2 (reliable) makes the stream known to the peer's application side later; stream 1 carries one
					// ordered and one unordered two-fragment message, both without retransmission
					w.setRel(0, 1, false, ReliabilityTypeRexmit, 0)
					mo, _ := w.write(0, 1, 2*p-10, 51)
					w.setRel(0, 1, true, ReliabilityTypeRexmit, 0)
					mu, _ := w.write(0, 1, 2*p-20, 51)
					// one fragment of each message reaches the peer, the other one is lost
					for r := 0; r < 20; r++ {
						pend := w.pending(0)
						if len(pend) == 0 {
							break
						}
						for _, pk := range pend {
							keep := false
							for _, d := range w.dataIn(pk) {
								if (d.id == mo.ID || d.id == mu.ID) && d.fi == hold && d.first {
									keep = true
								}
							}
							if keep {
								w.deliver(pk.id)
							} else {
								w.drop(pk.id)
							}
						}
					}
					for _, pk := range w.pending(1) { // the peer's SACKs
						w.deliver(pk.id)
					}
					// the sender gives both messages up (T3-rtx); its own I-FORWARD-TSN is lost and replaced by a foreign one
					// that lists both classes of stream 1
					for r, seen := 0, false; r < 10 && !seen; r++ {
						w.tick(2 * time.Second)
						for _, pk := range w.pending(0) {
							if vfFirstKind(pk.raw) == "ifwd" {
								seen = true
							}
							w.drop(pk.id)
						}
					}
					a := w.ep[0].a
					a.lock.RLock()
					last := a.myNextTSN - 1
					a.lock.RUnlock()
					ents := [][3]uint32{{1, 0, 0}, {1, 1, 0}}
					if order == 1 {
						ents = [][3]uint32{{1, 1, 0}, {1, 0, 0}}
					}
					w.accept(1)
					w.inject(1, w.vfForge(1, vfEncIFwd(last, ents)), "foreign-ifwd", true)
					for r := 0; r < 6; r++ {
						for _, pk := range w.pending(-1) {
							if kd := vfFirstKind(pk.raw); pk.from == 0 && (kd == "ifwd" || kd == "idata") {
								w.drop(pk.id)
							} else {
								w.deliver(pk.id)
							}
						}
						w.tick(2 * time.Second)
					}
					// traffic afterwards flows normally
					w.setRel(0, 1, false, ReliabilityTypeReliable, 0)
					w.write(0, 1, 300, 51)
					w.write(0, 2, 200, 51)
					w.heal(60 * time.Second)
					w.snapAll = true
					w.quiesce()
					w.tr.emit(map[string]any{"ev": "expect", "drained": true, "t": w.now()})
					w.finish(true)
				})
			}
		}
		// ---- ext-no-ifwd: who is told that the other side lacks I-FORWARD-TSN (1 = the client, from the INIT-ACK; 2 =
		//      the server, from the INIT)
		for who := 1; who <= 2; who++ {
			who := who
			label := fmt.Sprintf("foreign-ext-no-ifwd-who%d#%d", who, k+1)
			run(label, func() {
				w := vfNewWorld(vfWorldOpt{Label: label, Trace: tr, A: vfEpCfg{InitTSN: 800, Tag: 0xA3, IL: true, NoIFwdAnnounced: who == 2},
					B: vfEpCfg{InitTSN: 60, Tag: 0xB3, IL: true, Server: true, NoIFwdAnnounced: who == 1}})
				w.cfgEvent()
				w.start(1)
				w.start(0)
				w.quiesce()
				for i := 0; i < 12; i++ {
					pend := w.pending(-1)
					if len(pend) == 0 {
						break
					}
					g := pend[0]
					kd := vfFirstKind(g.raw)
					if (kd == "initack" && who == 1) || (kd == "init" && who == 2) {
						if rw := vfStripExtension(g.raw, 194, 130); rw != nil {
							w.drop(g.id)
							w.inject(1-g.from, rw, "ext-rewritten", true)
							continue
						}
					}
					w.deliver(g.id)
				}
				// the side that was told so sends partially reliable data and loses some
				src := who - 1
				w.open(src, 1, 51)
				w.setRel(src, 1, false, ReliabilityTypeRexmit, 0)
				pl := int(w.ep[src].a.maxPayloadSize)
				w.write(src, 1, 100, 51)
				for _, pk := range w.pending(src) {
					w.drop(pk.id)
				}
				w.write(src, 1, 2*pl, 51)
				w.heal(60 * time.Second)
				w.write(src, 1, 50, 51)
				w.heal(30 * time.Second)
				w.snapAll = true
				w.quiesce()
				w.tr.emit(map[string]any{"ev": "expect", "drained": true, "t": w.now()})
				w.finish(true)
			})
		}
	}
}

// ---------------------------------------------------------------------------------------------
// rebundle: the peer's packets arrive bundled differently from how pion/sctp packetises them. Whenever two or more
// packets of one sender are in the network the driver may merge their chunks, in order, into ONE packet (same
// verification tag, total <= the sender's MTU, INIT / INIT-ACK / SHUTDOWN-COMPLETE never bundled, COOKIE-ECHO only as
// first chunk) and hand that over instead. Content and order of the chunks are exactly what the peer sent, so every
// monitor stays in force: [COOKIE-ECHO, DATA], [SACK, DATA], [RE-CONFIG, DATA], [DATA, RE-CONFIG, SACK], [SHUTDOWN, SACK]
// ... none of which pion ever emits.
func (w *vfWorld) rebundle(r func(int) int, mtu int) bool {
	pend := w.pending(-1)
	if len(pend) < 2 {
		return false
	}
	first := pend[0]
	group := []*vfPkt{first}
	size := len(first.raw)
	solo := func(raw []byte, pos int) bool {
		d := vfDecodePacket(raw)
		for i, c := range d.Chunks {
			switch c.Typ {
			case 1, 2, 14: // INIT, INIT-ACK, SHUTDOWN-COMPLETE
				return true
			case 10: // COOKIE-ECHO: first chunk of the packet only
				if pos > 0 || i > 0 {
					return true
				}
			}
		}
		return len(d.Chunks) == 0
	}
	if solo(first.raw, 0) {
		return false
	}
	for _, p := range pend[1:] {
		if p.from != first.from || solo(p.raw, 1) || size+len(p.raw)-12 > mtu || string(p.raw[4:8]) != string(first.raw[4:8]) {
			break
		}
		group = append(group, p)
		size += len(p.raw) - 12
		if r(3) == 0 {
			break
		}
	}
	if len(group) < 2 {
		return false
	}
	merged := make([]byte, 12, size)
	copy(merged, first.raw[:12])
	for _, p := range group {
		merged = append(merged, p.raw[12:]...)
	}
	merged = vfWithCk(merged, "ok")
	if binary.LittleEndian.Uint32(first.raw[8:12]) == 0 { // zero checksum in use: keep it
		merged = vfWithCk(merged, "zero")
	}
	for _, p := range group {
		w.drop(p.id)
	}
	w.inject(1-first.from, merged, "rebundled", true)
	return true
}

func init() {
	vfModes["rebundle"] = func(t *testing.T) {
		shard, nshards := vfEnvInt("VF_SHARD", 0), vfEnvInt("VF_NSHARDS", 1)
		seed := int64(vfEnvInt("VF_SEED", 1))
		n := vfEnvInt("VF_N", 24)
		tr, err := vfNewTrace(vfOut(fmt.Sprintf("rebundle-%d.ndjson", shard)))
		if err != nil {
			t.Fatal(err)
		}
		defer tr.close()
		for k := 0; k < n; k++ {
			if k%nshards != shard {
				continue
			}
			k := k
			il, zc := k%2 == 1, k%4 >= 2
			label := fmt.Sprintf("rebundle-il%v-zc%v#%d-%d", il, zc, seed, k)
			rnd := rand.New(rand.NewSource(seed*1009 + int64(k)))
			vfBubble(t, label, func() {
				w := vfNewWorld(vfWorldOpt{Label: label, Trace: tr, A: vfEpCfg{InitTSN: uint32(1000 * k), Tag: 0xA5, IL: il, ZC: zc},
					B: vfEpCfg{InitTSN: uint32(0) - uint32(3*k), Tag: 0xB5, IL: il, ZC: zc, Server: true}})
				w.cfgEvent()
				w.start(1)
				w.start(0)
				w.quiesce()
				mtu := int(initialMTU)
				step := func() bool {
					if len(w.pending(-1)) == 0 {
						return false
					}
					if rnd.Intn(3) > 0 && w.rebundle(rnd.Intn, mtu) {
						return true
					}
					w.deliver(w.pending(-1)[0].id)
					return true
				}
				pumpAll := func() {
					for i := 0; i < 400 && step(); i++ {
						w.accept(0)
						w.accept(1)
						w.drainReads()
					}
				}
				// handshake: the client writes as soon as its connect call has returned, so that DATA waits next to the
				// handshake packets
				for i := 0; i < 40; i++ {
					w.mu.Lock()
					est := w.ep[0].connRet && w.ep[1].connRet
					w.mu.Unlock()
					if est {
						break
					}
					if a := w.ep[0].a; a != nil && a.getState() == cookieEchoed && w.stream(0, 1) == nil {
						// data written while the COOKIE-ECHO is still under way is queued and sent behind it
						if s, err := a.OpenStream(1, PayloadTypeWebRTCBinary); err == nil {
							w.ep[0].streams[1] = s
							w.ep[0].inc[1]++
							w.tr.emit(map[string]any{"ev": "api", "ep": 0, "op": "open", "sid": 1, "ok": true, "err": "nil", "t": w.now()})
						}
					}
					if !step() {
						w.tick(2 * time.Second)
					}
				}
				if w.stream(0, 1) == nil {
					w.open(0, 1, 51)
				}
				w.open(0, 2, 51)
				w.open(1, 3, 51)
				for round := 0; round < 4; round++ {
					w.write(0, 1, 40+rnd.Intn(300), 51)
					w.write(0, 2, 20+rnd.Intn(100), 51)
					w.write(1, 3, 30+rnd.Intn(200), 53)
					if round == 1 {
						w.write(0, 1, 2500, 51)
					}
					if rnd.Intn(2) == 0 {
						w.sleep(210 * time.Millisecond) // delayed SACKs become due and wait next to DATA
					}
					pumpAll()
				}
				// a stream is closed right behind its last message: RE-CONFIG waits next to DATA
				w.write(0, 2, 60, 51)
				w.closeStream(0, 2)
				w.write(1, 3, 70, 53)
				pumpAll()
				w.sleep(300 * time.Millisecond)
				pumpAll()
				w.heal(30 * time.Second)
				// graceful shutdown with data still queued: SHUTDOWN / SACK / DATA next to each other
				w.write(0, 1, 90, 51)
				w.write(1, 3, 95, 53)
				a := w.ep[0].a
				w.apiAsync(0, "shutdown", func() error { return a.Shutdown(contextBG()) })
				pumpAll()
				w.sleep(300 * time.Millisecond)
				pumpAll()
				w.heal(30 * time.Second)
				w.snapAll = true
				w.quiesce()
				w.tr.emit(map[string]any{"ev": "shutend", "who": 0, "t": w.now()})
				w.finish(true)
			})
		}
	}
}
