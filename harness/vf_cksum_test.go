package sctp

// C13: checksum acceptance rules. Genuine packets captured from a live association are re-delivered
// with their checksum field rewritten (correct / zero / wrong / single- and multi-bit corruption of
// any byte); the specification decides from the harness's own CRC32c what must be accepted.

import (
	"encoding/binary"
	"fmt"
	"math/rand"
	"testing"
	"time"
)

func vfWithCk(raw []byte, ck string) []byte {
	b := make([]byte, len(raw))
	copy(b, raw)
	switch ck {
	case "ok":
		vfSetCRC(b)
	case "zero":
		binary.LittleEndian.PutUint32(b[8:], 0)
	case "bad":
		vfSetCRC(b)
		b[8] ^= 0x40
		if binary.LittleEndian.Uint32(b[8:]) == 0 {
			b[9] ^= 1
		}
	}
	return b
}

func init() {
	vfModes["cksum"] = func(t *testing.T) {
		seed := int64(vfEnvInt("VF_SEED", 1))
		shard, nshards := vfEnvInt("VF_SHARD", 0), vfEnvInt("VF_NSHARDS", 1)
		nflips := vfEnvInt("VF_NFLIPS", 64)
		tr, err := vfNewTrace(vfOut(fmt.Sprintf("cksum-%d.ndjson", shard)))
		if err != nil {
			t.Fatal(err)
		}
		defer tr.close()
		k := 0
		for opt := 0; opt < 4; opt++ {
			for _, il := range []bool{false, true} {
				for variant := 0; variant < 3; variant++ {
					k++
					if k%nshards != shard {
						continue
					}
					zcA, zcB := opt&1 == 1, opt&2 == 2
					label := fmt.Sprintf("cksum-zc%v%v-il%v-v%d#%d", zcA, zcB, il, variant, seed)
					r := rand.New(rand.NewSource(seed*31 + int64(k)))
					vfBubble(t, label, func() {
						w := vfNewWorld(vfWorldOpt{Label: label, Trace: tr, A: vfEpCfg{InitTSN: r.Uint32(), Tag: 0xA7, IL: il, ZC: zcA},
							B: vfEpCfg{InitTSN: r.Uint32(), Tag: 0xB7, IL: il, ZC: zcB, Server: true}})
						// capture the handshake packets for the INIT / COOKIE-ECHO rule
						w.cfgEvent()
						w.start(0)
						w.quiesce()
						w.start(1)
						w.quiesce()
						var initRaw, cookieRaw []byte
						for i := 0; i < 10; i++ {
							p := w.pending(-1)
							if len(p) == 0 {
								break
							}
							switch vfFirstKind(p[0].raw) {
							case "init":
								initRaw = p[0].raw
								// a zero-checksum / corrupted INIT must be ignored whatever was configured
								w.inject(1, vfWithCk(initRaw, "zero"), "ck-zero", true)
								w.inject(1, vfWithCk(initRaw, "bad"), "ck-bad", true)
							case "cookieecho":
								cookieRaw = p[0].raw
								w.inject(1, vfWithCk(cookieRaw, "zero"), "ck-zero", true)
								w.inject(1, vfWithCk(cookieRaw, "bad"), "ck-bad", true)
							}
							w.deliver(p[0].id)
						}
						w.open(0, 1, 51)
						w.open(1, 2, 51)
						// traffic both ways; every genuine packet is preceded by rewritten copies
						for round := 0; round < 3; round++ {
							w.write(0, 1, 100+round, 51)
							w.write(1, 2, 3000, 53)
							for i := 0; i < 30; i++ {
								p := w.pending(-1)
								if len(p) == 0 {
									break
								}
								g := p[0]
								to := 1 - g.from
								switch variant {
								case 0:
									w.inject(to, vfWithCk(g.raw, "bad"), "ck-bad", true)
									w.inject(to, vfWithCk(g.raw, "zero"), "ck-zero", true)
									w.deliver(g.id)
								case 1:
									w.inject(to, vfWithCk(g.raw, "zero"), "ck-zero", true)
									w.inject(to, vfWithCk(g.raw, "ok"), "ck-ok", true)
									w.deliver(g.id)
								case 2:
									// bit flips anywhere in a correctly checksummed copy: all must be rejected
									base := vfWithCk(g.raw, "ok")
									for f := 0; f < nflips; f++ {
										b := make([]byte, len(base))
										copy(b, base)
										nb := 1 + r.Intn(3)
										for x := 0; x < nb; x++ {
											pos := r.Intn(len(b) * 8)
											b[pos/8] ^= 1 << uint(pos%8)
										}
										if vfCRC32c(b) == binary.LittleEndian.Uint32(b[8:]) {
											continue
										}
										w.inject(to, b, "bitflip", false)
									}
									w.deliver(g.id)
								}
							}
							w.accept(0)
							w.accept(1)
							w.drainReads()
						}
						w.heal(10 * time.Second)
						w.snapAll = true
						w.quiesce()
						w.tr.emit(map[string]any{"ev": "expect", "drained": true, "t": w.now()})
						w.finish(true)
					})
				}
			}
		}
	}
}
