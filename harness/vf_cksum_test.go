package sctp

// C13: checksum acceptance rules. Genuine packets captured from a live association are re-delivered
// with their checksum field rewritten (correct / zero / wrong / single- and multi-bit corruption of
// any byte); the specification decides from the harness's own CRC32c what must be accepted.

import (
	"encoding/binary"
	"fmt"
	"math/rand"
	"testing"
	"time"
)

func vfWithCk(raw []byte, ck string) []byte {
	b := make([]byte, len(raw))
	copy(b, raw)
	switch ck {
	case "ok":
		vfSetCRC(b)
	case "zero":
		binary.LittleEndian.PutUint32(b[8:], 0)
	case "bad":
		vfSetCRC(b)
		b[8] ^= 0x40
		if binary.LittleEndian.Uint32(b[8:]) == 0 {
			b[9] ^= 1
		}
	}
	return b
}

// vfRewriteEdmid returns a copy of an INIT / INIT-ACK packet whose Zero Checksum Acceptable parameter (0x8001) names
// the given error detection method, with a correct CRC32c. nil if the packet has no such parameter.
func vfRewriteEdmid(raw []byte, edmid uint32) []byte {
	b := make([]byte, len(raw))
	copy(b, raw)
	if len(b) < 32 || (b[12] != 1 && b[12] != 2) {
		return nil
	}
	end := 12 + int(binary.BigEndian.Uint16(b[14:]))
	if end > len(b) {
		return nil
	}
	found := false
	for off := 32; off+4 <= end; {
		typ, l := binary.BigEndian.Uint16(b[off:]), int(binary.BigEndian.Uint16(b[off+2:]))
		if l < 4 || off+l > end {
			break
		}
		if typ == 0x8001 && l >= 8 {
			binary.BigEndian.PutUint32(b[off+4:], edmid)
			found = true
		}
		off += (l + 3) &^ 3
	}
	if !found {
		return nil
	}
	return vfWithCk(b, "ok")
}

func init() {
	vfModes["cksum"] = func(t *testing.T) {
		seed := int64(vfEnvInt("VF_SEED", 1))
		shard, nshards := vfEnvInt("VF_SHARD", 0), vfEnvInt("VF_NSHARDS", 1)
		nflips := vfEnvInt("VF_NFLIPS", 64)
		tr, err := vfNewTrace(vfOut(fmt.Sprintf("cksum-%d.ndjson", shard)))
		if err != nil {
			t.Fatal(err)
		}
		defer tr.close()
		k := 0
		// 0. "only after the peer advertised acceptance WITH THE DTLS ERROR-DETECTION METHOD": both sides enable zero
		//    checksums, but the parameter of one / both is rewritten in transit to name another method (2, 0x01000000,
		//    0): whoever received that must keep emitting correct CRC32c
		for ei, edmid := range []uint32{2, 0x01000000, 0} {
			for _, il := range []bool{false, true} {
				for who := 1; who <= 3; who++ {
					k++
					if k%nshards != shard {
						continue
					}
					label := fmt.Sprintf("cksum-edmid%d-who%d-il%v#%d", ei, who, il, seed)
					vfBubble(t, label, func() {
						w := vfNewWorld(vfWorldOpt{Label: label, Trace: tr, A: vfEpCfg{InitTSN: 70 + uint32(k), Tag: 0xA8, IL: il, ZC: true, ZCForeign: who&1 != 0},
							B: vfEpCfg{InitTSN: 90 + uint32(k), Tag: 0xB8, IL: il, ZC: true, ZCForeign: who&2 != 0, Server: true}})
						w.cfgEvent()
						w.start(1)
						w.start(0)
						w.quiesce()
						for i := 0; i < 12; i++ {
							p := w.pending(-1)
							if len(p) == 0 {
								break
							}
							g := p[0]
							kd := vfFirstKind(g.raw)
							if (kd == "init" && who&1 != 0) || (kd == "initack" && who&2 != 0) {
								if rw := vfRewriteEdmid(g.raw, edmid); rw != nil {
									w.drop(g.id)
									w.inject(1-g.from, rw, "edmid-rewritten", true)
									continue
								}
							}
							w.deliver(g.id)
						}
						w.open(0, 1, 51)
						w.open(1, 2, 51)
						w.write(0, 1, 100, 51)
						w.write(1, 2, 3000, 53)
						w.heal(10 * time.Second)
						w.snapAll = true
						w.quiesce()
						w.tr.emit(map[string]any{"ev": "expect", "drained": true, "t": w.now()})
						w.finish(true)
					})
				}
			}
		}
		for opt := 0; opt < 4; opt++ {
			for _, il := range []bool{false, true} {
				for variant := 0; variant < 3; variant++ {
					k++
					if k%nshards != shard {
						continue
					}
					zcA, zcB := opt&1 == 1, opt&2 == 2
					label := fmt.Sprintf("cksum-zc%v%v-il%v-v%d#%d", zcA, zcB, il, variant, seed)
					r := rand.New(rand.NewSource(seed*31 + int64(k)))
					vfBubble(t, label, func() {
						w := vfNewWorld(vfWorldOpt{Label: label, Trace: tr, A: vfEpCfg{InitTSN: r.Uint32(), Tag: 0xA7, IL: il, ZC: zcA},
							B: vfEpCfg{InitTSN: r.Uint32(), Tag: 0xB7, IL: il, ZC: zcB, Server: true}})
						// capture the handshake packets for the INIT / COOKIE-ECHO rule
						w.cfgEvent()
						w.start(0)
						w.quiesce()
						w.start(1)
						w.quiesce()
						var initRaw, cookieRaw []byte
						for i := 0; i < 10; i++ {
							p := w.pending(-1)
							if len(p) == 0 {
								break
							}
							switch vfFirstKind(p[0].raw) {
							case "init":
								initRaw = p[0].raw
								// a zero-checksum / corrupted INIT must be ignored whatever was configured
								w.inject(1, vfWithCk(initRaw, "zero"), "ck-zero", true)
								w.inject(1, vfWithCk(initRaw, "bad"), "ck-bad", true)
							case "cookieecho":
								cookieRaw = p[0].raw
								w.inject(1, vfWithCk(cookieRaw, "zero"), "ck-zero", true)
								w.inject(1, vfWithCk(cookieRaw, "bad"), "ck-bad", true)
							}
							w.deliver(p[0].id)
						}
						w.open(0, 1, 51)
						w.open(1, 2, 51)
						// traffic both ways; every genuine packet is preceded by rewritten copies
						for round := 0; round < 3; round++ {
							w.write(0, 1, 100+round, 51)
							w.write(1, 2, 3000, 53)
							for i := 0; i < 30; i++ {
								p := w.pending(-1)
								if len(p) == 0 {
									break
								}
								g := p[0]
								to := 1 - g.from
								switch variant {
								case 0:
									w.inject(to, vfWithCk(g.raw, "bad"), "ck-bad", true)
									w.inject(to, vfWithCk(g.raw, "zero"), "ck-zero", true)
									w.deliver(g.id)
								case 1:
									w.inject(to, vfWithCk(g.raw, "zero"), "ck-zero", true)
									w.inject(to, vfWithCk(g.raw, "ok"), "ck-ok", true)
									w.deliver(g.id)
								case 2:
									// bit flips anywhere in a correctly checksummed copy: all must be rejected
									base := vfWithCk(g.raw, "ok")
									for f := 0; f < nflips; f++ {
										b := make([]byte, len(base))
										copy(b, base)
										nb := 1 + r.Intn(3)
										for x := 0; x < nb; x++ {
											pos := r.Intn(len(b) * 8)
											b[pos/8] ^= 1 << uint(pos%8)
										}
										if vfCRC32c(b) == binary.LittleEndian.Uint32(b[8:]) {
											continue
										}
										w.inject(to, b, "bitflip", false)
									}
									w.deliver(g.id)
								}
							}
							w.accept(0)
							w.accept(1)
							w.drainReads()
						}
						w.heal(10 * time.Second)
						w.snapAll = true
						w.quiesce()
						w.tr.emit(map[string]any{"ev": "expect", "drained": true, "t": w.now()})
						w.finish(true)
					})
				}
			}
		}
	}
}
