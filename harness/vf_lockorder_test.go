package sctp

// Lock-order family (C20, C02; real time, outside any bubble): a handler that holds the association lock is
// made to take long (its log sink blocks) exactly while a retransmission timer expires, so that the timer
// callback and the handler -- which between them take the association lock and the timer's mutex -- run
// against each other. Virtual time cannot express this: a goroutine sleeping under a lock that another one
// waits for stops the bubble's clock. The only verdict is a CERTIFIED deadlock: the association makes no
// progress for 8 s after the episode AND two stack samples one second apart show the same goroutines blocked
// on mutexes inside pion/sctp. Anything else that goes wrong is a machinery failure, not a verdict.

import (
	"fmt"
	"runtime"
	"sort"
	"strings"
	"sync"
	"sync/atomic"
	"testing"
	"time"
)

func vfMutexBlocked() []string {
	buf := make([]byte, 1<<22)
	n := runtime.Stack(buf, true)
	out := []string{}
	for _, g := range strings.Split(string(buf[:n]), "\n\n") {
		lines := strings.Split(g, "\n")
		h := lines[0]
		if !(strings.Contains(h, "sync.Mutex.Lock") || strings.Contains(h, "sync.RWMutex") || strings.Contains(h, "semacquire")) {
			continue
		}
		fn := ""
		for _, l := range lines[1:] {
			if strings.Contains(l, "pion/sctp.") && !strings.Contains(l, "created by") && !strings.Contains(l, ".vf") {
				fn = strings.TrimSpace(l)
				if i := strings.LastIndex(fn, "("); i > 0 {
					fn = fn[:i]
				}
				break
			}
		}
		if fn != "" {
			out = append(out, strings.Fields(h)[1]+" "+strings.TrimPrefix(fn, "github.com/pion/sctp."))
		}
	}
	sort.Strings(out)
	return out
}

func init() {
	vfModes["lockorder-rt"] = func(t *testing.T) {
		shard := vfEnvInt("VF_SHARD", 0)
		tr, err := vfNewTrace(vfOut(fmt.Sprintf("lockorder-rt-%d.ndjson", shard)))
		if err != nil {
			t.Fatal(err)
		}
		defer tr.close()
		// which handler is slowed down (format fragment of a Tracef made under the association lock)
		cases := []struct{ name, pat string }{
			{"sack-vs-t3", "SACK: cumTSN="},
			{"sack-vs-t3-b", "SACK: cumTSN="},
		}
		c := cases[shard%len(cases)]
		il := shard%2 == 1
		label := fmt.Sprintf("lockorder-rt-%s-il%v#%d", c.name, il, shard)
		var armed int32
		slow := &vfSlowLogger{pat: c.pat, d: 1500 * time.Millisecond, armed: &armed}
		// the wire/API history of this real-time run is NOT judged (its timing is real): the world logs into a
		// discarded in-memory trace; the judged trace holds the configuration and the outcome only
		mem, _ := vfNewTrace("")
		w := vfNewWorld(vfWorldOpt{Label: label, Trace: tr, RT: true, NoSnap: true,
			A: vfEpCfg{InitTSN: 1000, Tag: 0xAC, IL: il, SlowLog: slow},
			B: vfEpCfg{InitTSN: 2000, Tag: 0xBC, IL: il, Server: true}})
		w.cfgEvent()
		w.tr = mem
		stopNet := make(chan struct{})
		var netWG sync.WaitGroup
		netWG.Add(1)
		go func() {
			defer netWG.Done()
			for {
				select {
				case <-stopNet:
					return
				case <-w.activity:
				case <-time.After(time.Millisecond):
				}
				for _, p := range w.pending(-1) {
					if q := w.take(p.id); q != nil {
						w.push(1-q.from, q.raw)
					}
				}
			}
		}()
		defer func() { close(stopNet); netWG.Wait() }()
		w.start(1)
		w.start(0)
		est := false
		for i := 0; i < 30000 && !est; i++ {
			time.Sleep(time.Millisecond)
			w.mu.Lock()
			est = w.ep[0].connRet && w.ep[1].connRet && w.ep[0].connErr == nil && w.ep[1].connErr == nil
			w.mu.Unlock()
		}
		if !est {
			t.Fatalf("%s: associations did not establish", label)
		}
		var got int64
		st, err := w.ep[0].a.OpenStream(1, PayloadTypeWebRTCBinary)
		if err != nil {
			t.Fatal(err)
		}
		go func() {
			s, err := w.ep[1].a.AcceptStream()
			if err != nil {
				return
			}
			buf := make([]byte, 1<<16)
			for {
				if _, _, err := s.ReadSCTP(buf); err != nil {
					return
				}
				atomic.AddInt64(&got, 1)
			}
		}()
		send := func(want int64, max time.Duration) bool {
			done := make(chan struct{})
			go func() { st.WriteSCTP([]byte("payload"), PayloadTypeWebRTCBinary); close(done) }() //nolint:errcheck
			dl := time.Now().Add(max)
			for time.Now().Before(dl) {
				if atomic.LoadInt64(&got) >= want {
					select {
					case <-done:
						return true
					default:
					}
				}
				time.Sleep(5 * time.Millisecond)
			}
			return false
		}
		// warm-up: a round trip gives an RTT sample, RTO drops to its minimum (1 s)
		if !send(1, 10*time.Second) {
			t.Fatalf("%s: warm-up message not delivered", label)
		}
		time.Sleep(400 * time.Millisecond) // its SACK has been processed
		// the episode: the SACK for the next message is processed slowly (1.5 s under the association lock)
		// while T3-rtx (1 s) expires
		atomic.StoreInt32(&armed, 1)
		send(2, 4*time.Second)
		for i := 0; i < 3000 && atomic.LoadInt32(&armed) == 1; i++ {
			time.Sleep(time.Millisecond)
		}
		if atomic.LoadInt32(&armed) == 1 {
			t.Fatalf("%s: the slowed-down handler never ran", label)
		}
		time.Sleep(1800 * time.Millisecond) // the handler sleeps 1.5 s under the lock; T3 expires meanwhile
		// afterwards the association must still work
		if send(3, 8*time.Second) {
			tr.emit(map[string]any{"ev": "note", "what": "association alive after the episode", "t": w.now(), "t3": int(w.ep[0].a.stats.getNumT3Timeouts()), "rto": int(w.ep[0].a.rtoMgr.getRTO())})
		} else {
			a := vfMutexBlocked()
			time.Sleep(time.Second)
			b := vfMutexBlocked()
			if len(a) >= 2 && strings.Join(a, "|") == strings.Join(b, "|") {
				ls := []any{}
				for _, x := range a {
					ls = append(ls, x[strings.Index(x, " ")+1:])
				}
				tr.emit(map[string]any{"ev": "deadlock", "name": label, "stacks": ls, "n": len(ls)})
				fmt.Printf("VF-DEADLOCK scenario=%s\n", label)
				return // the wedged associations are left behind; the process ends with this mode
			}
			// no certificate: the machine may simply be starved; give it much longer before calling the driver dead
			if !send(3, 60*time.Second) {
				t.Fatalf("%s: no progress after the episode but no certified lock cycle (mutex-blocked: %v)", label, a)
			}
			tr.emit(map[string]any{"ev": "note", "what": "association alive after the episode (slow)", "t": w.now()})
		}
		w.ep[0].conn.Close()
		w.ep[1].conn.Close()
		w.ep[0].a.Close() //nolint:errcheck
		w.ep[1].a.Close() //nolint:errcheck
		tr.emit(map[string]any{"ev": "end", "t": w.now(), "leaks": 0, "clean": true})
	}
}
