package sctp

// Stream reset family (C14): streams closed by their writer with data queued, the reader closing its
// side on EOF, identifier reuse, with every <= k loss/duplication decision over (kind, sender,
// ordinal) of DATA / SACK / RECONFIG packets.

import (
	"bufio"
	"encoding/json"
	"fmt"
	"math/rand"
	"os"
	"strings"
	"testing"
	"time"
)

type vfReco struct {
	Label   string
	NStr    int
	NMsg    int
	Unord   bool
	IL      bool
	Faults  []vfFault
	Cycles  int
	BWrites bool
	Seq     bool // streams are written and closed one after the other while everything is still queued
	Big     bool // messages large enough to stay queued behind cwnd when the stream is closed
	PR      bool // the streams are partially reliable (no retransmission): a lost tail is abandoned, not re-sent
	Outage  bool // everything is lost for 70 s after the streams were closed (the reconfig timer has no retry limit)
	Base    [2]uint32
}

func vfRunReco(t *testing.T, tr *vfTrace, x vfReco) bool {
	return vfBubble(t, x.Label, func() {
		w := vfNewWorld(vfWorldOpt{Label: x.Label, Trace: tr, A: vfEpCfg{InitTSN: x.Base[0], Tag: 0xA4, IL: x.IL}, B: vfEpCfg{InitTSN: x.Base[1], Tag: 0xB4, IL: x.IL, Server: true}})
		if !w.vfConnect() {
			w.finish(true)
			return
		}
		seenKind := map[[2]any]int{}
		done := map[int]bool{}
		used := make([]bool, len(x.Faults))
		closedByB := map[int]bool{}
		eofSeen := map[int]bool{}
		react := func() {
			// the reader closes its side when it sees EOF (what the data-channel layer does)
			w.accept(0)
			w.accept(1)
			for ep := 0; ep < 2; ep++ {
				for _, sid := range w.sortedSids(ep) {
					for k := 0; k < 100 && w.readable(ep, sid) && !eofSeen[ep*1000+sid]; k++ {
						_, err, did := w.read(ep, sid, 1<<17)
						if !did {
							break
						}
						if err != nil {
							key := ep*1000 + sid
							eofSeen[key] = true
							if !closedByB[key] && w.stream(ep, sid).State() == StreamStateOpen {
								closedByB[key] = true
								w.closeStream(ep, sid)
							}
							break
						}
					}
				}
			}
		}
		step := func() bool {
			pend := w.pending(-1)
			if len(pend) == 0 {
				return false
			}
			pk := pend[0]
			k := vfFirstKind(pk.raw)
			if k == "idata" {
				k = "data"
			}
			if !done[pk.id] {
				done[pk.id] = true
				seenKind[[2]any{k, pk.from}]++
			}
			ord := seenKind[[2]any{k, pk.from}]
			for i, f := range x.Faults {
				if !used[i] && f.kind == k && f.from == pk.from && f.n == ord {
					used[i] = true
					if f.dup {
						w.dup(pk.id)
					} else {
						w.drop(pk.id)
					}
					return true
				}
			}
			w.deliver(pk.id)
			return true
		}
		settle := func(d time.Duration) {
			start := time.Now()
			for time.Since(start) < d {
				react()
				if step() {
					continue
				}
				if w.idle() {
					react()
					if len(w.pending(-1)) == 0 && w.idle() {
						return
					}
					continue
				}
				w.tick(3 * time.Second)
			}
		}
		p := int(w.ep[0].a.maxPayloadSize)
		for cyc := 0; cyc < x.Cycles; cyc++ {
			for sid := 1; sid <= x.NStr; sid++ {
				delete(w.seqBase, [2]int{0, sid})
				w.open(0, sid, 51)
				if x.PR {
					w.setRel(0, sid, x.Unord && sid%2 == 0, ReliabilityTypeRexmit, 0)
				} else if x.Unord && sid%2 == 0 {
					w.setRel(0, sid, true, ReliabilityTypeReliable, 0)
				}
				w.installCallback(0, sid, 0)
				delete(closedByB, 1000+sid)
				delete(closedByB, sid)
				delete(eofSeen, 1000+sid)
				delete(eofSeen, sid)
			}
			if x.Seq {
				// stream by stream: data, close, next stream's data, close ... all queued behind cwnd
				for sid := 1; sid <= x.NStr; sid++ {
					for i := 0; i < x.NMsg; i++ {
						w.write(0, sid, 2*p+i, 51)
					}
					if sid < x.NStr {
						w.closeStream(0, sid)
					}
				}
			} else {
				for i := 0; i < x.NMsg; i++ {
					for sid := 1; sid <= x.NStr; sid++ {
						n := 40 + i
						if x.Big {
							n = 3*p + i
						}
						w.write(0, sid, n, 51)
					}
					if !x.Big {
						step()
					}
				}
			}
			if x.BWrites {
				w.accept(1)
				for sid := 1; sid <= x.NStr; sid++ {
					if w.stream(1, sid) != nil {
						w.write(1, sid, 33, 53)
					}
				}
			}
			for sid := 1; sid <= x.NStr; sid++ {
				if x.Seq && sid < x.NStr {
					continue
				}
				w.closeStream(0, sid)
				// a write after Close must be rejected
				w.write(0, sid, 5, 51)
			}
			if x.Outage {
				for t0 := time.Now(); time.Since(t0) < 70*time.Second; {
					for _, pk := range w.pending(-1) {
						w.drop(pk.id)
					}
					w.tick(5 * time.Second)
				}
			}
			settle(120 * time.Second)
		}
		w.heal(100 * time.Second)
		react()
		w.heal(20 * time.Second)
		w.snapAll = true
		w.quiesce()
		w.tr.emit(map[string]any{"ev": "expect", "drained": true, "t": w.now(), "reset": true})
		w.finish(true)
	})
}

// vfRecoBase: initial TSNs of the two sides. The passive side always starts within a few TSNs of the 32-bit wrap; in one
// scenario of three the closing side does instead, so that the last TSN named by its reset request lies beyond the wrap
// while the data below it is still missing at the peer.
func vfRecoBase(k int) [2]uint32 {
	if k%3 == 2 {
		return [2]uint32{uint32(0) - uint32(1+k%5), uint32(k * 104729)}
	}
	return [2]uint32{uint32(k * 104729), uint32(0) - uint32(k%7)}
}

func init() {
	vfModes["reconfig"] = func(t *testing.T) {
		shard, nshards := vfEnvInt("VF_SHARD", 0), vfEnvInt("VF_NSHARDS", 1)
		full := vfEnvInt("VF_FULL", 0) == 1
		seed := int64(vfEnvInt("VF_SEED", 1))
		tr, err := vfNewTrace(vfOut(fmt.Sprintf("reconfig-%d.ndjson", shard)))
		if err != nil {
			t.Fatal(err)
		}
		defer tr.close()
		var singles []vfFault
		for _, k := range []string{"data", "sack", "reconfig"} {
			for from := 0; from < 2; from++ {
				maxn := 3
				if k == "data" && from == 0 {
					maxn = 9
				}
				for n := 1; n <= maxn; n++ {
					singles = append(singles, vfFault{k, from, n, false})
					if n <= 2 {
						singles = append(singles, vfFault{k, from, n, true})
					}
				}
			}
		}
		sets := [][]vfFault{{}}
		for _, f := range singles {
			sets = append(sets, []vfFault{f})
		}
		for i := range singles {
			for j := i + 1; j < len(singles); j++ {
				sets = append(sets, []vfFault{singles[i], singles[j]})
			}
		}
		r := rand.New(rand.NewSource(seed))
		k := 0
		// partially reliable streams closed while part of their data is lost for good: the reset request names a last
		// TSN that only a FORWARD-TSN will ever cover
		for _, nstr := range []int{1, 2} {
			for _, nmsg := range []int{2, 3} {
				for n := 1; n <= nstr*nmsg; n++ {
					for _, il := range []bool{false, true} {
						k++
						if k%nshards != shard {
							continue
						}
						x := vfReco{Label: fmt.Sprintf("reconfig-pr-s%d-m%d-d%d-il%v#%d", nstr, nmsg, n, il, k), NStr: nstr, NMsg: nmsg, Faults: []vfFault{{"data", 0, n, false}},
							Cycles: 2, IL: il, Unord: k%3 == 0, PR: true, Base: [2]uint32{uint32(k * 104729), uint32(0) - uint32(k%7)}}
						if vfRunReco(t, tr, x) {
							t.Fatalf("scenario %s hung", x.Label)
						}
					}
				}
			}
		}
		// a long outage right after the close: RE-CONFIG requests keep being retransmitted until the path heals
		for _, nstr := range []int{1, 2} {
			for _, il := range []bool{false, true} {
				k++
				if k%nshards != shard {
					continue
				}
				x := vfReco{Label: fmt.Sprintf("reconfig-outage-s%d-il%v#%d", nstr, il, k), NStr: nstr, NMsg: 2, Cycles: 2, IL: il, Outage: true,
					Base: [2]uint32{uint32(k * 104729), uint32(0) - uint32(k%7)}}
				if vfRunReco(t, tr, x) {
					t.Fatalf("scenario %s hung", x.Label)
				}
			}
		}
		for _, nstr := range []int{1, 2, 3} {
			for _, nmsg := range []int{0, 1, 3} {
				for si, fs := range sets {
					if !full && len(fs) == 2 && r.Intn(25) != 0 {
						continue
					}
					if !full && len(fs) == 1 && nstr == 3 && r.Intn(3) != 0 {
						continue
					}
					k++
					if k%nshards != shard {
						continue
					}
					x := vfReco{Label: fmt.Sprintf("reconfig-s%d-m%d-f%d#%d", nstr, nmsg, si, k), NStr: nstr, NMsg: nmsg, Faults: fs, Cycles: 2,
						IL: k%2 == 0, Unord: k%3 == 0, BWrites: k%4 == 0, Big: k%5 == 0, PR: k%5 != 0 && k%7 == 3, Seq: k%3 == 1 && nstr > 1, Base: vfRecoBase(k)}
					if vfRunReco(t, tr, x) {
						t.Fatalf("scenario %s hung", x.Label)
					}
				}
			}
		}
	}
}

// ---------------------------------------------------------------------------------------------
// reco-replay: behaviours of spec/Reconfig.tla (TLC -simulate / BFS, history variable `ops`) replayed
// on real associations. Packets are matched by content: RE-CONFIG packets by (sender, request /
// response, ordinal of that kind from that sender), DATA in order; SACKs are not part of the model and
// are delivered at once. A behaviour the real code cannot follow (a packet the model expects is not
// there) ends as drift, which is not a verdict. Verdicts come from ObsTrace's C14 / delivery monitors
// on the recorded trace.

type vfRcOp struct {
	Op   string `json:"op"`
	E    int    `json:"e"`
	From int    `json:"from"`
	K    string `json:"k"`
	N    int    `json:"n"`
}

func vfRcKind(raw []byte) string {
	d := vfDecodePacket(raw)
	if len(d.Chunks) == 0 {
		return "other"
	}
	kind := "other"
	for _, c := range d.Chunks {
		switch c.Typ {
		case 0, 64:
			return "data"
		case 3:
			if kind == "other" {
				kind = "sack"
			}
		case 130:
			m, _ := vfChunkJSON(c, 0, 0, nil)
			ps, _ := m["params"].([]any)
			for _, p := range ps {
				if pm, ok := p.(map[string]any); ok {
					if pm["p"] == "req" {
						return "req"
					}
					if pm["p"] == "resp" {
						kind = "resp"
					}
				}
			}
		}
	}
	return kind
}

func init() {
	vfModes["reco-replay"] = func(t *testing.T) {
		shard, nshards := vfEnvInt("VF_SHARD", 0), vfEnvInt("VF_NSHARDS", 1)
		f, err := os.Open(os.Getenv("VF_IN"))
		if err != nil {
			t.Fatal(err)
		}
		defer f.Close()
		tr, err := vfNewTrace(vfOut(fmt.Sprintf("rr-%d.ndjson", shard)))
		if err != nil {
			t.Fatal(err)
		}
		defer tr.close()
		sc := bufio.NewScanner(f)
		sc.Buffer(make([]byte, 1<<20), 1<<26)
		k, drifts, done := 0, 0, 0
		for sc.Scan() {
			line := strings.TrimSpace(sc.Text())
			if line == "" {
				continue
			}
			k++
			if k%nshards != shard {
				continue
			}
			var ops []vfRcOp
			if err := json.Unmarshal([]byte(line), &ops); err != nil {
				t.Fatalf("bad behaviour: %v", err)
			}
			label := fmt.Sprintf("reco-replay-il%v#%d", k%2 == 0, k)
			hung := vfBubble(t, label, func() {
				w := vfNewWorld(vfWorldOpt{Label: label, Trace: tr, A: vfEpCfg{InitTSN: uint32(k * 7919), Tag: 0xA9, IL: k%2 == 0}, B: vfEpCfg{InitTSN: uint32(0) - uint32(k%5), Tag: 0xB9, IL: k%2 == 0, Server: true}})
				if !w.vfConnect() {
					w.finish(true)
					return
				}
				ord := map[int]int{}    // pid -> ordinal
				cnt := map[[2]any]int{} // (from, kind) -> packets seen
				scan := func() {
					for _, p := range w.pending(-1) {
						if _, ok := ord[p.id]; ok {
							continue
						}
						kd := vfRcKind(p.raw)
						cnt[[2]any{p.from, kd}]++
						ord[p.id] = cnt[[2]any{p.from, kd}]
					}
				}
				auto := func() {
					for i := 0; i < 50; i++ {
						scan()
						moved := false
						for _, p := range w.pending(-1) {
							if kd := vfRcKind(p.raw); kd == "sack" || kd == "other" {
								w.deliver(p.id)
								moved = true
							}
						}
						if !moved {
							return
						}
					}
				}
				find := func(from int, kd string, n int) *vfPkt {
					scan()
					for _, p := range w.pending(from) {
						if vfRcKind(p.raw) == kd && (n == 0 || ord[p.id] == n) {
							return p
						}
					}
					return nil
				}
				eofB := false
				readB := func() {
					for i := 0; i < 20 && w.readable(1, 1); i++ {
						_, err, did := w.read(1, 1, 1<<16)
						if !did {
							break
						}
						if err != nil {
							eofB = true
							break
						}
					}
				}
				// the object the reader holds is read to its end (data, then EOF) BEFORE a newer incarnation of
				// the identifier is accepted: an inbound reset sets EOF on the old object before a new one can exist
				readA := func() {
					for i := 0; i < 20 && w.readable(0, 1); i++ {
						if _, err, did := w.read(0, 1, 1<<16); !did || err != nil {
							break
						}
					}
				}
				drainB := func() {
					readA()
					readB()
					if w.accept(1) > 0 {
						readB()
					}
				}
				nw := 0
				drift := ""
				race := false
				// every third behaviour runs with a lazy reader: it reads only when it is about to close, so an
				// inbound reset finds unread messages in the stream object (receive-window accounting, C11)
				lazy := k%3 == 0
			loop:
				for _, op := range ops {
					auto()
					if !lazy {
						drainB()
					} else {
						readA()
						w.accept(1) // the application holds the stream object but has not read from it yet
					}
					switch op.Op {
					case "open":
						if w.open(0, 1, 51) == nil {
							drift = "open refused"
							break loop
						}
					case "write":
						nw++
						w.write(0, 1, 40+nw, 51)
					case "close":
						if op.E == 1 {
							eofB = false
							drainB()
							if !eofB || w.stream(1, 1) == nil || w.stream(1, 1).State() != StreamStateOpen {
								drift = "reader has no EOF to react to"
								break loop
							}
						}
						if w.stream(op.E, 1) == nil {
							drift = "no stream to close"
							break loop
						}
						w.closeStream(op.E, 1)
					case "data":
						p := find(0, "data", 0)
						if p == nil {
							drift = "no DATA in flight"
							break loop
						}
						w.deliver(p.id)
						if !lazy {
							drainB()
						} else {
							readA()
							w.accept(1)
						}
					case "deliver", "drop":
						p := find(op.From, op.K, op.N)
						if p == nil {
							drift = fmt.Sprintf("no %s #%d from %d", op.K, op.N, op.From)
							break loop
						}
						if op.Op == "drop" {
							w.drop(p.id)
						} else {
							w.deliver(p.id)
						}
					case "race":
						race = true // directed behaviours: end with Close racing the delivery of what is in the network
					case "fire":
						before := cnt[[2]any{op.E, "req"}]
						for i := 0; i < 40 && cnt[[2]any{op.E, "req"}] == before; i++ {
							w.tick(3 * time.Second)
							auto()
						}
						if cnt[[2]any{op.E, "req"}] == before {
							drift = "reconfig timer did not re-send"
							break loop
						}
					}
				}
				if drift != "" {
					drifts++
					w.tr.emit(map[string]any{"ev": "note", "what": "replay-drift: " + drift, "t": w.now()})
				} else {
					done++
				}
				// every fourth behaviour ends with Close racing the delivery of whatever is still in the network: the
				// packets are handed over and Close is called at once on both sides, without waiting in between
				// (teardown while RE-CONFIG responses are being processed: every timer must end up stopped, C09)
				if (k%4 == 1 || race) && drift == "" {
					for _, p := range w.pending(-1) {
						if q := w.take(p.id); q != nil {
							w.tr.emit(map[string]any{"ev": "rx", "to": 1 - q.from, "pid": q.id, "t": w.now(), "ok": true})
							w.push(1-q.from, q.raw)
						}
					}
					w.tr.emit(map[string]any{"ev": "api", "ep": 0, "op": "close-call", "t": w.now()})
					w.tr.emit(map[string]any{"ev": "api", "ep": 1, "op": "close-call", "t": w.now()})
					done++
					w.finish(true)
					return
				}
				// epilogue: a stream that is still open is written once more (a renumbered or reset incarnation
				// shows as a wrong sequence number on the wire and a message that is never delivered)
				if drift == "" {
					auto()
					drainB()
					if st := w.stream(0, 1); st != nil && st.State() == StreamStateOpen {
						a := w.ep[0].a
						a.lock.RLock()
						_, registered := a.streams[1]
						a.lock.RUnlock()
						if registered {
							nw++
							w.write(0, 1, 40+nw, 51)
						}
					}
				}
				// whatever happened: let everything settle, read everything, judge the history
				for i := 0; i < 30; i++ {
					drainB()
					w.heal(5 * time.Second)
					if w.idle() {
						break
					}
				}
				drainB()
				w.snapAll = true
				w.quiesce()
				w.tr.emit(map[string]any{"ev": "expect", "drained": true, "t": w.now(), "reset": true})
				w.finish(true)
			})
			if hung {
				t.Fatalf("scenario %s hung", label)
			}
		}
		vfWriteJSON(vfOut(fmt.Sprintf("rr-%d.json", shard)), map[string]any{"behaviours": k, "followed": done, "drift": drifts})
	}
}
