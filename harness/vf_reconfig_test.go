package sctp

// Stream reset family (C14): streams closed by their writer with data queued, the reader closing its
// side on EOF, identifier reuse, with every <= k loss/duplication decision over (kind, sender,
// ordinal) of DATA / SACK / RECONFIG packets.

import (
	"fmt"
	"math/rand"
	"testing"
	"time"
)

type vfReco struct {
	Label  string
	NStr   int
	NMsg   int
	Unord  bool
	IL     bool
	Faults []vfFault
	Cycles int
	BWrites bool
	Seq    bool // streams are written and closed one after the other while everything is still queued
	Big    bool // messages large enough to stay queued behind cwnd when the stream is closed
	Base   [2]uint32
}

func vfRunReco(t *testing.T, tr *vfTrace, x vfReco) bool {
	return vfBubble(t, x.Label, func() {
		w := vfNewWorld(vfWorldOpt{Label: x.Label, Trace: tr, A: vfEpCfg{InitTSN: x.Base[0], Tag: 0xA4, IL: x.IL}, B: vfEpCfg{InitTSN: x.Base[1], Tag: 0xB4, IL: x.IL, Server: true}})
		if !w.vfConnect() {
			w.finish(true)
			return
		}
		seenKind := map[[2]any]int{}
		done := map[int]bool{}
		used := make([]bool, len(x.Faults))
		closedByB := map[int]bool{}
		eofSeen := map[int]bool{}
		react := func() {
			// the reader closes its side when it sees EOF (what the data-channel layer does)
			w.accept(0)
			w.accept(1)
			for ep := 0; ep < 2; ep++ {
				for _, sid := range w.sortedSids(ep) {
					for k := 0; k < 100 && w.readable(ep, sid) && !eofSeen[ep*1000+sid]; k++ {
						_, err, did := w.read(ep, sid, 1<<17)
						if !did {
							break
						}
						if err != nil {
							key := ep*1000 + sid
							eofSeen[key] = true
							if !closedByB[key] && w.stream(ep, sid).State() == StreamStateOpen {
								closedByB[key] = true
								w.closeStream(ep, sid)
							}
							break
						}
					}
				}
			}
		}
		step := func() bool {
			pend := w.pending(-1)
			if len(pend) == 0 {
				return false
			}
			pk := pend[0]
			k := vfFirstKind(pk.raw)
			if k == "idata" {
				k = "data"
			}
			if !done[pk.id] {
				done[pk.id] = true
				seenKind[[2]any{k, pk.from}]++
			}
			ord := seenKind[[2]any{k, pk.from}]
			for i, f := range x.Faults {
				if !used[i] && f.kind == k && f.from == pk.from && f.n == ord {
					used[i] = true
					if f.dup {
						w.dup(pk.id)
					} else {
						w.drop(pk.id)
					}
					return true
				}
			}
			w.deliver(pk.id)
			return true
		}
		settle := func(d time.Duration) {
			start := time.Now()
			for time.Since(start) < d {
				react()
				if step() {
					continue
				}
				if w.idle() {
					react()
					if len(w.pending(-1)) == 0 && w.idle() {
						return
					}
					continue
				}
				w.tick(3 * time.Second)
			}
		}
		p := int(w.ep[0].a.maxPayloadSize)
		for cyc := 0; cyc < x.Cycles; cyc++ {
			for sid := 1; sid <= x.NStr; sid++ {
				delete(w.seqBase, [2]int{0, sid})
				w.open(0, sid, 51)
				if x.Unord && sid%2 == 0 {
					w.setRel(0, sid, true, ReliabilityTypeReliable, 0)
				}
				w.installCallback(0, sid, 0)
				delete(closedByB, 1000+sid)
				delete(closedByB, sid)
				delete(eofSeen, 1000+sid)
				delete(eofSeen, sid)
			}
			if x.Seq {
				// stream by stream: data, close, next stream's data, close ... all queued behind cwnd
				for sid := 1; sid <= x.NStr; sid++ {
					for i := 0; i < x.NMsg; i++ {
						w.write(0, sid, 2*p+i, 51)
					}
					if sid < x.NStr {
						w.closeStream(0, sid)
					}
				}
			} else {
				for i := 0; i < x.NMsg; i++ {
					for sid := 1; sid <= x.NStr; sid++ {
						n := 40 + i
						if x.Big {
							n = 3*p + i
						}
						w.write(0, sid, n, 51)
					}
					if !x.Big {
						step()
					}
				}
			}
			if x.BWrites {
				w.accept(1)
				for sid := 1; sid <= x.NStr; sid++ {
					if w.stream(1, sid) != nil {
						w.write(1, sid, 33, 53)
					}
				}
			}
			for sid := 1; sid <= x.NStr; sid++ {
				if x.Seq && sid < x.NStr {
					continue
				}
				w.closeStream(0, sid)
				// a write after Close must be rejected
				w.write(0, sid, 5, 51)
			}
			settle(120 * time.Second)
		}
		w.heal(100 * time.Second)
		react()
		w.heal(20 * time.Second)
		w.snapAll = true
		w.quiesce()
		w.tr.emit(map[string]any{"ev": "expect", "drained": true, "t": w.now(), "reset": true})
		w.finish(true)
	})
}

func init() {
	vfModes["reconfig"] = func(t *testing.T) {
		shard, nshards := vfEnvInt("VF_SHARD", 0), vfEnvInt("VF_NSHARDS", 1)
		full := vfEnvInt("VF_FULL", 0) == 1
		seed := int64(vfEnvInt("VF_SEED", 1))
		tr, err := vfNewTrace(vfOut(fmt.Sprintf("reconfig-%d.ndjson", shard)))
		if err != nil {
			t.Fatal(err)
		}
		defer tr.close()
		var singles []vfFault
		for _, k := range []string{"data", "sack", "reconfig"} {
			for from := 0; from < 2; from++ {
				maxn := 3
				if k == "data" && from == 0 {
					maxn = 9
				}
				for n := 1; n <= maxn; n++ {
					singles = append(singles, vfFault{k, from, n, false})
					if n <= 2 {
						singles = append(singles, vfFault{k, from, n, true})
					}
				}
			}
		}
		sets := [][]vfFault{{}}
		for _, f := range singles {
			sets = append(sets, []vfFault{f})
		}
		for i := range singles {
			for j := i + 1; j < len(singles); j++ {
				sets = append(sets, []vfFault{singles[i], singles[j]})
			}
		}
		r := rand.New(rand.NewSource(seed))
		k := 0
		for _, nstr := range []int{1, 2, 3} {
			for _, nmsg := range []int{0, 1, 3} {
				for si, fs := range sets {
					if !full && len(fs) == 2 && r.Intn(25) != 0 {
						continue
					}
					if !full && len(fs) == 1 && nstr == 3 && r.Intn(3) != 0 {
						continue
					}
					k++
					if k%nshards != shard {
						continue
					}
					x := vfReco{Label: fmt.Sprintf("reconfig-s%d-m%d-f%d#%d", nstr, nmsg, si, k), NStr: nstr, NMsg: nmsg, Faults: fs, Cycles: 2,
						IL: k%2 == 0, Unord: k%3 == 0, BWrites: k%4 == 0, Big: k%5 == 0, Seq: k%3 == 1 && nstr > 1, Base: [2]uint32{uint32(k * 104729), uint32(0) - uint32(k%7)}}
					if vfRunReco(t, tr, x) {
						t.Fatalf("scenario %s hung", x.Label)
					}
				}
			}
		}
	}
}
