package sctp

// Zero-window family (C11, directed): the receiver's buffer is filled with unread complete messages of one
// stream; the sender then has data for ANOTHER stream (and more for the same one). With an advertised window of
// zero only chunks that fill gaps below the highest TSN received may be stored: the window probes must be turned
// away until the application reads. Enumerated over buffer sizes x DATA/I-DATA x which stream the probe is for.

import (
	"fmt"
	"os"
	"strings"
	"testing"
	"time"
)

func init() {
	vfModes["zwdir"] = func(t *testing.T) {
		shard, nshards := vfEnvInt("VF_SHARD", 0), vfEnvInt("VF_NSHARDS", 1)
		tr, err := vfNewTrace(vfOut(fmt.Sprintf("zwdir-%d.ndjson", shard)))
		if err != nil {
			t.Fatal(err)
		}
		defer tr.close()
		k := 0
		for _, buf := range []uint32{3000, 4096, 6000} {
			for _, il := range []bool{false, true} {
				for _, probeSid := range []int{1, 2} {
					for _, msgLen := range []int{700, 1000, -700, 100700} {
						// msgLen < 0: the receiving application has closed ITS direction of stream 1 (Stream.Close resets
						// the outgoing side only): the stream stays registered and readable, the peer keeps sending on it,
						// and what is held there counts against the window like anything else
						halfClosed := msgLen < 0
						if halfClosed {
							msgLen = -msgLen
						}
						// msgLen > 100000: the data sent into the closed window is partially reliable (two retransmissions):
						// window probes count as transmissions, the message is given up and skipped
						prProbe := msgLen > 100000
						if prProbe {
							msgLen -= 100000
						}
						k++
						if k%nshards != shard {
							continue
						}
						label := fmt.Sprintf("zwdir-b%d-il%v-p%d-m%d-h%v-pr%v#%d", buf, il, probeSid, msgLen, halfClosed, prProbe, k)
						if only := os.Getenv("VF_ONLY"); only != "" && !strings.Contains(label, only) {
							continue
						}
						vfBubble(t, label, func() {
							w := vfNewWorld(vfWorldOpt{Label: label, Trace: tr, A: vfEpCfg{InitTSN: uint32(k * 1000), Tag: 0xAE, IL: il}, B: vfEpCfg{InitTSN: 5, Tag: 0xBE, IL: il, Server: true, Buf: buf}})
							if !w.vfConnect() {
								w.finish(true)
								return
							}
							w.open(0, 1, 51)
							w.open(0, 2, 51)
							if halfClosed {
								w.write(0, 1, 50, 51)
								for i := 0; i < 5 && w.pump(8) > 0; i++ {
								}
								w.accept(1)
								w.read(1, 1, 1<<16)
								w.closeStream(1, 1)
								for i := 0; i < 10 && w.pump(8) > 0; i++ {
								}
								w.sleep(250 * time.Millisecond)
								w.pump(8)
							}
							// fill the peer's buffer with complete messages on stream 1 that nobody reads, one at a time,
							// until its window credit is zero (nothing else is left in the sender's queue then)
							for i := 0; i < 40; i++ {
								b := w.ep[1].a
								b.lock.RLock()
								credit := b.getMyReceiverWindowCredit()
								b.lock.RUnlock()
								if credit == 0 {
									break
								}
								w.write(0, 1, msgLen, 51)
								w.pump(8)
								w.sleep(250 * time.Millisecond)
								w.pump(8)
							}
							// more data: for the other stream (nothing readable there) or for the same one
							if prProbe {
								w.setRel(0, probeSid, true, ReliabilityTypeRexmit, 2)
							}
							w.write(0, probeSid, 400, 51)
							w.write(0, 3-probeSid, 300, 51)
							for i := 0; i < 8; i++ {
								w.pump(8)
								w.tick(20 * time.Second)
							}
							// the application finally reads everything
							w.heal(120 * time.Second)
							w.snapAll = true
							w.quiesce()
							w.tr.emit(map[string]any{"ev": "expect", "drained": true, "t": w.now()})
							w.finish(true)
						})
					}
				}
			}
		}
	}
}
