package sctp

// Binding of spec/Timers.tla to the real rtxTimer / ackTimer (lock-step replay of TLC behaviours in
// virtual time) and of RtoNext to the real rtoManager (recorded samples validated by TLC).

import (
	"bufio"
	"encoding/json"
	"fmt"
	"math"
	"math/rand"
	"os"
	"strings"
	"sync"
	"testing"
	"testing/synctest"
	"time"
)

type vfTimerObs struct {
	mu  sync.Mutex
	t0  time.Time
	cbs []map[string]any
}

func (o *vfTimerObs) add(k string, n int) {
	o.mu.Lock()
	defer o.mu.Unlock()
	o.cbs = append(o.cbs, map[string]any{"k": k, "n": n, "t": int(time.Since(o.t0) / time.Millisecond)})
}
func (o *vfTimerObs) onRetransmissionTimeout(id int, n uint) { o.add("timeout", int(n)) }
func (o *vfTimerObs) onRetransmissionFailure(id int)         { o.add("failure", -1) }
func (o *vfTimerObs) onAckTimeout()                          { o.add("ack", 0) }
func (o *vfTimerObs) drain() []map[string]any {
	o.mu.Lock()
	defer o.mu.Unlock()
	c := o.cbs
	o.cbs = nil
	return c
}

type vfTOp struct {
	Op  string `json:"op"`
	Arg int    `json:"arg"`
	Ret bool   `json:"ret"`
	T   int    `json:"t"`
	Cbs []struct {
		K string `json:"k"`
		N int    `json:"n"`
		T int    `json:"t"`
	} `json:"cbs"`
}

func init() {
	vfModes["timers-replay"] = func(t *testing.T) {
		maxRetrans, rtoMax := uint(vfEnvInt("VF_MAXRETRANS", 2)), float64(vfEnvInt("VF_RTOMAX", 4000))
		f, err := os.Open(os.Getenv("VF_IN"))
		if err != nil {
			t.Fatal(err)
		}
		defer f.Close()
		sc := bufio.NewScanner(f)
		sc.Buffer(make([]byte, 1<<20), 1<<26)
		nb, nops := 0, 0
		mism := []map[string]any{}
		for sc.Scan() {
			line := strings.TrimSpace(sc.Text())
			if line == "" {
				continue
			}
			var ops []vfTOp
			if err := json.Unmarshal([]byte(line), &ops); err != nil {
				t.Fatalf("bad behaviour: %v", err)
			}
			nb++
			synctest.Test(t, func(t *testing.T) {
				obs := &vfTimerObs{t0: time.Now()}
				rt := newRTXTimer(0, obs, maxRetrans, rtoMax)
				at := newAckTimer(obs)
				for k, op := range ops {
					field, got := "", ""
					switch op.Op {
					case "start":
						if r := rt.start(float64(op.Arg)); r != op.Ret {
							field, got = "start-ret", fmt.Sprint(r)
						}
					case "stop":
						rt.stop()
					case "close":
						rt.close()
					case "ackstart":
						if r := at.start(); r != op.Ret {
							field, got = "ackstart-ret", fmt.Sprint(r)
						}
					case "ackstop":
						at.stop()
					case "advance":
						time.Sleep(time.Duration(op.Arg) * time.Millisecond)
					}
					synctest.Wait()
					nops++
					cbs := obs.drain()
					if field == "" {
						if len(cbs) != len(op.Cbs) {
							field, got = "callbacks", fmt.Sprint(cbs)
						} else {
							for i := range cbs {
								wantN := op.Cbs[i].N
								if op.Cbs[i].K == "failure" {
									wantN = -1
								}
								if cbs[i]["k"] != op.Cbs[i].K || cbs[i]["n"] != wantN || cbs[i]["t"] != op.Cbs[i].T {
									field, got = "callback", fmt.Sprint(cbs[i])
								}
							}
						}
					}
					if field == "" && int(time.Since(obs.t0)/time.Millisecond) != op.T {
						field, got = "clock", fmt.Sprint(time.Since(obs.t0))
					}
					if field != "" {
						if len(mism) < 30 {
							mism = append(mism, map[string]any{"behaviour": nb, "step": k, "op": op.Op, "arg": op.Arg, "field": field, "got": got, "want": op})
						}
						break
					}
				}
				rt.close()
				at.close()
			})
		}
		vfWriteJSON(vfOut(fmt.Sprintf("timers-replay-%d-%d.json", maxRetrans, int(rtoMax))), map[string]any{"behaviours": nb, "ops": nops, "mismatches": mism})
	}

	// rto-trace: RTT sample sequences fed to the real rtoManager; TLC recomputes in integer microseconds
	vfModes["rto-trace"] = func(t *testing.T) {
		seed := int64(vfEnvInt("VF_SEED", 1))
		n := vfEnvInt("VF_N", 200)
		r := rand.New(rand.NewSource(seed))
		tr, err := vfNewTrace(vfOut("rto-0.ndjson"))
		if err != nil {
			t.Fatal(err)
		}
		defer tr.close()
		grid := []float64{0, 0.001, 0.5, 1, 10, 100, 999, 1000, 1001, 3000, 59999, 60000, 60001, 200000}
		for k := 0; k < n; k++ {
			rtoMax := []float64{0, 1000, 2000, 60000, 500}[k%5]
			m := newRTOManager(rtoMax)
			eff := rtoMax
			if eff == 0 {
				eff = 60000
			}
			tr.emit(map[string]any{"ev": "rtoinit", "rtomax_us": int(eff * 1000), "label": fmt.Sprintf("rto#%d-%d", seed, k)})
			for i := 0; i < 12; i++ {
				rtt := grid[r.Intn(len(grid))]
				if r.Intn(3) == 0 {
					rtt = float64(r.Intn(20000)) / 7
				}
				m.setNewRTT(rtt)
				tr.emit(map[string]any{"ev": "rto", "rtt_us": int(math.Round(rtt * 1000)), "rto_us": int(math.Round(m.getRTO() * 1000)), "srtt_us": int(math.Round(m.srtt * 1000)), "rttvar_us": int(math.Round(m.rttvar * 1000))})
			}
			tr.emit(map[string]any{"ev": "rtoend"})
		}
	}
}
