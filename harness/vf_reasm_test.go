package sctp

// Binding of spec/Reasm.tla to the real reassemblyQueue, both directions (see vf_recv_test.go).

import (
	"bufio"
	"encoding/json"
	"errors"
	"fmt"
	"io"
	"math/rand"
	"os"
	"strings"
	"testing"
)

type vfRChunk struct {
	Tsn int  `json:"tsn"`
	Seq int  `json:"seq"`
	Fi  int  `json:"fi"`
	B   bool `json:"b"`
	E   bool `json:"e"`
	Len int  `json:"len"`
	Ppi int  `json:"ppi"`
	U   bool `json:"u"`
	IL  bool `json:"il"`
	M   int  `json:"m"`
}

type vfRBases struct {
	tsn uint32
	ssn uint16
	mid uint32
}

func (b vfRBases) chunk(c vfRChunk) *chunkPayloadData {
	ud := make([]byte, c.Len)
	for i := range ud {
		ud[i] = 0xEE
	}
	if c.Len >= 2 {
		ud[0], ud[1] = byte(c.M), byte(c.Fi)
	}
	p := &chunkPayloadData{
		tsn: b.tsn + uint32(int32(c.Tsn)), streamIdentifier: 7, unordered: c.U, beginningFragment: c.B, endingFragment: c.E,
		payloadType: PayloadProtocolIdentifier(c.Ppi), userData: ud, iData: c.IL,
	}
	if c.IL {
		p.messageIdentifier = b.mid + uint32(int32(c.Seq))
		p.fragmentSequenceNumber = uint32(c.Fi)
		p.streamSequenceNumber = uint16(p.messageIdentifier)
		if !c.B {
			p.payloadType = 0 // not carried by non-first I-DATA fragments
		}
	} else {
		p.streamSequenceNumber = b.ssn + uint16(int16(c.Seq))
	}
	return p
}

func vfNewReasm(b vfRBases, il bool, maxEntries uint32) *reassemblyQueue {
	q := newReassemblyQueue(7, maxEntries)
	q.nextSSN = b.ssn
	q.nextMID = b.mid
	_ = il
	return q
}

type vfRObs struct {
	Kind     string  // push: complete/other ; read: ok/short/none ; forward: ok
	N        int     // read: byte count
	Ppi      int     // read ok
	Parts    [][]int // read: decoded (message, fragment) pairs
	Nb       int
	Readable bool
	Next     int
	Err      string
}

func vfReasmObserve(q *reassemblyQueue, b vfRBases, il bool) (nb int, readable bool, next int) {
	nb = q.getNumBytes()
	readable = q.isReadable()
	if il {
		next = int(int32(q.nextMID - b.mid))
	} else {
		next = int(int16(q.nextSSN - b.ssn))
	}
	return
}

func vfDecodeParts(buf []byte, lens []int) [][]int { return nil }

// vfReasmRead reads with the given buffer size and decodes the (message, fragment) pairs from the
// chunk payload encoding used by vfRBases.chunk. Chunk boundaries are recovered by scanning for the
// filler pattern: byte0=m, byte1=fi followed by 0xEE filler.
func vfReasmRead(q *reassemblyQueue, bufSize int, lens map[[2]int]int) (o vfRObs) {
	buf := make([]byte, bufSize)
	n, ppi, err := q.read(buf)
	o.N = n
	switch {
	case err == nil:
		o.Kind = "ok"
		o.Ppi = int(ppi)
		o.Parts = [][]int{}
		off := 0
		for off+1 < n {
			m, fi := int(buf[off]), int(buf[off+1])
			l, ok := lens[[2]int{m, fi}]
			if !ok || l <= 0 {
				o.Parts = append(o.Parts, []int{-1, -1})
				break
			}
			o.Parts = append(o.Parts, []int{m, fi})
			off += l
		}
	case errors.Is(err, io.ErrShortBuffer):
		o.Kind = "short"
	case errors.Is(err, errTryAgain):
		o.Kind = "none"
		o.N = 0
	default:
		o.Kind = "err"
		o.Err = err.Error()
	}
	return o
}

type vfReasmOp struct {
	Op  string          `json:"op"`
	Arg json.RawMessage `json:"arg"`
	Res json.RawMessage `json:"res"`
	Nb  int             `json:"nb"`
	Rd  bool            `json:"readable"`
	Nx  int             `json:"next"`
}

type vfReadRes struct {
	Kind  string  `json:"kind"`
	N     int     `json:"n"`
	Ppi   int     `json:"ppi"`
	Parts [][]int `json:"parts"`
}

type vfFwdArg struct {
	T   int `json:"T"`
	Ord int `json:"ord"`
	Uno int `json:"uno"`
}

func (b vfRBases) forward(q *reassemblyQueue, il bool, f vfFwdArg) {
	if f.Ord >= 0 {
		if il {
			q.forwardTSNForOrderedMID(b.mid + uint32(f.Ord))
		} else {
			q.forwardTSNForOrdered(b.ssn + uint16(f.Ord))
		}
	}
	if il {
		if f.Uno >= 0 {
			q.forwardTSNForUnorderedMID(b.mid + uint32(f.Uno))
		}
	} else {
		q.forwardTSNForUnordered(b.tsn + uint32(int32(f.T)))
	}
}

func vfReasmBases(r *rand.Rand, n int) []vfRBases {
	bs := []vfRBases{{0, 0, 0}, {0xFFFFFFFF, 0xFFFF, 0xFFFFFFFF}, {0xFFFFFFFE, 0xFFFE, 0xFFFFFFFE}, {0xFFFFFFFA, 0xFFFD, 0xFFFFFFFD},
		{1 << 31, 1 << 15, 1 << 31}, {(1 << 31) - 2, (1 << 15) - 1, (1 << 31) - 1}, {0xFFFFFFFC, 0, 5}, {7, 0xFFFF, 0xFFFFFFFF}}
	for len(bs) < n {
		bs = append(bs, vfRBases{r.Uint32(), uint16(r.Uint32()), r.Uint32()})
	}
	return bs[:n]
}

func init() {
	vfModes["reasm-replay"] = func(t *testing.T) {
		il := os.Getenv("VF_IL") == "1"
		r := rand.New(rand.NewSource(int64(vfEnvInt("VF_SEED", 1))))
		bases := vfReasmBases(r, vfEnvInt("VF_NBASES", 10))
		f, err := os.Open(os.Getenv("VF_IN"))
		if err != nil {
			t.Fatal(err)
		}
		defer f.Close()
		sc := bufio.NewScanner(f)
		sc.Buffer(make([]byte, 1<<20), 1<<26)
		nb, nops := 0, 0
		mism := []map[string]any{}
		for sc.Scan() {
			line := strings.TrimSpace(sc.Text())
			if line == "" {
				continue
			}
			var ops []vfReasmOp
			if err := json.Unmarshal([]byte(line), &ops); err != nil {
				t.Fatalf("bad behaviour: %v", err)
			}
			nb++
			for bi, base := range bases {
				q := vfNewReasm(base, il, 0)
				lens := map[[2]int]int{}
				for k, op := range ops {
					field, got := "", ""
					func() {
						defer func() {
							if p := recover(); p != nil {
								field, got = "panic", fmt.Sprint(p)
							}
						}()
						switch op.Op {
						case "push":
							var c vfRChunk
							_ = json.Unmarshal(op.Arg, &c)
							lens[[2]int{c.M, c.Fi}] = c.Len
							var want string
							_ = json.Unmarshal(op.Res, &want)
							complete, err := q.pushWithError(base.chunk(c))
							if err != nil {
								field, got = "pusherr", err.Error()
							} else if complete != (want == "complete") {
								field, got = "complete", fmt.Sprint(complete)
							}
						case "read":
							var buf int
							_ = json.Unmarshal(op.Arg, &buf)
							var want vfReadRes
							_ = json.Unmarshal(op.Res, &want)
							o := vfReasmRead(q, buf, lens)
							switch {
							case o.Kind != want.Kind:
								field, got = "readkind", o.Kind+" "+o.Err
							case o.Kind != "none" && o.N != want.N:
								field, got = "readn", fmt.Sprint(o.N)
							case o.Kind == "ok" && o.Ppi != want.Ppi:
								field, got = "readppi", fmt.Sprint(o.Ppi)
							case o.Kind == "ok" && fmt.Sprint(o.Parts) != fmt.Sprint(want.Parts):
								field, got = "readparts", fmt.Sprint(o.Parts)
							}
						case "forward":
							var fa vfFwdArg
							_ = json.Unmarshal(op.Arg, &fa)
							base.forward(q, il, fa)
						}
					}()
					nops++
					if field == "" {
						nbs, rd, nx := vfReasmObserve(q, base, il)
						switch {
						case nbs != op.Nb:
							field, got = "nbytes", fmt.Sprint(nbs)
						case rd != op.Rd:
							field, got = "readable", fmt.Sprint(rd)
						case nx != op.Nx:
							field, got = "next", fmt.Sprint(nx)
						}
					}
					if field != "" {
						if len(mism) < 40 {
							mism = append(mism, map[string]any{"behaviour": nb, "step": k, "base": bi, "op": op.Op, "arg": string(op.Arg), "field": field, "got": got,
								"want": map[string]any{"res": string(op.Res), "nb": op.Nb, "readable": op.Rd, "next": op.Nx}})
						}
						break
					}
				}
			}
		}
		name := "reasm-replay-data.json"
		if il {
			name = "reasm-replay-idata.json"
		}
		vfWriteJSON(vfOut(name), map[string]any{"il": il, "behaviours": nb, "bases": len(bases), "ops": nops, "mismatches": mism})
	}

	// reasm-trace: seeded driver on the real structure over random well-formed universes.
	vfModes["reasm-trace"] = func(t *testing.T) {
		seed := int64(vfEnvInt("VF_SEED", 1))
		shard := vfEnvInt("VF_SHARD", 0)
		n := vfEnvInt("VF_N", 40)
		r := rand.New(rand.NewSource(seed*104729 + int64(shard)))
		tr, err := vfNewTrace(vfOut(fmt.Sprintf("reasm-%d.ndjson", shard)))
		if err != nil {
			t.Fatal(err)
		}
		defer tr.close()
		for k := 0; k < n; k++ {
			il := r.Intn(2) == 0
			bases := vfReasmBases(r, 12)
			base := bases[r.Intn(len(bases))]
			q := vfNewReasm(base, il, 0)
			// universe: 3..7 messages, each 1..4 fragments, ordered/unordered mixed
			type msg struct {
				id, seq, nfrag int
				u              bool
			}
			var msgs []msg
			var chunks []vfRChunk
			nm := 3 + r.Intn(5)
			oseq, useq, tsn := 0, 0, 1
			for i := 1; i <= nm; i++ {
				m := msg{id: i, nfrag: 1 + r.Intn(4), u: r.Intn(3) == 0}
				if m.u {
					m.seq = useq
					useq++
					if !il {
						m.seq = oseq // unordered DATA carries the stream's current SSN
					}
				} else {
					m.seq = oseq
					oseq++
				}
				msgs = append(msgs, m)
				for f := 0; f < m.nfrag; f++ {
					chunks = append(chunks, vfRChunk{Tsn: tsn, Seq: m.seq, Fi: f, B: f == 0, E: f == m.nfrag-1, Len: 2 + r.Intn(9), Ppi: 50 + i%5, U: m.u, IL: il, M: i})
					tsn++
				}
			}
			lens := map[[2]int]int{}
			tr.emit(map[string]any{"ev": "rsinit", "il": il, "label": fmt.Sprintf("reasm#%d-%d-%d", seed, shard, k),
				"wrap": base.tsn > 0xFFFFFF00 || base.ssn > 0xFF00 || base.mid > 0xFFFFFF00})
			pushed := map[int]bool{}
			floor := 0
			emit := func(op string, arg any, res any) {
				nbs, rd, nx := vfReasmObserve(q, base, il)
				tr.emit(map[string]any{"ev": "rs", "op": op, "arg": arg, "res": res, "nb": nbs, "readable": rd, "next": nx})
			}
			for step := 0; step < 3*len(chunks); step++ {
				switch c := r.Intn(10); {
				case c < 6:
					var cand []vfRChunk
					for _, ch := range chunks {
						if !pushed[ch.Tsn] && ch.Tsn > floor {
							cand = append(cand, ch)
						}
					}
					if len(cand) == 0 {
						continue
					}
					ch := cand[r.Intn(len(cand))]
					if r.Intn(3) != 0 {
						ch = cand[0]
					}
					pushed[ch.Tsn] = true
					lens[[2]int{ch.M, ch.Fi}] = ch.Len
					complete, err := q.pushWithError(base.chunk(ch))
					res := "other"
					if complete {
						res = "complete"
					}
					if err != nil {
						res = "err:" + err.Error()
					}
					emit("push", ch, res)
				case c < 9:
					buf := []int{3, 5, 1000}[r.Intn(3)]
					o := vfReasmRead(q, buf, lens)
					parts := o.Parts
					if parts == nil {
						parts = [][]int{}
					}
					emit("read", buf, map[string]any{"kind": o.Kind, "n": o.N, "ppi": o.Ppi, "parts": parts})
				default:
					T := floor + 1 + r.Intn(4)
					if T >= tsn {
						continue
					}
					fa := vfFwdArg{T: T, Ord: -1, Uno: -1}
					for _, ch := range chunks {
						if ch.Tsn <= T {
							if ch.U {
								if ch.Seq > fa.Uno {
									fa.Uno = ch.Seq
								}
							} else if ch.Seq > fa.Ord {
								fa.Ord = ch.Seq
							}
						}
					}
					floor = T
					base.forward(q, il, fa)
					emit("forward", map[string]any{"T": fa.T, "ord": fa.Ord, "uno": fa.Uno}, "ok")
				}
			}
			tr.emit(map[string]any{"ev": "rsend"})
		}
	}
}
