package sctp

import (
	"encoding/json"
	"fmt"
	"os"
	"strconv"
	"testing"
	"testing/synctest"
	"time"
)

// TestVF is the single entry point of the verification harness. VF_MODE selects what to do,
// VF_OUT is the output directory, VF_IN an optional input file, VF_SEED the seed.
func TestVF(t *testing.T) {
	mode := os.Getenv("VF_MODE")
	if mode == "" {
		t.Skip("VF_MODE not set")
	}
	f, ok := vfModes[mode]
	if !ok {
		t.Fatalf("unknown VF_MODE %q", mode)
	}
	f(t)
	if len(vfHung) > 0 {
		t.Fatalf("scenarios hung (real-time watchdog): %v", vfHung)
	}
}

var vfHung []string

var vfModes = map[string]func(t *testing.T){}

func vfEnvInt(name string, def int) int {
	if v := os.Getenv(name); v != "" {
		if n, err := strconv.Atoi(v); err == nil {
			return n
		}
	}
	return def
}

func vfOut(name string) string {
	d := os.Getenv("VF_OUT")
	if d == "" {
		d = os.TempDir()
	}
	return d + "/" + name
}

func vfWriteJSON(path string, v any) {
	b, err := json.MarshalIndent(v, "", " ")
	if err != nil {
		panic(err)
	}
	if err := os.WriteFile(path, b, 0o644); err != nil {
		panic(err)
	}
}

// vfBubble runs f inside a synctest bubble with a real-time watchdog.
func vfBubble(t *testing.T, name string, f func()) (hung bool) {
	done := make(chan struct{})
	go func() {
		defer close(done)
		synctest.Test(t, func(t *testing.T) { f() })
	}()
	select {
	case <-done:
		return false
	case <-time.After(time.Duration(vfEnvInt("VF_WATCHDOG_S", 120)) * time.Second):
		fmt.Fprintf(os.Stderr, "VF-HANG scenario=%s\n", name)
		vfHung = append(vfHung, name)
		return true
	}
}

func init() {
	vfModes["smoke"] = func(t *testing.T) {
		tr, _ := vfNewTrace(vfOut("smoke.ndjson"))
		defer tr.close()
		vfBubble(t, "smoke", func() {
			w := vfNewWorld(vfWorldOpt{Label: "smoke", Trace: tr, A: vfEpCfg{InitTSN: 100}, B: vfEpCfg{InitTSN: 4294967290, Server: true}})
			w.cfgEvent()
			w.start(0)
			w.quiesce()
			w.start(1)
			w.quiesce()
			w.pump(50)
			w.open(0, 1, 51)
			w.write(0, 1, 3000, 51)
			w.pump(50)
			w.accept(1)
			w.read(1, 1, 65536)
			w.pump(50)
			w.finish(true)
		})
	}
}

// pump delivers pending packets in FIFO order until the network is empty (at most n deliveries).
func (w *vfWorld) pump(n int) int {
	k := 0
	for ; k < n; k++ {
		p := w.pending(-1)
		if len(p) == 0 {
			break
		}
		w.deliver(p[0].id)
	}
	return k
}
