package sctp

import (
	"encoding/json"
	"fmt"
	"os"
	"runtime"
	"sort"
	"strconv"
	"strings"
	"testing"
	"testing/synctest"
	"time"
)

// TestVF is the single entry point of the verification harness. VF_MODE selects what to do,
// VF_OUT is the output directory, VF_IN an optional input file, VF_SEED the seed.
func TestVF(t *testing.T) {
	mode := os.Getenv("VF_MODE")
	if mode == "" {
		t.Skip("VF_MODE not set")
	}
	f, ok := vfModes[mode]
	if !ok {
		t.Fatalf("unknown VF_MODE %q", mode)
	}
	f(t)
	if len(vfHung) > 0 {
		t.Fatalf("scenarios hung (real-time watchdog): %v", vfHung)
	}
}

var vfHung []string

var vfModes = map[string]func(t *testing.T){}

func vfEnvInt(name string, def int) int {
	if v := os.Getenv(name); v != "" {
		if n, err := strconv.Atoi(v); err == nil {
			return n
		}
	}
	return def
}

func vfOut(name string) string {
	d := os.Getenv("VF_OUT")
	if d == "" {
		d = os.TempDir()
	}
	return d + "/" + name
}

func vfWriteJSON(path string, v any) {
	b, err := json.MarshalIndent(v, "", " ")
	if err != nil {
		panic(err)
	}
	if err := os.WriteFile(path, b, 0o644); err != nil {
		panic(err)
	}
}

// vfBubble runs f inside a synctest bubble with a real-time watchdog.
func vfBubble(t *testing.T, name string, f func()) (hung bool) {
	done := make(chan struct{})
	go func() {
		defer close(done)
		defer func() {
			// synctest panics in this goroutine when the scenario function has returned while goroutines of
			// the bubble are still blocked for good. The scenario's own end event has already reported them
			// (leak list => C09_NoLeak); the process must survive to run the remaining scenarios.
			if r := recover(); r != nil {
				msg := fmt.Sprint(r)
				if strings.Contains(msg, "blocked goroutines remain") || strings.Contains(msg, "deadlock") {
					fmt.Fprintf(os.Stderr, "VF-BUBBLE-LEAK scenario=%s: %s\n", name, msg)
					if vfCurTrace != nil {
						vfCurTrace.emit(map[string]any{"ev": "bubbleleak", "name": name, "what": msg})
					}
					return
				}
				panic(r)
			}
		}()
		synctest.Test(t, func(t *testing.T) { f() })
	}()
	select {
	case <-done:
		return false
	case <-time.After(time.Duration(vfEnvInt("VF_WATCHDOG_S", 120)) * time.Second):
		// A bubble that makes no progress in real time. If two stack samples show every goroutine of the
		// bubble blocked (none running / runnable / in a syscall) in the same place, the scenario is
		// deadlocked in the real code: that is an observation for the trace (C09/C20), not a harness failure.
		if st := vfStuck(); st != nil && vfCurTrace != nil && vfCurTrace.mu.TryLock() {
			ls := []any{}
			for _, x := range st {
				ls = append(ls, x)
			}
			vfCurTrace.emitLocked(map[string]any{"ev": "deadlock", "name": name, "stacks": ls, "n": len(ls)})
			vfCurTrace.mu.Unlock()
			fmt.Fprintf(os.Stderr, "VF-DEADLOCK scenario=%s\n", name)
			return true
		}
		fmt.Fprintf(os.Stderr, "VF-HANG scenario=%s\n", name)
		vfHung = append(vfHung, name)
		return true
	}
}

var (
	vfCurTrace  *vfTrace            // trace of the world most recently created (scenarios run one at a time)
	vfDeadGoros = map[string]bool{} // goroutines of earlier deadlocked bubbles
)

// vfStuck returns one line per goroutine of synctest bubbles (other than those of earlier deadlocked
// scenarios) if all of them are blocked, at least one of them on a mutex (which is why virtual time cannot
// advance), identically in two samples taken 700 ms apart; nil otherwise.
func vfStuck() []string {
	sample := func() (map[string]string, bool) {
		buf := make([]byte, 1<<22)
		n := runtime.Stack(buf, true)
		m := map[string]string{}
		mutex := false
		for _, g := range strings.Split(string(buf[:n]), "\n\n") {
			lines := strings.Split(g, "\n")
			h := lines[0]
			if !strings.Contains(h, "synctest bubble") {
				continue
			}
			id := strings.Fields(h)[1]
			if vfDeadGoros[id] {
				continue
			}
			if strings.Contains(h, "[running") || strings.Contains(h, "[runnable") || strings.Contains(h, "syscall") || strings.Contains(h, "IO wait") {
				return nil, false
			}
			if strings.Contains(h, "Mutex") {
				mutex = true
			}
			fn := ""
			for _, l := range lines[1:] {
				if strings.Contains(l, "pion/sctp.") && !strings.Contains(l, "created by") {
					fn = strings.TrimSpace(l)
					if i := strings.Index(fn, "("); i > 0 && strings.HasPrefix(fn, "github.com") {
						fn = fn[:strings.LastIndex(fn, "(")]
					}
					break
				}
			}
			st := h[strings.Index(h, "["):]
			if i := strings.Index(st, ","); i > 0 {
				st = st[:i] + "]"
			}
			m[id] = st + " " + strings.TrimPrefix(fn, "github.com/pion/sctp.")
		}
		return m, mutex
	}
	a, mu1 := sample()
	if a == nil || !mu1 {
		return nil
	}
	time.Sleep(700 * time.Millisecond)
	b, mu2 := sample()
	if b == nil || !mu2 || len(a) != len(b) {
		return nil
	}
	out := []string{}
	for id, s := range a {
		if b[id] != s {
			return nil
		}
		out = append(out, s)
	}
	for id := range a {
		vfDeadGoros[id] = true
	}
	sort.Strings(out)
	return out
}

func init() {
	vfModes["smoke"] = func(t *testing.T) {
		tr, _ := vfNewTrace(vfOut("smoke.ndjson"))
		defer tr.close()
		vfBubble(t, "smoke", func() {
			w := vfNewWorld(vfWorldOpt{Label: "smoke", Trace: tr, A: vfEpCfg{InitTSN: 100}, B: vfEpCfg{InitTSN: 4294967290, Server: true}})
			w.cfgEvent()
			w.start(0)
			w.quiesce()
			w.start(1)
			w.quiesce()
			w.pump(50)
			w.open(0, 1, 51)
			w.write(0, 1, 3000, 51)
			w.pump(50)
			w.accept(1)
			w.read(1, 1, 65536)
			w.pump(50)
			w.finish(true)
		})
	}
}

// pump delivers pending packets in FIFO order until the network is empty (at most n deliveries).
func (w *vfWorld) pump(n int) int {
	k := 0
	for ; k < n; k++ {
		p := w.pending(-1)
		if len(p) == 0 {
			break
		}
		w.deliver(p[0].id)
	}
	return k
}
