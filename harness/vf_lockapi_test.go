package sctp

// Lock-order family, API side (C20, C02; real time, outside any bubble; specification spec/StreamLock.tla): the read
// loop of one endpoint is parked inside an inbound handler -- under the association lock, just before it calls into
// a stream (its log sink blocks for 1.5 s) -- and meanwhile every public call on that stream is started from
// application goroutines. Handlers take association lock -> stream lock; the public calls must never hold the stream
// lock while they wait for the association lock. The only verdict is a CERTIFIED lock cycle: calls that have not
// returned 8 s after the handler went on AND two stack samples one second apart showing the same goroutines blocked
// on mutexes inside pion/sctp. Anything else that goes wrong is a machinery failure, not a verdict.

import (
	"fmt"
	"strings"
	"sync"
	"sync/atomic"
	"testing"
	"time"
)

func init() {
	vfModes["lockapi-rt"] = func(t *testing.T) {
		shard := vfEnvInt("VF_SHARD", 0)
		tr, err := vfNewTrace(vfOut(fmt.Sprintf("lockapi-rt-%d.ndjson", shard)))
		if err != nil {
			t.Fatal(err)
		}
		defer tr.close()
		// gate: which handler is parked (format fragment of a log call made under the association lock) and on which side
		gates := []struct {
			name, pat string
			side      int // endpoint whose read loop is parked; the calls are made on ITS stream object
		}{
			{"data", "DATA: tsn=", 1},
			{"reset", "resetStream(): senderLastTSN=%d <= peerLastTSN", 1},
			{"sack", "SACK: cumTSN advanced", 0},
			{"fwd", "FwdTSN:", 1},
		}
		sets := []string{"use", "close"}
		g := gates[shard%len(gates)]
		set := sets[(shard/len(gates))%len(sets)]
		il := (shard/(len(gates)*len(sets)))%2 == 1
		label := fmt.Sprintf("lockapi-rt-%s-%s-il%v#%d", g.name, set, il, shard)
		var armed int32
		slow := &vfSlowLogger{pat: g.pat, d: 1500 * time.Millisecond, armed: &armed}
		mem, _ := vfNewTrace("")
		cfgA := vfEpCfg{InitTSN: 1000, Tag: 0xAD, IL: il}
		cfgB := vfEpCfg{InitTSN: 2000, Tag: 0xBD, IL: il, Server: true}
		if g.side == 0 {
			cfgA.SlowLog = slow
		} else {
			cfgB.SlowLog = slow
		}
		w := vfNewWorld(vfWorldOpt{Label: label, Trace: tr, RT: true, NoSnap: true, A: cfgA, B: cfgB})
		w.cfgEvent()
		w.tr = mem
		stopNet := make(chan struct{})
		var netWG sync.WaitGroup
		var dropData int32 // drop the next n DATA packets from endpoint 0
		netWG.Add(1)
		go func() {
			defer netWG.Done()
			for {
				select {
				case <-stopNet:
					return
				case <-w.activity:
				case <-time.After(time.Millisecond):
				}
				for _, p := range w.pending(-1) {
					if q := w.take(p.id); q != nil {
						if k := vfFirstKind(q.raw); q.from == 0 && (k == "data" || k == "idata") && atomic.LoadInt32(&dropData) > 0 {
							atomic.AddInt32(&dropData, -1)
							continue
						}
						w.push(1-q.from, q.raw)
					}
				}
			}
		}()
		defer func() { close(stopNet); netWG.Wait() }()
		w.start(1)
		w.start(0)
		est := false
		for i := 0; i < 30000 && !est; i++ {
			time.Sleep(time.Millisecond)
			w.mu.Lock()
			est = w.ep[0].connRet && w.ep[1].connRet && w.ep[0].connErr == nil && w.ep[1].connErr == nil
			w.mu.Unlock()
		}
		if !est {
			t.Fatalf("%s: associations did not establish", label)
		}
		a, b := w.ep[0].a, w.ep[1].a
		sa, err := a.OpenStream(1, PayloadTypeWebRTCBinary)
		if err != nil {
			t.Fatal(err)
		}
		if g.name == "fwd" {
			sa.SetReliabilityParams(false, ReliabilityTypeRexmit, 0)
		}
		// warm-up: the stream exists on both sides, an RTT sample brings RTO to its minimum
		if _, err := sa.WriteSCTP([]byte("warm-up"), PayloadTypeWebRTCBinary); err != nil {
			t.Fatal(err)
		}
		sb, err := b.AcceptStream()
		if err != nil {
			t.Fatal(err)
		}
		buf := make([]byte, 1<<16)
		if _, _, err := sb.ReadSCTP(buf); err != nil {
			t.Fatal(err)
		}
		time.Sleep(400 * time.Millisecond)
		target := sb
		if g.side == 0 {
			target = sa
		}
		// the episode
		atomic.StoreInt32(&armed, 1)
		switch g.name {
		case "data", "sack":
			go sa.WriteSCTP([]byte("episode"), PayloadTypeWebRTCBinary) //nolint:errcheck
		case "reset":
			go func() {
				sa.WriteSCTP([]byte("last"), PayloadTypeWebRTCBinary) //nolint:errcheck
				sa.Close()                                            //nolint:errcheck
			}()
		case "fwd":
			atomic.StoreInt32(&dropData, 1)
			go sa.WriteSCTP([]byte("lost"), PayloadTypeWebRTCBinary) //nolint:errcheck
		}
		for i := 0; i < 8000 && atomic.LoadInt32(&armed) == 1; i++ {
			time.Sleep(time.Millisecond)
		}
		if atomic.LoadInt32(&armed) == 1 {
			t.Fatalf("%s: the parked handler never ran", label)
		}
		// the read loop now sleeps 1.5 s under the association lock: start the calls
		var pendingCalls int32
		var mu sync.Mutex
		open := map[string]bool{}
		call := func(name string, f func()) {
			atomic.AddInt32(&pendingCalls, 1)
			mu.Lock()
			open[name] = true
			mu.Unlock()
			go func() {
				f()
				mu.Lock()
				delete(open, name)
				mu.Unlock()
				atomic.AddInt32(&pendingCalls, -1)
			}()
		}
		call("SetReliabilityParams", func() { target.SetReliabilityParams(false, ReliabilityTypeReliable, 0) })
		call("BufferedAmount", func() { target.BufferedAmount() })
		call("SetBufferedAmountLowThreshold", func() { target.SetBufferedAmountLowThreshold(1) })
		call("OnBufferedAmountLow", func() { target.OnBufferedAmountLow(func() {}) })
		call("State", func() { target.State() })
		call("StreamIdentifier", func() { target.StreamIdentifier() })
		call("SetReadDeadline", func() { target.SetReadDeadline(time.Now().Add(3 * time.Second)) }) //nolint:errcheck
		call("ReadSCTP", func() { target.ReadSCTP(make([]byte, 1<<16)) })                           //nolint:errcheck
		if set == "use" {
			call("WriteSCTP", func() { target.WriteSCTP([]byte("from the application"), PayloadTypeWebRTCBinary) }) //nolint:errcheck
			call("WriteSCTP-2", func() { target.WriteSCTP([]byte("and again"), PayloadTypeWebRTCBinary) })          //nolint:errcheck
		} else {
			call("Close", func() { target.Close() }) //nolint:errcheck
			time.Sleep(50 * time.Millisecond)
			call("Close-2", func() { target.Close() })                                                       //nolint:errcheck
			call("WriteSCTP-after-close", func() { target.WriteSCTP([]byte("x"), PayloadTypeWebRTCBinary) }) //nolint:errcheck
		}
		time.Sleep(1800 * time.Millisecond) // the handler goes on
		dl := time.Now().Add(8 * time.Second)
		for time.Now().Before(dl) && atomic.LoadInt32(&pendingCalls) > 0 {
			time.Sleep(5 * time.Millisecond)
		}
		if atomic.LoadInt32(&pendingCalls) == 0 {
			tr.emit(map[string]any{"ev": "note", "what": "every call returned after the episode", "t": w.now()})
		} else {
			x := vfMutexBlocked()
			time.Sleep(time.Second)
			y := vfMutexBlocked()
			mu.Lock()
			names := []string{}
			for k := range open {
				names = append(names, k)
			}
			mu.Unlock()
			if len(x) >= 2 && strings.Join(x, "|") == strings.Join(y, "|") {
				ls := []any{}
				for _, s := range x {
					ls = append(ls, s[strings.Index(s, " ")+1:])
				}
				tr.emit(map[string]any{"ev": "deadlock", "name": label, "stacks": ls, "n": len(ls), "calls": fmt.Sprint(names)})
				fmt.Printf("VF-DEADLOCK scenario=%s\n", label)
				return // the wedged associations are left behind; the process ends with this mode
			}
			// no certificate: the machine may simply be starved; give it much longer before calling the driver dead
			dl = time.Now().Add(60 * time.Second)
			for time.Now().Before(dl) && atomic.LoadInt32(&pendingCalls) > 0 {
				time.Sleep(5 * time.Millisecond)
			}
			if atomic.LoadInt32(&pendingCalls) > 0 {
				t.Fatalf("%s: calls %v did not return but no certified lock cycle (mutex-blocked: %v)", label, names, x)
			}
			tr.emit(map[string]any{"ev": "note", "what": "every call returned after the episode (slow)", "t": w.now()})
		}
		w.ep[0].conn.Close()
		w.ep[1].conn.Close()
		a.Close() //nolint:errcheck
		b.Close() //nolint:errcheck
		tr.emit(map[string]any{"ev": "end", "t": w.now(), "leaks": 0, "clean": true})
	}
}

// setters-rt (real time; specification spec/StreamLock.tla, negative control ReentrantRLock): one goroutine writes a
// few hundred messages on a stream while several others hammer every setter and accessor of that stream (write-lock
// and read-lock requests arriving all the time) and of the association, over a free-running loss-free network. The
// write loop reads the stream's parameters under the stream's lock for every chunk it gathers. The only verdict is a
// CERTIFIED lock cycle: goroutines that have not finished 8 s after the writer's last call AND two stack samples one
// second apart showing the same goroutines blocked on mutexes inside pion/sctp.
func init() {
	vfModes["setters-rt"] = func(t *testing.T) {
		shard := vfEnvInt("VF_SHARD", 0)
		tr, err := vfNewTrace(vfOut(fmt.Sprintf("setters-rt-%d.ndjson", shard)))
		if err != nil {
			t.Fatal(err)
		}
		defer tr.close()
		kinds := []struct {
			name  string
			rtype byte
			rval  uint32
			unord bool
		}{
			{"rexmit0", ReliabilityTypeRexmit, 0, false},
			{"timed", ReliabilityTypeTimed, 1, true},
			{"reliable", ReliabilityTypeReliable, 0, false},
			{"rexmit1-unordered", ReliabilityTypeRexmit, 1, true},
		}
		kd := kinds[shard%len(kinds)]
		il := (shard/len(kinds))%2 == 1
		label := fmt.Sprintf("setters-rt-%s-il%v#%d", kd.name, il, shard)
		mem, _ := vfNewTrace("")
		w := vfNewWorld(vfWorldOpt{Label: label, Trace: tr, RT: true, NoSnap: true,
			A: vfEpCfg{InitTSN: 3000, Tag: 0xAF, IL: il}, B: vfEpCfg{InitTSN: 4000, Tag: 0xBF, IL: il, Server: true}})
		w.cfgEvent()
		w.tr = mem
		stopNet := make(chan struct{})
		var netWG sync.WaitGroup
		netWG.Add(1)
		go func() {
			defer netWG.Done()
			for {
				select {
				case <-stopNet:
					return
				case <-w.activity:
				case <-time.After(time.Millisecond):
				}
				for _, p := range w.pending(-1) {
					if q := w.take(p.id); q != nil {
						w.push(1-q.from, q.raw)
					}
				}
			}
		}()
		defer func() { close(stopNet); netWG.Wait() }()
		w.start(1)
		w.start(0)
		est := false
		for i := 0; i < 30000 && !est; i++ {
			time.Sleep(time.Millisecond)
			w.mu.Lock()
			est = w.ep[0].connRet && w.ep[1].connRet && w.ep[0].connErr == nil && w.ep[1].connErr == nil
			w.mu.Unlock()
		}
		if !est {
			t.Fatalf("%s: associations did not establish", label)
		}
		a, b := w.ep[0].a, w.ep[1].a
		sa, err := a.OpenStream(1, PayloadTypeWebRTCBinary)
		if err != nil {
			t.Fatal(err)
		}
		sa.SetReliabilityParams(kd.unord, kd.rtype, kd.rval)
		go func() { // the peer reads whatever arrives
			sb, err := b.AcceptStream()
			if err != nil {
				return
			}
			buf := make([]byte, 1<<16)
			for {
				if _, _, err := sb.ReadSCTP(buf); err != nil {
					return
				}
			}
		}()
		var stop int32
		var running int32
		var mu sync.Mutex
		open := map[string]bool{}
		spawn := func(name string, f func()) {
			atomic.AddInt32(&running, 1)
			mu.Lock()
			open[name] = true
			mu.Unlock()
			go func() {
				f()
				mu.Lock()
				delete(open, name)
				mu.Unlock()
				atomic.AddInt32(&running, -1)
			}()
		}
		loop := func(name string, f func()) {
			spawn(name, func() {
				for atomic.LoadInt32(&stop) == 0 {
					f()
				}
			})
		}
		loop("SetReliabilityParams", func() { sa.SetReliabilityParams(kd.unord, kd.rtype, kd.rval) })
		loop("SetBufferedAmountLowThreshold", func() { sa.SetBufferedAmountLowThreshold(512) })
		loop("OnBufferedAmountLow", func() { sa.OnBufferedAmountLow(func() {}) })
		loop("BufferedAmount+State", func() { sa.BufferedAmount(); sa.State(); sa.StreamIdentifier(); sa.BufferedAmountLowThreshold() })
		loop("SetReadDeadline", func() { sa.SetReadDeadline(time.Now().Add(time.Hour)) }) //nolint:errcheck
		loop("Association accessors", func() {
			a.BufferedAmount()
			a.SRTT()
			a.CWND()
			a.RWND()
			a.MTU()
			a.BytesSent()
			a.BytesReceived()
		})
		spawn("writer", func() {
			payload := make([]byte, 200)
			for i := 0; i < 600; i++ {
				if _, err := sa.WriteSCTP(payload, PayloadTypeWebRTCBinary); err != nil {
					return
				}
				if i%50 == 49 {
					time.Sleep(2 * time.Millisecond)
				}
			}
		})
		// the writer's calls return at once (non-blocking writes); the write loop drains the queue in the background
		time.Sleep(1500 * time.Millisecond)
		atomic.StoreInt32(&stop, 1)
		dl := time.Now().Add(8 * time.Second)
		for time.Now().Before(dl) && atomic.LoadInt32(&running) > 0 {
			time.Sleep(5 * time.Millisecond)
		}
		if atomic.LoadInt32(&running) == 0 {
			tr.emit(map[string]any{"ev": "note", "what": "every goroutine finished", "t": w.now()})
		} else {
			x := vfMutexBlocked()
			time.Sleep(time.Second)
			y := vfMutexBlocked()
			mu.Lock()
			names := []string{}
			for k := range open {
				names = append(names, k)
			}
			mu.Unlock()
			if len(x) >= 2 && strings.Join(x, "|") == strings.Join(y, "|") {
				ls := []any{}
				for _, s := range x {
					ls = append(ls, s[strings.Index(s, " ")+1:])
				}
				tr.emit(map[string]any{"ev": "deadlock", "name": label, "stacks": ls, "n": len(ls), "calls": fmt.Sprint(names)})
				fmt.Printf("VF-DEADLOCK scenario=%s\n", label)
				return
			}
			dl = time.Now().Add(60 * time.Second)
			for time.Now().Before(dl) && atomic.LoadInt32(&running) > 0 {
				time.Sleep(5 * time.Millisecond)
			}
			if atomic.LoadInt32(&running) > 0 {
				t.Fatalf("%s: goroutines %v did not finish but no certified lock cycle (mutex-blocked: %v)", label, names, x)
			}
			tr.emit(map[string]any{"ev": "note", "what": "every goroutine finished (slow)", "t": w.now()})
		}
		w.ep[0].conn.Close()
		w.ep[1].conn.Close()
		a.Close() //nolint:errcheck
		b.Close() //nolint:errcheck
		tr.emit(map[string]any{"ev": "end", "t": w.now(), "leaks": 0, "clean": true})
	}
}
