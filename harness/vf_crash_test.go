package sctp

// Lifecycle family (C09): crash-point enumeration. For each base scenario and each point i (after the
// i-th wire event) one of {Close, Abort, transport read failure, transport write failure, transport
// close} is injected on either side while callers are parked in every blocking API call; the trace
// records every call and return, every later write attempt and the goroutines left at the end.

import (
	"context"
	"fmt"
	"io"
	"strings"
	"sync/atomic"
	"testing"
	"time"
)

type vfCrash struct {
	Label string
	Base  string // handshake, transfer, reset, shutdown, blockwrite
	At    int    // inject after this many wire events (packets written by either side)
	Kind  string // close, abort, readfail, writefail, connclose
	Ep    int
	IL    bool
	ZC    bool // zero checksums negotiated in both directions (an ABORT travels with checksum 0 then)
}

var vfCallID int64

// parked starts f in its own goroutine and logs call / return with a call id.
func (w *vfWorld) parked(ep int, op string, f func() (string, error)) {
	id := int(atomic.AddInt64(&vfCallID, 1))
	w.tr.emit(map[string]any{"ev": "call", "ep": ep, "op": op, "cid": id, "t": w.now()})
	go func() {
		detail, err := f()
		w.tr.emit(map[string]any{"ev": "ret", "ep": ep, "op": op, "cid": id, "ok": err == nil, "err": vfErrClass(err), "detail": detail, "t": w.now(),
			"reason": err != nil && (strings.Contains(err.Error(), "vf-abort-reason") || strings.Contains(err.Error(), "User Initiated Abort: storm"))})
		w.poke()
	}()
}

func (w *vfWorld) parkReader(ep, sid int) {
	s := w.stream(ep, sid)
	if s == nil {
		return
	}
	w.parked(ep, "read", func() (string, error) {
		buf := make([]byte, 1<<16)
		for {
			n, _, err := s.ReadSCTP(buf)
			if err != nil {
				return "", err
			}
			id := w.identMsg(1-ep, sid, buf[:n])
			w.tr.emit(map[string]any{"ev": "read", "ep": ep, "sid": sid, "id": id, "len": n, "ppi": 51, "ok": true, "err": "nil", "buf": 1 << 16, "t": w.now(), "async": true, "loop": true})
		}
	})
}

// vfCrashRun runs the base scenario; stop(i) is consulted after every driver step with the number of
// wire events so far and returns true when the injection point is reached. Returns the number of wire
// events of the complete base scenario when stop never fires.
func vfCrashRun(w *vfWorld, base string, stop func() bool) {
	step := func() bool {
		p := w.pending(-1)
		if len(p) == 0 {
			return false
		}
		w.deliver(p[0].id)
		return true
	}
	run := func(n int) bool {
		for i := 0; i < n; i++ {
			if stop() {
				return true
			}
			if !step() {
				return false
			}
		}
		return stop()
	}
	w.cfgEvent()
	// connect calls are parked callers themselves
	w.start(0)
	w.quiesce()
	if stop() {
		return
	}
	w.start(1)
	w.quiesce()
	if run(20) {
		return
	}
	if w.ep[0].a == nil || w.ep[1].a == nil || w.ep[0].a.getState() != established || w.ep[1].a.getState() != established {
		return
	}
	b := w.ep[1].a
	w.parked(1, "accept", func() (string, error) {
		for {
			s, err := b.AcceptStream()
			if err != nil {
				return "", err
			}
			_ = s
		}
	})
	w.open(0, 1, 51)
	w.open(1, 2, 51)
	w.parkReader(0, 1)
	w.parkReader(1, 2)
	// polling readers: their read deadline expires BEFORE the teardown; they come back afterwards
	w.open(0, 3, 51)
	w.open(1, 4, 51)
	for ep := 0; ep < 2; ep++ {
		s := w.stream(ep, 3+ep)
		if s == nil {
			continue
		}
		s.SetReadDeadline(time.Now().Add(5 * time.Millisecond)) //nolint:errcheck
		w.parked(ep, "pollread", func() (string, error) {
			_, _, err := s.ReadSCTP(make([]byte, 100))
			return "", err
		})
	}
	w.sleep(10 * time.Millisecond)
	p := int(w.ep[0].a.maxPayloadSize)
	switch base {
	case "handshake":
	case "transfer":
		w.write(0, 1, 3*p, 51)
		w.write(1, 2, p, 53)
		if pend := w.pending(0); len(pend) > 1 {
			w.drop(pend[1].id) // one loss: T3 / fast retransmission machinery is armed
		}
		if run(30) {
			return
		}
		w.tick(1500 * time.Millisecond)
		if run(30) {
			return
		}
	case "reset":
		w.write(0, 1, p, 51)
		w.closeStream(0, 1)
		if run(30) {
			return
		}
	case "shutdown":
		w.write(0, 1, 2*p, 51)
		a := w.ep[0].a
		w.parked(0, "shutdown", func() (string, error) { return "", a.Shutdown(context.Background()) })
		w.quiesce()
		if run(40) {
			return
		}
	case "blockwrite":
		for i := 0; i < 5; i++ {
			w.open(0, 10+i, 51)
			s := w.stream(0, 10+i)
			m := w.newMsg(0, 10+i, 2500, 51)
			w.tr.emit(map[string]any{"ev": "wcall", "ep": 0, "sid": 10 + i, "id": m.ID, "len": 2500, "ppi": 51, "unord": false, "rtype": 0, "rval": 0, "t": w.now(), "ok": true, "async": true})
			w.parked(0, "write", func() (string, error) {
				n, err := s.WriteSCTP(m.Payload, 51)
				w.tr.emit(map[string]any{"ev": "write", "ep": 0, "sid": int(s.streamIdentifier), "id": m.ID, "len": 2500, "ppi": 51, "ok": err == nil, "n": n, "err": vfErrClass(err), "unord": false, "rtype": 0, "rval": 0, "t": w.now(), "async": true})
				return "", err
			})
			w.quiesce()
			if run(3) {
				return
			}
		}
	}
	stop()
}

func vfRunCrash(t *testing.T, tr *vfTrace, x vfCrash) (nwire int, hung bool) {
	hung = vfBubble(t, x.Label, func() {
		A := vfEpCfg{InitTSN: 21, Tag: 0xAC, IL: x.IL, ZC: x.ZC}
		B := vfEpCfg{InitTSN: 0xFFFFFFFA, Tag: 0xBC, IL: x.IL, Server: true, ZC: x.ZC}
		if x.Base == "blockwrite" {
			A.BlockWrite, A.Buf, B.Buf = true, 8192, 8192
		}
		w := vfNewWorld(vfWorldOpt{Label: x.Label, Trace: tr, A: A, B: B, NoSnap: false})
		fired := false
		stop := func() bool {
			w.mu.Lock()
			n := w.nWire
			w.mu.Unlock()
			if x.At >= 0 && n >= x.At && !fired {
				fired = true
				return true
			}
			return fired
		}
		vfCrashRun(w, x.Base, stop)
		w.mu.Lock()
		nwire = w.nWire
		w.mu.Unlock()
		if x.At < 0 {
			w.finish(true)
			return
		}
		e := w.ep[x.Ep]
		w.tr.emit(map[string]any{"ev": "inject", "kind": x.Kind, "ep": x.Ep, "at": x.At, "t": w.now()})
		switch x.Kind {
		case "close":
			if e.a != nil {
				a := e.a
				for k := 0; k < 3; k++ { // repeated Close calls are harmless
					w.parked(x.Ep, "close", func() (string, error) { return "", a.Close() })
				}
			} else {
				e.conn.Close()
			}
		case "abort":
			if e.a != nil {
				a := e.a
				w.parked(x.Ep, "abort", func() (string, error) { a.Abort("vf-abort-reason"); return "", nil })
			} else {
				e.conn.Close()
			}
		case "readfail":
			e.conn.rfOnce.Do(func() { close(e.conn.readFail) })
		case "writefail", "writefail-eof", "writefail-weof":
			// a one-sided failure: writes fail (with an ordinary error, with io.EOF, with an error wrapping io.EOF --
			// what a closed pipe / TLS layer returns), reads stay blocked
			e.conn.mu.Lock()
			e.conn.failWrite = true
			switch x.Kind {
			case "writefail-eof":
				e.conn.failErr = io.EOF
			case "writefail-weof":
				e.conn.failErr = fmt.Errorf("transport write: %w", io.EOF)
			}
			e.conn.mu.Unlock()
			// provoke a write
			if e.a != nil {
				e.a.lock.Lock()
				e.a.awakeWriteLoop()
				e.a.lock.Unlock()
				if s := w.stream(x.Ep, 1+x.Ep); s != nil && e.a.getState() == established {
					go s.WriteSCTP([]byte("provoke"), 51) //nolint:errcheck
				}
			}
		case "connclose":
			e.conn.Close()
		}
		w.quiesce()
		// the ABORT (if any) reaches the peer
		for _, pk := range w.pending(x.Ep) {
			if vfFirstKind(pk.raw) == "abort" {
				w.deliver(pk.id)
			}
		}
		w.sleep(1500 * time.Millisecond) // beyond the bound for "promptly" (1 s): whatever still returns later is late
		// the polling readers of the torn-down side clear their deadline and read again: they must get the
		// terminal error (with the abort cause on the aborted side), not block
		repoll := func(ep int) {
			s := w.stream(ep, 3+ep)
			if s == nil || w.ep[ep].a == nil || w.ep[ep].a.getState() != closed {
				return
			}
			s.SetReadDeadline(time.Time{}) //nolint:errcheck
			w.tr.emit(map[string]any{"ev": "inject", "kind": "repoll", "ep": ep, "at": -1, "t": w.now()})
			w.parked(ep, "read", func() (string, error) {
				_, _, err := s.ReadSCTP(make([]byte, 100))
				return "", err
			})
			w.quiesce()
		}
		repoll(0)
		repoll(1)
		w.tr.emit(map[string]any{"ev": "crashobs", "phase": 1, "t": w.now()})
		// "the peer at the latest when its transport closes": now the other transport goes away too
		o := w.ep[1-x.Ep]
		w.tr.emit(map[string]any{"ev": "inject", "kind": "connclose", "ep": 1 - x.Ep, "at": -1, "t": w.now()})
		o.conn.Close()
		e.conn.Close()
		w.quiesce()
		w.tick(1 * time.Second)
		repoll(0)
		repoll(1)
		// long idle period: a timer or goroutine that survived teardown would show up as a write attempt
		w.sleep(300 * time.Second)
		w.tr.emit(map[string]any{"ev": "crashobs", "phase": 2, "t": w.now()})
		w.finish(false)
	})
	return
}

func init() {
	vfModes["crash"] = func(t *testing.T) {
		shard, nshards := vfEnvInt("VF_SHARD", 0), vfEnvInt("VF_NSHARDS", 1)
		stride := vfEnvInt("VF_STRIDE", 1)
		tr, err := vfNewTrace(vfOut(fmt.Sprintf("crash-%d.ndjson", shard)))
		if err != nil {
			t.Fatal(err)
		}
		defer tr.close()
		journal := vfOut(fmt.Sprintf("crash-%d.journal", shard))
		k := 0
		for _, base := range []string{"handshake", "transfer", "reset", "shutdown", "blockwrite"} {
			for _, il := range []bool{false, true} {
				// dry run: how many wire events does the base scenario have?
				mem, _ := vfNewTrace("")
				n, _ := vfRunCrash(t, mem, vfCrash{Label: "dry", Base: base, At: -1, IL: il})
				for at := 0; at <= n; at += stride {
					for _, kind := range []string{"close", "abort", "readfail", "writefail", "connclose", "writefail-eof", "writefail-weof"} {
						for ep := 0; ep < 2; ep++ {
							k++
							if k%nshards != shard {
								continue
							}
							zc := (at/stride+ep)%2 == 1
							x := vfCrash{Label: fmt.Sprintf("crash-%s-il%v-zc%v-%s-ep%d-at%d#%d", base, il, zc, kind, ep, at, k), Base: base, At: at, Kind: kind, Ep: ep, IL: il, ZC: zc}
							vfWriteJSON(journal, map[string]any{"scenario": x.Label})
							vfRunCrash(t, tr, x)
						}
					}
				}
			}
		}
		vfWriteJSON(journal, map[string]any{"scenario": ""})
	}
}
