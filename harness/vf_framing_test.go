package sctp

// Framing family (C12, C03): bundles enumerated by TLC from spec/MC_Framing.tla are concretised with
// boundary field values and pushed through the real marshal -> unmarshal -> marshal, through the
// harness's independent decoder, and (with corrupted length fields) through the real decoder again.

import (
	"bufio"
	"bytes"
	"encoding/binary"
	"encoding/json"
	"fmt"
	"os"
	"strings"
	"testing"
)

var vfBoundary32 = []uint32{0, 1, 1 << 15, 1<<16 - 1, 1 << 31, 1<<32 - 1, 0x01020304}

func vfB32(i int) uint32 { return vfBoundary32[i%len(vfBoundary32)] }

// vfVariant builds the pion chunk for a variant name; seed varies the field values.
func vfVariant(name string, seed int) chunk {
	pay := func(n int) []byte {
		b := make([]byte, n)
		for i := range b {
			b[i] = byte(seed + i + 1)
		}
		return b
	}
	switch name {
	case "data1":
		return &chunkPayloadData{tsn: vfB32(seed), streamIdentifier: uint16(vfB32(seed + 1)), streamSequenceNumber: uint16(vfB32(seed + 2)), payloadType: PayloadProtocolIdentifier(vfB32(seed + 3)), userData: pay(1), beginningFragment: true, endingFragment: true}
	case "data4":
		return &chunkPayloadData{tsn: vfB32(seed + 1), streamIdentifier: 1, streamSequenceNumber: 65535, payloadType: 53, userData: pay(4), beginningFragment: true}
	case "dataUBE":
		return &chunkPayloadData{tsn: vfB32(seed + 2), streamIdentifier: 65535, payloadType: 51, userData: pay(3), beginningFragment: true, endingFragment: true, unordered: true, immediateSack: seed%2 == 0}
	case "idataB":
		return &chunkPayloadData{iData: true, tsn: vfB32(seed), streamIdentifier: 7, messageIdentifier: vfB32(seed + 4), payloadType: PayloadProtocolIdentifier(vfB32(seed + 5)), userData: pay(3), beginningFragment: true}
	case "idataM":
		return &chunkPayloadData{iData: true, tsn: vfB32(seed + 3), streamIdentifier: 9, messageIdentifier: vfB32(seed + 1), fragmentSequenceNumber: vfB32(seed + 2), userData: pay(1), unordered: true}
	case "sack0":
		return &chunkSelectiveAck{cumulativeTSNAck: vfB32(seed), advertisedReceiverWindowCredit: vfB32(seed + 1)}
	case "sackGaps":
		return &chunkSelectiveAck{cumulativeTSNAck: vfB32(seed + 2), advertisedReceiverWindowCredit: vfB32(seed + 3), gapAckBlocks: []gapAckBlock{{2, 3}, {5, 65535}}}
	case "sackDups":
		return &chunkSelectiveAck{cumulativeTSNAck: vfB32(seed + 4), advertisedReceiverWindowCredit: 0, gapAckBlocks: []gapAckBlock{{2, 2}}, duplicateTSN: []uint32{vfB32(seed), vfB32(seed + 5)}}
	case "hb":
		return &chunkHeartbeat{params: []param{&paramHeartbeatInfo{heartbeatInformation: pay(8)}}}
	case "hbLong":
		return &chunkHeartbeat{params: []param{&paramHeartbeatInfo{heartbeatInformation: pay(13)}}}
	case "hback":
		return &chunkHeartbeatAck{params: []param{&paramHeartbeatInfo{heartbeatInformation: pay(8)}}}
	case "abort0":
		return &chunkAbort{}
	case "abortUser":
		return &chunkAbort{errorCauses: []errorCause{&errorCauseUserInitiatedAbort{upperLayerAbortReason: pay(5)}}}
	case "abortPV":
		return &chunkAbort{errorCauses: []errorCause{&errorCauseProtocolViolation{additionalInformation: pay(7)}}}
	case "abort2":
		return &chunkAbort{errorCauses: []errorCause{&errorCauseUserInitiatedAbort{upperLayerAbortReason: pay(4)}, &errorCauseProtocolViolation{additionalInformation: pay(8)}}}
	case "errUnrec":
		return &chunkError{errorCauses: []errorCause{&errorCauseUnrecognizedChunkType{unrecognizedChunk: pay(8)}}}
	case "shutdown":
		return &chunkShutdown{cumulativeTSNAck: vfB32(seed)}
	case "shutdownAck":
		return &chunkShutdownAck{}
	case "shutdownComplete":
		return &chunkShutdownComplete{}
	case "cookieEcho5":
		return &chunkCookieEcho{cookie: pay(5)}
	case "cookieEcho8":
		return &chunkCookieEcho{cookie: pay(8)}
	case "cookieAck":
		return &chunkCookieAck{}
	case "reconfReq1":
		return &chunkReconfig{paramA: &paramOutgoingResetRequest{reconfigRequestSequenceNumber: vfB32(seed), reconfigResponseSequenceNumber: vfB32(seed + 1), senderLastTSN: vfB32(seed + 2), streamIdentifiers: []uint16{uint16(vfB32(seed + 3))}}}
	case "reconfReq0":
		return &chunkReconfig{paramA: &paramOutgoingResetRequest{reconfigRequestSequenceNumber: vfB32(seed + 4), reconfigResponseSequenceNumber: 0, senderLastTSN: vfB32(seed + 5)}}
	case "reconfResp":
		return &chunkReconfig{paramA: &paramReconfigResponse{reconfigResponseSequenceNumber: vfB32(seed), result: reconfigResult(seed % 7)}}
	case "reconfBoth":
		return &chunkReconfig{paramA: &paramOutgoingResetRequest{reconfigRequestSequenceNumber: vfB32(seed + 1), senderLastTSN: vfB32(seed + 6)},
			paramB: &paramReconfigResponse{reconfigResponseSequenceNumber: vfB32(seed + 2), result: reconfigResultSuccessPerformed}}
	case "fwd0":
		return &chunkForwardTSN{newCumulativeTSN: vfB32(seed)}
	case "fwd2":
		return &chunkForwardTSN{newCumulativeTSN: vfB32(seed + 5), streams: []chunkForwardTSNStream{{1, 65535}, {65535, 0}}}
	case "ifwd0":
		return &chunkIForwardTSN{newCumulativeTSN: vfB32(seed + 2)}
	case "ifwd2":
		return &chunkIForwardTSN{newCumulativeTSN: vfB32(seed + 4), streams: []chunkIForwardTSNStream{{identifier: 1, unordered: false, messageIdentifier: vfB32(seed + 5)}, {identifier: 2, unordered: true, messageIdentifier: vfB32(seed + 1)}}}
	case "ifwdDup":
		// several skipped messages of one (stream, U) listed together, their MIDs straddling the 32-bit wrap
		const b = 0xFFFFFFFF
		return &chunkIForwardTSN{newCumulativeTSN: vfB32(seed + 3), streams: []chunkIForwardTSNStream{
			{identifier: 1, messageIdentifier: b - 1}, {identifier: 1, messageIdentifier: b}, {identifier: 1, messageIdentifier: 0}, {identifier: 1, messageIdentifier: 1},
			{identifier: 1, unordered: true, messageIdentifier: 5}, {identifier: 2, messageIdentifier: 7}, {identifier: 1, unordered: true, messageIdentifier: 3}}}
	case "init", "initZca":
		c := &chunkInit{}
		c.initiateTag, c.advertisedReceiverWindowCredit, c.numOutboundStreams, c.numInboundStreams, c.initialTSN = vfB32(seed)|1, 1500+vfB32(seed+1)%100000, 65535, 1, vfB32(seed+2)
		setSupportedExtensions(&c.chunkInitCommon, seed%2 == 0)
		if name == "initZca" {
			c.params = append(c.params, &paramZeroChecksumAcceptable{edmid: dtlsErrorDetectionMethod})
		}
		return c
	case "initAck", "initAckZca":
		c := &chunkInitAck{}
		c.initiateTag, c.advertisedReceiverWindowCredit, c.numOutboundStreams, c.numInboundStreams, c.initialTSN = vfB32(seed)|1, 1500+vfB32(seed+1)%100000, 1, 65535, vfB32(seed+2)
		c.params = []param{&paramStateCookie{cookie: pay(9)}}
		if name == "initAckZca" {
			c.params = append(c.params, &paramZeroChecksumAcceptable{edmid: dtlsErrorDetectionMethod})
		}
		setSupportedExtensions(&c.chunkInitCommon, seed%2 == 1)
		return c
	}
	panic("unknown variant " + name)
}

type vfBundleIn struct {
	Bundle []string `json:"bundle"`
	Len    int      `json:"len"`
	Offs   []int    `json:"offs"`
	Lens   []int    `json:"lens"`
}

// vfChunkBytes re-marshals one decoded chunk (what pion believes the chunk is).
func vfChunkBytes(c chunk) []byte {
	b, err := c.marshal()
	if err != nil {
		return []byte("ERR:" + err.Error())
	}
	return b
}

func vfFrameEvent(names []string, seed int) map[string]any {
	ev := map[string]any{"ev": "frame", "bundle": names, "seed": seed}
	var cs []chunk
	for i, n := range names {
		cs = append(cs, vfVariant(n, seed+i))
	}
	p := &packet{sourcePort: 5000, destinationPort: 5000, verificationTag: 0x01020304, chunks: cs}
	raw, err := p.marshal(true)
	if err != nil {
		ev["marshal"] = err.Error()
		return ev
	}
	ev["marshal"] = "ok"
	ev["len"] = len(raw)
	d := vfDecodePacket(raw)
	wf := []any{}
	for _, s := range d.WF {
		wf = append(wf, s)
	}
	kinds, lens, offs := []any{}, []any{}, []any{}
	off := 12
	for _, c := range d.Chunks {
		m, pr := vfChunkJSON(c, 0, 0, nil)
		for _, s := range pr {
			if s != "data-empty-payload" {
				wf = append(wf, s)
			}
		}
		kinds = append(kinds, m["k"])
		lens = append(lens, c.Len)
		offs = append(offs, off)
		off += (c.Len + 3) &^ 3
	}
	ev["wf"], ev["kinds"], ev["lens"], ev["offs"], ev["ck"] = wf, kinds, lens, offs, d.CkClass
	// I-FORWARD-TSN field fidelity: the entries the chunk was built from against the entries on the wire (read by the
	// harness's own decoder). MIDs are reported as signed distances from 2^32-1 (TLC integers are 32 bit).
	ifwd := []any{}
	for i, n := range names {
		b, ok := vfVariant(n, seed+i).(*chunkIForwardTSN)
		if !ok || i >= len(d.Chunks) {
			continue
		}
		built := []any{}
		for _, st := range b.streams {
			u := 0
			if st.unordered {
				u = 1
			}
			built = append(built, []any{int(st.identifier), u, int(int32(st.messageIdentifier - 0xFFFFFFFF))})
		}
		m, _ := vfChunkJSONb(d.Chunks[i], 0, 0, nil, func(int) vfSeqBase { return vfSeqBase{mid: 0xFFFFFFFF} })
		got, _ := m["streams"].([]any)
		if got == nil {
			got = []any{}
		}
		ifwd = append(ifwd, map[string]any{"i": i + 1, "built": built, "got": got})
	}
	if len(ifwd) > 0 {
		ev["ifwd"] = ifwd
	}
	// the real decoder on the real encoder's output
	q := &packet{}
	if err := q.unmarshal(true, raw); err != nil {
		ev["unmarshal"] = err.Error()
		return ev
	}
	ev["unmarshal"] = "ok"
	ev["nchunks"] = len(q.chunks)
	raw2, err := q.marshal(true)
	ev["stable"] = err == nil && bytes.Equal(raw, raw2)
	// bundle independence: each chunk decoded inside the bundle means what it means alone
	indep := len(q.chunks) == len(cs)
	for i := 0; indep && i < len(cs); i++ {
		alone := &packet{sourcePort: 5000, destinationPort: 5000, verificationTag: 0x01020304, chunks: []chunk{vfVariant(names[i], seed+i)}}
		ar, err := alone.marshal(true)
		if err != nil {
			indep = false
			break
		}
		aq := &packet{}
		if err := aq.unmarshal(true, ar); err != nil || len(aq.chunks) != 1 {
			indep = false
			break
		}
		if !bytes.Equal(vfChunkBytes(aq.chunks[0]), vfChunkBytes(q.chunks[i])) {
			indep = false
			ev["indepwhy"] = fmt.Sprintf("chunk %d (%s) decodes differently inside the bundle", i, names[i])
		}
	}
	ev["indep"] = indep
	// corrupted length fields / truncation: what does the real decoder say?
	mal := []any{}
	o := 12
	for i, c := range d.Chunks {
		for _, dl := range []int{0, 3, c.Len + 4*(len(d.Chunks)+8)} {
			b := make([]byte, len(raw))
			copy(b, raw)
			binary.BigEndian.PutUint16(b[o+2:], uint16(dl))
			vfSetCRC(b)
			x := &packet{}
			mal = append(mal, []any{i + 1, dl, x.unmarshal(true, b) == nil})
		}
		o += (c.Len + 3) &^ 3
	}
	ev["mal"] = mal
	trunc := []any{}
	for k := 1; k <= 5 && k < len(raw)-12; k++ {
		b := make([]byte, len(raw)-k)
		copy(b, raw)
		vfSetCRC(b)
		x := &packet{}
		trunc = append(trunc, []any{k, x.unmarshal(true, b) == nil})
	}
	ev["trunc"] = trunc
	return ev
}

func init() {
	vfModes["framing"] = func(t *testing.T) {
		f, err := os.Open(os.Getenv("VF_IN"))
		if err != nil {
			t.Fatal(err)
		}
		defer f.Close()
		shard, nshards := vfEnvInt("VF_SHARD", 0), vfEnvInt("VF_NSHARDS", 1)
		tr, err := vfNewTrace(vfOut(fmt.Sprintf("framing-%d.ndjson", shard)))
		if err != nil {
			t.Fatal(err)
		}
		defer tr.close()
		sc := bufio.NewScanner(f)
		sc.Buffer(make([]byte, 1<<20), 1<<26)
		k := 0
		tr.emit(map[string]any{"ev": "frinit", "label": fmt.Sprintf("framing#%d", shard)})
		for sc.Scan() {
			line := strings.TrimSpace(sc.Text())
			if line == "" {
				continue
			}
			k++
			if k%nshards != shard {
				continue
			}
			var in vfBundleIn
			if err := json.Unmarshal([]byte(line), &in); err != nil {
				t.Fatalf("bad bundle: %v", err)
			}
			for seed := 0; seed < vfEnvInt("VF_NSEEDS", 2); seed++ {
				ev := vfFrameEvent(in.Bundle, seed*3+k)
				ev["mlen"], ev["moffs"], ev["mlens"] = in.Len, in.Offs, in.Lens
				tr.emit(ev)
			}
		}
		// packets that must travel alone
		for _, n := range []string{"init", "initZca", "initAck", "initAckZca"} {
			for seed := 0; seed < 4; seed++ {
				ev := vfFrameEvent([]string{n}, seed)
				ev["mlen"], ev["moffs"], ev["mlens"] = ev["len"], ev["offs"], ev["lens"]
				tr.emit(ev)
			}
		}
		tr.emit(map[string]any{"ev": "frend"})
	}
}
