package sctp

// API contract family (C18): write lengths 0..MaxMessageSize+1, writes on closed streams and on
// associations that are not (or no longer) established, blocking writes with and without deadline,
// reads into short buffers, read deadlines swept across the arrival instant.

import (
	"context"
	"encoding/binary"
	"fmt"
	"os"
	"runtime"
	"strings"
	"testing"
	"time"
)

func init() {
	vfModes["api"] = func(t *testing.T) {
		shard, nshards := vfEnvInt("VF_SHARD", 0), vfEnvInt("VF_NSHARDS", 1)
		tr, err := vfNewTrace(vfOut(fmt.Sprintf("api-%d.ndjson", shard)))
		if err != nil {
			t.Fatal(err)
		}
		defer tr.close()
		only := os.Getenv("VF_ONLY")
		run := func(label string, f func()) {
			if only != "" && !strings.Contains(label, only) {
				return
			}
			vfBubble(t, label, f)
		}
		k := 0
		next := func() bool { k++; return k%nshards == shard }
		for _, il := range []bool{false, true} {
			for _, unord := range []bool{false, true} {
				// 1. length grid, failing and succeeding writes interleaved
				if next() {
					label := fmt.Sprintf("api-lengths-il%v-u%v#%d", il, unord, k)
					run(label, func() {
						w := vfNewWorld(vfWorldOpt{Label: label, Trace: tr, A: vfEpCfg{InitTSN: 11, Tag: 0xA6, IL: il, MaxMsg: 5000}, B: vfEpCfg{InitTSN: 0xFFFFFFF0, Tag: 0xB6, IL: il, Server: true, MaxMsg: 5000}})
						if !w.vfConnect() {
							w.finish(true)
							return
						}
						w.open(0, 1, 51)
						if unord {
							w.setRel(0, 1, true, ReliabilityTypeReliable, 0)
						}
						w.installCallback(0, 1, 0)
						p := int(w.ep[0].a.maxPayloadSize)
						for _, n := range []int{1, 0, 2, 5001, p - 1, 0, p, p + 1, 5000, 6000, 4999, 0, 3} {
							w.write(0, 1, n, 51)
							w.pump(3)
						}
						w.heal(30 * time.Second)
						w.snapAll = true
						w.quiesce()
						w.tr.emit(map[string]any{"ev": "expect", "drained": true, "t": w.now()})
						w.finish(true)
					})
				}
				// 2. short buffers
				if next() {
					label := fmt.Sprintf("api-shortbuf-il%v-u%v#%d", il, unord, k)
					run(label, func() {
						w := vfNewWorld(vfWorldOpt{Label: label, Trace: tr, A: vfEpCfg{InitTSN: 12, Tag: 0xA6, IL: il}, B: vfEpCfg{InitTSN: 99, Tag: 0xB6, IL: il, Server: true}})
						if !w.vfConnect() {
							w.finish(true)
							return
						}
						w.open(0, 1, 51)
						if unord {
							w.setRel(0, 1, true, ReliabilityTypeReliable, 0)
						}
						lens := []int{10, 2500, 1, 700}
						for _, n := range lens {
							w.write(0, 1, n, 51)
						}
						// deliver everything WITHOUT reading (heal would drain the streams with a large buffer)
						for i := 0; i < 20 && w.pump(50) > 0; i++ {
						}
						w.sleep(300 * time.Millisecond)
						w.pump(50)
						w.accept(1)
						for _, n := range lens {
							for _, b := range []int{0, n - 1, n / 2, n, n + 1} {
								if b < 0 {
									continue
								}
								if _, err, did := w.read(1, 1, b); did && err == nil {
									break
								}
							}
						}
						w.heal(5 * time.Second)
						w.snapAll = true
						w.quiesce()
						w.tr.emit(map[string]any{"ev": "expect", "drained": true, "t": w.now()})
						w.finish(true)
					})
				}
			}
			// 3. writes on an association that is not established (before the handshake, after shutdown/close)
			if next() {
				label := fmt.Sprintf("api-notestablished-il%v#%d", il, k)
				run(label, func() {
					w := vfNewWorld(vfWorldOpt{Label: label, Trace: tr, A: vfEpCfg{InitTSN: 13, Tag: 0xA6, IL: il}, B: vfEpCfg{InitTSN: 77, Tag: 0xB6, IL: il, Server: true}})
					w.cfgEvent()
					w.start(0)
					w.quiesce()
					// handshake in progress: a stream can be opened but data must be refused
					if s, err := w.ep[0].a.OpenStream(5, PayloadTypeWebRTCBinary); err == nil {
						w.ep[0].streams[5] = s
						w.ep[0].inc[5]++
						w.tr.emit(map[string]any{"ev": "api", "ep": 0, "op": "open", "sid": 5, "ok": true, "err": "nil", "t": w.now()})
						w.write(0, 5, 100, 53)
					}
					w.start(1)
					w.quiesce()
					for i := 0; i < 10 && w.pump(20) > 0; i++ {
					}
					w.write(0, 5, 100, 53)
					w.write(0, 5, 200, 53)
					w.heal(10 * time.Second)
					w.tr.emit(map[string]any{"ev": "api", "ep": 0, "op": "close-call", "t": w.now()})
					a := w.ep[0].a
					a.Close() //nolint:errcheck
					w.quiesce()
					w.write(0, 5, 50, 53)
					w.snapAll = true
					w.quiesce()
					w.finish(true)
				})
			}
			// 4. blocking-write mode, with and without deadline, window closed by a paused reader
			for _, deadline := range []int{0, 50, 1500} {
				if !next() {
					continue
				}
				label := fmt.Sprintf("api-blockwrite-il%v-d%d#%d", il, deadline, k)
				dl := deadline
				run(label, func() {
					w := vfNewWorld(vfWorldOpt{Label: label, Trace: tr, A: vfEpCfg{InitTSN: 14, Tag: 0xA6, IL: il, BlockWrite: true, Buf: 8192}, B: vfEpCfg{InitTSN: 55, Tag: 0xB6, IL: il, Server: true, Buf: 8192}})
					if !w.vfConnect() {
						w.finish(true)
						return
					}
					// one stream per concurrent writer: a second writer on the SAME stream waits on a
					// sync.Mutex (Stream.writeLock), which is not a durably blocking operation for
					// synctest -- the bubble would never become idle
					for sid := 1; sid <= 6; sid++ {
						w.open(0, sid, 51)
						if sid%2 == 0 {
							// unordered streams take no SSN (but a MID with interleaving): the roll-back of a failed
							// write differs per kind, the buffered amount must be given back in every one
							w.setRel(0, sid, true, ReliabilityTypeReliable, 0)
						}
						w.installCallback(0, sid, 0)
						if dl > 0 {
							// the first write of each stream takes the LAST sequence number before the wrap:
							// when it fails, its number must be given back (roll-back across the wrap)
							w.presetSeq(0, sid, vfSeqBase{ssn: 0xFFFF, mid: 0xFFFFFFFF})
						}
					}
					for i := 0; i < 6; i++ {
						sid := i + 1
						if dl > 0 {
							w.stream(0, sid).SetWriteDeadline(time.Now().Add(time.Duration(dl) * time.Millisecond)) //nolint:errcheck
							w.tr.emit(map[string]any{"ev": "api", "ep": 0, "op": "setwritedeadline", "sid": sid, "at": w.now() + dl, "t": w.now()})
						}
						w.writeAsync(0, sid, 2500, 51)
						// the reader stays paused: the peer's window closes and writes start to block
						w.pump(6)
						w.tick(time.Duration(200+300*i) * time.Millisecond)
					}
					w.heal(100 * time.Second)
					// a later (successful) write on every stream: delivered normally, no hole left behind
					for sid := 1; sid <= 6; sid++ {
						w.stream(0, sid).SetWriteDeadline(time.Time{}) //nolint:errcheck
						w.writeAsync(0, sid, 100+sid, 51)
						w.heal(10 * time.Second)
					}
					w.heal(30 * time.Second)
					w.snapAll = true
					w.quiesce()
					w.tr.emit(map[string]any{"ev": "expect", "drained": true, "t": w.now()})
					w.finish(true)
				})
			}
			// 4a00. the low threshold is raised above / lowered below the buffered amount while data is outstanding: moving
			//       the threshold is not a crossing (the amount did not fall), and whatever the setter does it does
			//       without holding the stream's lock while the application's callback runs (the callback re-enters)
			if next() {
				label := fmt.Sprintf("api-threshold-move-il%v#%d", il, k)
				run(label, func() {
					w := vfNewWorld(vfWorldOpt{Label: label, Trace: tr, A: vfEpCfg{InitTSN: 20, Tag: 0xA6, IL: il}, B: vfEpCfg{InitTSN: 48, Tag: 0xB6, IL: il, Server: true}})
					if !w.vfConnect() {
						w.finish(true)
						return
					}
					w.open(0, 1, 51)
					w.installCallback(0, 1, 100)
					w.write(0, 1, 1000, 51) // stays in the network: 1000 bytes buffered, above the threshold
					st := w.stream(0, 1)
					for _, v := range []int{5000, 200, 1000, 999, 1 << 20} {
						v := v
						w.tr.emit(map[string]any{"ev": "api", "ep": 0, "op": "threshold", "sid": 1, "val": v, "t": w.now()})
						go st.SetBufferedAmountLowThreshold(uint64(v))
						w.quiesce()
						w.write(0, 1, 10, 51)
					}
					w.heal(30 * time.Second)
					w.snapAll = true
					w.quiesce()
					w.tr.emit(map[string]any{"ev": "expect", "drained": true, "t": w.now()})
					w.finish(true)
				})
			}
			// 4a0. blocking writes that are still waiting when the application calls Shutdown: the association is no longer
			//      established when they could be queued -- they fail, what was accepted before is delivered, Shutdown completes
			if next() {
				label := fmt.Sprintf("api-blockwrite-shutdown-il%v#%d", il, k)
				run(label, func() {
					w := vfNewWorld(vfWorldOpt{Label: label, Trace: tr, A: vfEpCfg{InitTSN: 14, Tag: 0xA6, IL: il, BlockWrite: true, Buf: 8192}, B: vfEpCfg{InitTSN: 55, Tag: 0xB6, IL: il, Server: true, Buf: 8192}})
					if !w.vfConnect() {
						w.finish(true)
						return
					}
					for sid := 1; sid <= 5; sid++ {
						w.open(0, sid, 51)
					}
					for sid := 1; sid <= 5; sid++ {
						w.writeAsync(0, sid, 2500, 51)
						w.pump(6) // nobody reads: the peer's window closes, later writes block
					}
					a := w.ep[0].a
					w.apiAsync(0, "shutdown", func() error { return a.Shutdown(context.Background()) })
					w.tick(500 * time.Millisecond)
					w.heal(100 * time.Second)
					w.snapAll = true
					w.quiesce()
					w.tr.emit(map[string]any{"ev": "shutend", "who": 0, "t": w.now()})
					w.finish(true)
				})
			}
			// 4a'. the write deadline is moved into the future at the very instant it expires, while the write is
			//      blocked (net.Conn semantics: deadlines may be changed while I/O is pending). Whichever way the
			//      race goes, a write that reports success has been queued: it is transmitted and delivered, and no
			//      sequence number is lost (found by the real-time multi-writer family: sendPayloadData returned
			//      ctx.Err() == nil after the deadline object had been re-armed -- defect F20)
			if next() {
				label := fmt.Sprintf("api-rearm-il%v#%d", il, k)
				run(label, func() {
					w := vfNewWorld(vfWorldOpt{Label: label, Trace: tr, A: vfEpCfg{InitTSN: 14, Tag: 0xA6, IL: il, BlockWrite: true, Buf: 8192}, B: vfEpCfg{InitTSN: 55, Tag: 0xB6, IL: il, Server: true, Buf: 8192}})
					if !w.vfConnect() {
						w.finish(true)
						return
					}
					const ns = 16 // at most 16 unaccepted streams: the peer's accept backlog holds 16, beyond it DATA is discarded unacknowledged by design
					for sid := 1; sid <= ns; sid++ {
						w.open(0, sid, 51)
					}
					// close the peer's window: nobody reads, the first writes fill it
					for sid := 1; sid <= 4; sid++ {
						w.writeAsync(0, sid, 2500, 51)
						w.pump(6)
					}
					for sid := 5; sid <= ns; sid++ {
						st := w.stream(0, sid)
						at := time.Now().Add(50 * time.Millisecond)
						st.SetWriteDeadline(at) //nolint:errcheck
						w.tr.emit(map[string]any{"ev": "api", "ep": 0, "op": "setwritedeadline", "sid": sid, "at": w.now() + 50, "t": w.now()})
						for h := 0; h < 8; h++ {
							go func() {
								time.Sleep(time.Until(at))
								for r := 0; r < 4; r++ {
									st.SetWriteDeadline(time.Now().Add(600 * time.Second)) //nolint:errcheck
									runtime.Gosched()
								}
							}()
						}
						w.writeAsync(0, sid, 300+sid, 51)
						w.tick(60 * time.Millisecond)
						w.tr.emit(map[string]any{"ev": "note", "what": "write deadline re-armed at its expiry", "sid": sid, "t": w.now()})
					}
					w.heal(100 * time.Second)
					for sid := 1; sid <= ns; sid++ {
						w.stream(0, sid).SetWriteDeadline(time.Time{}) //nolint:errcheck
						w.writeAsync(0, sid, 100+sid, 51)
						w.heal(10 * time.Second)
					}
					w.heal(30 * time.Second)
					w.snapAll = true
					w.quiesce()
					w.tr.emit(map[string]any{"ev": "expect", "drained": true, "t": w.now()})
					w.finish(true)
				})
			}
			// 4c. T3-rtx back-off: every copy of one chunk is lost while newer messages get through and are gap-acked;
			//     the SACKs that do not advance the cumulative ack point must not restart the timer (C19_T3Backoff)
			if next() {
				label := fmt.Sprintf("api-t3backoff-il%v#%d", il, k)
				run(label, func() {
					w := vfNewWorld(vfWorldOpt{Label: label, Trace: tr, A: vfEpCfg{InitTSN: 21, Tag: 0xA6, IL: il}, B: vfEpCfg{InitTSN: 77, Tag: 0xB6, IL: il, Server: true}})
					if !w.vfConnect() {
						w.finish(true)
						return
					}
					w.open(0, 1, 51)
					w.write(0, 1, 90, 51)
					w.pump(10)
					w.accept(1)
					w.read(1, 1, 1<<16)
					w.write(0, 1, 100, 51) // the victim: TSN 21+1
					for _, p := range w.pending(0) {
						w.drop(p.id)
					}
					for round := 0; round < 4; round++ {
						// wait for the T3 retransmission of the victim and lose it again
						for i := 0; i < 40 && len(w.pending(0)) == 0; i++ {
							w.tick(70 * time.Second)
						}
						for _, p := range w.pending(0) {
							w.drop(p.id)
						}
						// a newer message gets through: the receiver gap-acks it at once, the cumulative point stays
						w.write(0, 1, 60+round, 51)
						for i := 0; i < 6; i++ {
							moved := false
							for _, p := range w.pending(-1) {
								d := vfDecodePacket(p.raw)
								victim := false
								for _, c := range d.Chunks {
									if (c.Typ == 0 || c.Typ == 64) && len(c.Val) >= 4 && binary.BigEndian.Uint32(c.Val[0:4]) == 21+1 {
										victim = true
									}
								}
								if victim {
									w.drop(p.id)
								} else {
									w.deliver(p.id)
								}
								moved = true
							}
							if !moved {
								break
							}
						}
					}
					w.heal(200 * time.Second)
					w.snapAll = true
					w.quiesce()
					w.tr.emit(map[string]any{"ev": "expect", "drained": true, "t": w.now()})
					w.finish(true)
				})
			}
			// 4d. a SACK is handed over at the very instant the T3-rtx timer expires (the timer callback and the
			//     SACK handler run concurrently; they take the association lock and the timer mutex): no deadlock
			if next() {
				label := fmt.Sprintf("api-t3race-il%v#%d", il, k)
				run(label, func() {
					w := vfNewWorld(vfWorldOpt{Label: label, Trace: tr, A: vfEpCfg{InitTSN: 31, Tag: 0xA6, IL: il}, B: vfEpCfg{InitTSN: 88, Tag: 0xB6, IL: il, Server: true}})
					if !w.vfConnect() {
						w.finish(true)
						return
					}
					w.open(0, 1, 51)
					for round := 0; round < 12; round++ {
						rto := time.Duration(w.ep[0].a.rtoMgr.getRTO()) * time.Millisecond
						sentAt := time.Now()
						w.write(0, 1, 50+round, 51)
						for _, p := range w.pending(0) {
							w.deliver(p.id)
						}
						w.accept(1)
						w.read(1, 1, 1<<16)
						// the receiver's SACK (delayed by up to 200 ms) is kept in the network until the T3 deadline
						w.sleep(300 * time.Millisecond)
						if d := time.Until(sentAt.Add(rto)); d > 0 {
							time.Sleep(d)
						}
						for _, p := range w.pending(1) {
							if q := w.take(p.id); q != nil {
								w.tr.emit(map[string]any{"ev": "rx", "to": 0, "pid": q.id, "t": w.now(), "ok": true})
								w.push(0, q.raw)
							}
						}
						w.quiesce()
						w.pump(20)
						w.sleep(500 * time.Millisecond)
						w.pump(20)
					}
					w.heal(100 * time.Second)
					w.snapAll = true
					w.quiesce()
					w.tr.emit(map[string]any{"ev": "expect", "drained": true, "t": w.now()})
					w.finish(true)
				})
			}
			// 4b. on-demand heartbeat: answered by the peer, yields a round-trip sample (C19, C12)
			if next() {
				label := fmt.Sprintf("api-heartbeat-il%v#%d", il, k)
				run(label, func() {
					w := vfNewWorld(vfWorldOpt{Label: label, Trace: tr, A: vfEpCfg{InitTSN: 16, Tag: 0xA6, IL: il}, B: vfEpCfg{InitTSN: 44, Tag: 0xB6, IL: il, Server: true}})
					if !w.vfConnect() {
						w.finish(true)
						return
					}
					for _, ep := range []int{0, 1, 0} {
						w.sleep(37 * time.Millisecond)
						w.tr.emit(map[string]any{"ev": "api", "ep": ep, "op": "heartbeat", "t": w.now()})
						w.ep[ep].a.ActiveHeartbeat()
						w.quiesce()
						w.sleep(5 * time.Millisecond)
						w.pump(4)
						w.sleep(5 * time.Millisecond)
						w.pump(4)
					}
					w.heal(5 * time.Second)
					w.snapAll = true
					w.quiesce()
					w.tr.emit(map[string]any{"ev": "expect", "drained": true, "t": w.now()})
					w.finish(true)
				})
			}
			// 4e. an on-demand heartbeat is answered whatever state the PEER is in: here the peer has called Shutdown
			//     and still waits for its data to be acknowledged (SHUTDOWN-PENDING)
			if next() {
				label := fmt.Sprintf("api-heartbeat-shutpend-il%v#%d", il, k)
				run(label, func() {
					w := vfNewWorld(vfWorldOpt{Label: label, Trace: tr, A: vfEpCfg{InitTSN: 17, Tag: 0xA6, IL: il}, B: vfEpCfg{InitTSN: 45, Tag: 0xB6, IL: il, Server: true}})
					if !w.vfConnect() {
						w.finish(true)
						return
					}
					w.open(1, 2, 51)
					w.write(1, 2, 400, 51)
					// the peer's DATA stays in the network: it has unacknowledged data when it starts to shut down
					b := w.ep[1].a
					w.apiAsync(1, "shutdown", func() error { return b.Shutdown(context.Background()) })
					w.sleep(20 * time.Millisecond)
					w.tr.emit(map[string]any{"ev": "api", "ep": 0, "op": "heartbeat", "t": w.now()})
					w.ep[0].a.ActiveHeartbeat()
					w.quiesce()
					// only the heartbeat exchange moves for now
					for r := 0; r < 3; r++ {
						for _, p := range w.pending(-1) {
							if kd := vfFirstKind(p.raw); kd == "hb" || kd == "hback" {
								w.deliver(p.id)
							}
						}
						w.sleep(5 * time.Millisecond)
					}
					w.heal(30 * time.Second)
					w.snapAll = true
					w.quiesce()
					w.tr.emit(map[string]any{"ev": "expect", "drained": true, "t": w.now()})
					w.finish(true)
				})
			}
			// 4f. a long outage while shutting down: SHUTDOWN (from the caller) and SHUTDOWN-ACK (from the peer, second
			//     variant) are retransmitted with back-off up to RTO.max for as long as it lasts -- T2-shutdown has no
			//     retry limit -- and the shutdown completes when the path heals
			for _, lose := range []string{"shutdown", "shutdownack"} {
				if !next() {
					continue
				}
				label := fmt.Sprintf("api-shutdown-outage-%s-il%v#%d", lose, il, k)
				run(label, func() {
					w := vfNewWorld(vfWorldOpt{Label: label, Trace: tr, A: vfEpCfg{InitTSN: 18, Tag: 0xA6, IL: il, RTOMax: 3000}, B: vfEpCfg{InitTSN: 46, Tag: 0xB6, IL: il, Server: true, RTOMax: 3000}})
					if !w.vfConnect() {
						w.finish(true)
						return
					}
					w.open(0, 1, 51)
					w.write(0, 1, 300, 51)
					w.heal(5 * time.Second)
					a := w.ep[0].a
					w.apiAsync(0, "shutdown", func() error { return a.Shutdown(context.Background()) })
					// 60 s of outage: about twenty expiries of T2-shutdown at RTO.max 3 s
					for t0 := time.Now(); time.Since(t0) < 60*time.Second; {
						for _, p := range w.pending(-1) {
							switch kd := vfFirstKind(p.raw); {
							case lose == "shutdown" || kd == "shutdownack" || kd == "shutdowncomplete":
								w.drop(p.id)
							default: // the SHUTDOWN gets through, the answers are lost
								w.deliver(p.id)
							}
						}
						w.tick(4 * time.Second)
					}
					w.heal(30 * time.Second)
					w.snapAll = true
					w.quiesce()
					w.tr.emit(map[string]any{"ev": "shutend", "who": 0, "t": w.now()})
					w.finish(true)
				})
			}
			// 4g. a slow path (round trip 0.8 s, below the initial RTO so that samples are taken: the RTO settles well above its minimum) and then an outage lasting several
			//     T3-rtx expiries: the expiries back the TIMER off, the RTO itself moves only with a new round-trip sample
			if next() {
				label := fmt.Sprintf("api-slowpath-t3-il%v#%d", il, k)
				run(label, func() {
					w := vfNewWorld(vfWorldOpt{Label: label, Trace: tr, A: vfEpCfg{InitTSN: 19, Tag: 0xA6, IL: il}, B: vfEpCfg{InitTSN: 47, Tag: 0xB6, IL: il, Server: true}})
					if !w.vfConnect() {
						w.finish(true)
						return
					}
					w.open(0, 1, 51)
					slow := func(rounds int) {
						for r := 0; r < rounds; r++ {
							w.sleep(400 * time.Millisecond)
							for _, p := range w.pending(-1) {
								w.deliver(p.id)
							}
							w.accept(1)
							w.drainReads()
						}
					}
					for i := 0; i < 3; i++ {
						w.write(0, 1, 200+i, 51)
						slow(4)
					}
					// outage: everything is lost for four expiries of T3-rtx
					w.write(0, 1, 300, 51)
					for t0 := time.Now(); time.Since(t0) < 100*time.Second; {
						for _, p := range w.pending(-1) {
							w.drop(p.id)
						}
						if w.ep[0].a.stats.getNumT3Timeouts() >= 4 {
							break
						}
						w.tick(30 * time.Second)
					}
					slow(8)
					w.heal(120 * time.Second)
					w.snapAll = true
					w.quiesce()
					w.tr.emit(map[string]any{"ev": "expect", "drained": true, "t": w.now()})
					w.finish(true)
				})
			}
			// 5. read deadlines swept across the arrival instant
			if next() {
				label := fmt.Sprintf("api-readdeadline-il%v#%d", il, k)
				run(label, func() {
					w := vfNewWorld(vfWorldOpt{Label: label, Trace: tr, A: vfEpCfg{InitTSN: 15, Tag: 0xA6, IL: il}, B: vfEpCfg{InitTSN: 33, Tag: 0xB6, IL: il, Server: true}})
					if !w.vfConnect() {
						w.finish(true)
						return
					}
					w.open(0, 1, 51)
					w.write(0, 1, 9, 51)
					w.heal(2 * time.Second)
					w.accept(1)
					w.read(1, 1, 1000)
					for d := -3; d <= 3; d++ {
						// the message arrives 10 ms from now; the deadline is at 10+d ms
						s := w.stream(1, 1)
						at := w.now() + 10 + d
						s.SetReadDeadline(time.Now().Add(time.Duration(10+d) * time.Millisecond)) //nolint:errcheck
						w.tr.emit(map[string]any{"ev": "api", "ep": 1, "op": "setreaddeadline", "sid": 1, "at": at, "t": w.now()})
						w.readBlocking(1, 1, 1000)
						w.write(0, 1, 20+d+3, 51)
						w.sleep(10 * time.Millisecond)
						w.pump(5)
						w.sleep(20 * time.Millisecond)
						s.SetReadDeadline(time.Time{}) //nolint:errcheck
						w.tr.emit(map[string]any{"ev": "api", "ep": 1, "op": "setreaddeadline", "sid": 1, "at": 0, "t": w.now()})
						w.drainReads()
						w.heal(1 * time.Second)
					}
					// the deadline survives a failed (short-buffer) read: read short, retry, then block until it
					{
						s := w.stream(1, 1)
						w.write(0, 1, 500, 51)
						w.pump(10) // delivered, acknowledged, NOT read
						w.sleep(250 * time.Millisecond)
						w.pump(10)
						at := w.now() + 50
						s.SetReadDeadline(time.Now().Add(50 * time.Millisecond)) //nolint:errcheck
						w.tr.emit(map[string]any{"ev": "api", "ep": 1, "op": "setreaddeadline", "sid": 1, "at": at, "t": w.now()})
						w.read(1, 1, 10)
						w.read(1, 1, 1000)
						w.readBlocking(1, 1, 1000)
						w.sleep(200 * time.Millisecond)
						s.SetReadDeadline(time.Time{}) //nolint:errcheck
						w.tr.emit(map[string]any{"ev": "api", "ep": 1, "op": "setreaddeadline", "sid": 1, "at": 0, "t": w.now()})
						w.write(0, 1, 30, 51) // releases the reader if it is still blocked
						w.heal(1 * time.Second)
						w.drainReads()
					}
					w.snapAll = true
					w.quiesce()
					w.tr.emit(map[string]any{"ev": "expect", "drained": true, "t": w.now()})
					w.finish(true)
				})
			}
		}
	}
}
