package sctp

// Simulated world for the verification harness: two real associations in one synctest bubble over
// a packet network that moves nothing unless the driver says so. Every observable event is
// written to an NDJSON trace that TLC validates against the TLA+ trace specifications in
// /verif/spec. Nothing here decides a property: this file records, the specification judges.

import (
	"bufio"
	"context"
	"crypto/sha256"
	"encoding/json"
	"errors"
	"fmt"
	"io"
	"math/rand"
	"net"
	"os"
	"runtime"
	"sort"
	"strings"
	"sync"
	"sync/atomic"
	"testing/synctest"
	"time"

	"github.com/pion/logging"
	"github.com/pion/transport/v4/deadline"
)

// ---------------------------------------------------------------- logger (discard)

type vfNullLogger struct{}

func (vfNullLogger) Trace(string)          {}
func (vfNullLogger) Tracef(string, ...any) {}
func (vfNullLogger) Debug(string)          {}
func (vfNullLogger) Debugf(string, ...any) {}
func (vfNullLogger) Info(string)           {}
func (vfNullLogger) Infof(string, ...any)  {}
func (vfNullLogger) Warn(string)           {}
func (vfNullLogger) Warnf(string, ...any)  {}
func (vfNullLogger) Error(string)          {}
func (vfNullLogger) Errorf(string, ...any) {}

type vfNullLoggerFactory struct{}

func (vfNullLoggerFactory) NewLogger(string) logging.LeveledLogger { return vfNullLogger{} }

// vfSlowLogger is a logger whose sink blocks: while armed, the next Tracef whose format contains `pat` sleeps
// for `d` (real time) -- in the goroutine and under whatever locks the caller holds. Used only by the real-time
// lock-order family: a log sink that blocks on I/O is ordinary environment behaviour.
type vfSlowLogger struct {
	vfNullLogger
	pat   string
	d     time.Duration
	armed *int32
}

func (l vfSlowLogger) Tracef(format string, _ ...any) {
	if strings.Contains(format, l.pat) && atomic.CompareAndSwapInt32(l.armed, 1, 0) {
		time.Sleep(l.d)
	}
}

func (l vfSlowLogger) Debugf(format string, a ...any) { l.Tracef(format, a...) }

type vfSlowLoggerFactory struct{ l vfSlowLogger }

func (f vfSlowLoggerFactory) NewLogger(string) logging.LeveledLogger { return f.l }

// ---------------------------------------------------------------- scripted randomness

type vfScriptedRand struct {
	mu   sync.Mutex
	vals []uint32
	fall *rand.Rand
}

func (r *vfScriptedRand) Uint32() uint32 {
	r.mu.Lock()
	defer r.mu.Unlock()
	if len(r.vals) > 0 {
		v := r.vals[0]
		r.vals = r.vals[1:]
		return v
	}
	return r.fall.Uint32()
}
func (r *vfScriptedRand) Uint64() uint64 { return uint64(r.Uint32())<<32 | uint64(r.Uint32()) }
func (r *vfScriptedRand) Intn(n int) int { return int(r.Uint32() % uint32(n)) }
func (r *vfScriptedRand) GenerateString(n int, runes string) string {
	b := make([]byte, n)
	for i := range b {
		b[i] = runes[r.Intn(len(runes))]
	}
	return string(b)
}

// ---------------------------------------------------------------- trace sink

type vfTrace struct {
	mu   sync.Mutex
	w    *bufio.Writer
	f    *os.File
	n    int
	keep []map[string]any // kept in memory when w == nil
}

func vfNewTrace(path string) (*vfTrace, error) {
	if path == "" {
		return &vfTrace{}, nil
	}
	f, err := os.Create(path)
	if err != nil {
		return nil, err
	}
	return &vfTrace{f: f, w: bufio.NewWriterSize(f, 1<<16)}, nil
}

func (t *vfTrace) emit(m map[string]any) {
	t.mu.Lock()
	defer t.mu.Unlock()
	t.emitLocked(m)
}

func (t *vfTrace) emitLocked(m map[string]any) {
	t.n++
	if t.w == nil {
		t.keep = append(t.keep, m)
		return
	}
	b, err := json.Marshal(m)
	if err != nil {
		panic(err)
	}
	t.w.Write(b)
	t.w.WriteByte('\n')
}

func (t *vfTrace) close() {
	t.mu.Lock()
	defer t.mu.Unlock()
	if t.w != nil {
		t.w.Flush()
		t.f.Close()
		t.w = nil
	}
}

// ---------------------------------------------------------------- configuration

type vfEpCfg struct {
	SlowLog    *vfSlowLogger // real-time families only
	InitTSN    uint32        `json:"init_tsn"`
	Tag        uint32        `json:"tag"`
	IL         bool          `json:"il"`
	ZC         bool          `json:"zc"`
	MTU        uint32        `json:"mtu"`
	Buf        uint32        `json:"buf"`
	MaxMsg     uint32        `json:"maxmsg"`
	RTOMax     float64       `json:"rtomax"`
	BlockWrite bool          `json:"blockwrite"`
	MinCwnd    uint32        `json:"mincwnd"`
	FastRtxWnd uint32        `json:"fastrtxwnd"`
	CwndCAStep uint32        `json:"cwndcastep"`
	Sched      string        `json:"sched"` // "", "wfq", "rr"
	MaxReasm   uint32        `json:"maxreasm"`
	Server     bool          `json:"server"` // role: server (waits for INIT) instead of client
	// token starts only: the association is created with the OPPOSITE interleaving / zero-checksum option from the one
	// its (already exchanged) token announces. The peer negotiates from the token alone, so the token must win.
	// the Zero Checksum Acceptable parameter this endpoint sends is rewritten in transit to name another error
	// detection method than DTLS: the peer was NOT told that zero checksums are acceptable
	ZCForeign bool `json:"zcforeign"`
	// this endpoint's Supported Extensions parameter reaches the peer without I-FORWARD-TSN (rewritten in transit)
	NoIFwdAnnounced bool `json:"noifwd"`
	OptFlipIL       bool `json:"optflipil"`
	OptFlipZC       bool `json:"optflipzc"`
}

func (c vfEpCfg) norm() vfEpCfg {
	if c.MTU == 0 {
		c.MTU = initialMTU
	}
	if c.Buf == 0 {
		c.Buf = initialRecvBufSize
	}
	if c.MaxMsg == 0 {
		c.MaxMsg = defaultMaxMessageSize
	}
	if c.Tag == 0 {
		c.Tag = 0x1000 + c.InitTSN%7
	}
	return c
}

// ---------------------------------------------------------------- network

type vfPkt struct {
	id   int
	from int
	raw  []byte
	t    int64
}

type vfConn struct {
	w         *vfWorld
	side      int
	inbox     chan []byte
	closed    chan struct{}
	closeOnce sync.Once
	rdl, wdl  *deadline.Deadline
	mu        sync.Mutex
	failWrite bool
	failErr   error // what a failing Write returns (default errVfInjected)
	blockW    bool
	readFail  chan struct{}
	rfOnce    sync.Once
}

var errVfInjected = errors.New("vf: injected transport failure")

type vfAddr struct{}

func (vfAddr) Network() string { return "vf" }
func (vfAddr) String() string  { return "vf" }

func (c *vfConn) Read(b []byte) (int, error) {
	select {
	case <-c.closed:
		return 0, io.EOF
	case <-c.readFail:
		return 0, errVfInjected
	default:
	}
	select {
	case p := <-c.inbox:
		return copy(b, p), nil
	case <-c.closed:
		return 0, io.EOF
	case <-c.readFail:
		return 0, errVfInjected
	case <-c.rdl.Done():
		return 0, os.ErrDeadlineExceeded
	}
}

func (c *vfConn) Write(b []byte) (int, error) {
	select {
	case <-c.closed:
		c.w.tr.emit(map[string]any{"ev": "txfail", "ep": c.side, "why": "closed", "t": c.w.now()})
		c.w.poke()
		return 0, io.ErrClosedPipe
	default:
	}
	c.mu.Lock()
	fw, bw, fe := c.failWrite, c.blockW, c.failErr
	c.mu.Unlock()
	if fw {
		c.w.tr.emit(map[string]any{"ev": "txfail", "ep": c.side, "why": "injected", "t": c.w.now()})
		c.w.poke()
		if fe != nil {
			return 0, fe
		}
		return 0, errVfInjected
	}
	if bw {
		select {
		case <-c.wdl.Done():
			c.w.tr.emit(map[string]any{"ev": "txfail", "ep": c.side, "why": "deadline", "t": c.w.now()})
			c.w.poke()
			return 0, os.ErrDeadlineExceeded
		case <-c.closed:
			return 0, io.ErrClosedPipe
		}
	}
	raw := make([]byte, len(b))
	copy(raw, b)
	c.w.onWire(c.side, raw)
	return len(b), nil
}

func (c *vfConn) Close() error {
	c.closeOnce.Do(func() {
		close(c.closed)
		c.w.tr.emit(map[string]any{"ev": "connclose", "ep": c.side, "t": c.w.now()})
		c.w.poke()
	})
	return nil
}
func (c *vfConn) LocalAddr() net.Addr  { return vfAddr{} }
func (c *vfConn) RemoteAddr() net.Addr { return vfAddr{} }
func (c *vfConn) SetDeadline(t time.Time) error {
	c.rdl.Set(t)
	c.wdl.Set(t)
	return nil
}
func (c *vfConn) SetReadDeadline(t time.Time) error  { c.rdl.Set(t); return nil }
func (c *vfConn) SetWriteDeadline(t time.Time) error { c.wdl.Set(t); return nil }
func (c *vfConn) isClosed() bool {
	select {
	case <-c.closed:
		return true
	default:
		return false
	}
}

// ---------------------------------------------------------------- messages

type vfMsg struct {
	ID      int
	Ep      int
	Sid     int
	Len     int
	PPI     uint32
	Payload []byte
}

type vfFragRef struct{ id, idx int }

// ---------------------------------------------------------------- endpoint + world

type vfEndpoint struct {
	idx          int
	cfg          vfEpCfg
	conn         *vfConn
	a            *Association
	connErr      error
	connRet      bool
	created      func(*Association) // set by start(): receives the association from the creation hook
	streams      map[int]*Stream
	inc          map[int]int // incarnation counter per sid (accept/open events)
	lastSnap     string
	acceptPaused bool
}

type vfWorld struct {
	tr        *vfTrace
	t0        time.Time
	ep        [2]*vfEndpoint
	mu        sync.Mutex
	pend      []*vfPkt // packets written and not yet consumed by the driver
	nextPid   int
	activity  chan struct{}
	noQuiesce bool // write() returns without waiting for quiescence (the caller goes straight on to another call)
	msgs      map[int]*vfMsg
	byHash    map[[32]byte]int         // full message content (+ppi-less) -> id
	frags     map[[32]byte][]vfFragRef // fragment content -> candidates
	nextMsg   int
	rng       *rand.Rand
	snapAll   bool
	noSnap    bool
	tsnRef    map[[2]uint32]vfFragRef // (sender, absolute TSN) -> fragment it carries
	refUsed   map[[3]int]bool
	tokens    bool      // the scenario starts from exchanged tokens (set before cfgEvent)
	snapTok   [2][]byte // out-of-band tokens (SNAP start): when set, start() passes WithSNAP(local, remote)
	rt        bool      // real time, outside any synctest bubble (multi-writer family only)
	stopped   bool
	nWire     int
	firstPid  map[[2]int]int
	seqBase   map[[2]int]vfSeqBase // (sender ep, sid) -> preset counters
	label     string
}

func (w *vfWorld) now() int { return int(time.Since(w.t0) / time.Millisecond) }

func (w *vfWorld) poke() {
	select {
	case w.activity <- struct{}{}:
	default:
	}
}

func (w *vfWorld) bases(from int) (tx, rx uint32) {
	return w.ep[from].cfg.InitTSN, w.ep[1-from].cfg.InitTSN
}

func (w *vfWorld) identFrag(from int) func(sid int, payload []byte, b, e bool, tsn uint32, il bool, fsn int) (int, int) {
	return func(sid int, payload []byte, b, e bool, tsn uint32, il bool, fsn int) (int, int) {
		h := sha256.Sum256(payload)
		w.mu.Lock()
		defer w.mu.Unlock()
		if w.tsnRef == nil {
			w.tsnRef = map[[2]uint32]vfFragRef{}
			w.refUsed = map[[3]int]bool{}
		}
		cands := []vfFragRef{}
		for _, c := range w.frags[h] {
			m := w.msgs[c.id]
			if m.Ep != from || m.Sid != sid || (c.idx == 0) != b || (il && !b && c.idx != fsn) {
				continue
			}
			cands = append(cands, c)
		}
		if len(cands) == 0 {
			return 0, 0
		}
		key := [2]uint32{uint32(from), tsn}
		// a retransmission carries what the TSN carried before
		if r, ok := w.tsnRef[key]; ok {
			for _, c := range cands {
				if c == r {
					return r.id, r.idx
				}
			}
		}
		best := cands[0]
		if len(cands) > 1 {
			// short fragments of different messages can have identical bytes: prefer the continuation of the
			// message on the preceding TSN (DATA), then a fragment no other TSN has been matched to yet
			found := false
			if prev, ok := w.tsnRef[[2]uint32{uint32(from), tsn - 1}]; ok && !b && !il {
				for _, c := range cands {
					if c.id == prev.id && c.idx == prev.idx+1 {
						best, found = c, true
					}
				}
			}
			if !found {
				for _, c := range cands {
					if !w.refUsed[[3]int{from, c.id, c.idx}] {
						best = c
						break
					}
				}
			}
		}
		w.tsnRef[key] = best
		w.refUsed[[3]int{from, best.id, best.idx}] = true
		return best.id, best.idx
	}
}

// onWire is called by the transport for every packet an endpoint writes.
func (w *vfWorld) onWire(from int, raw []byte) {
	w.mu.Lock()
	w.nextPid++
	pid := w.nextPid
	w.mu.Unlock()
	// the packet is logged before it becomes visible to whoever moves packets (a free-running
	// network goroutine must never log a delivery before the transmission)
	w.emitPkt("tx", from, pid, raw, nil)
	w.mu.Lock()
	w.pend = append(w.pend, &vfPkt{id: pid, from: from, raw: raw, t: int64(w.now())})
	w.nWire++
	w.mu.Unlock()
	w.poke()
}

// emitPkt writes the packet header event (ev = "tx" for a packet written by an endpoint, "forge"
// for a packet built by the harness) followed by one "c" event per chunk.
func (w *vfWorld) emitPkt(ev string, from, pid int, raw []byte, extra map[string]any) {
	d := vfDecodePacket(raw)
	txb, rxb := w.bases(from)
	chunks := []map[string]any{}
	kinds := []any{}
	wf := []any{}
	pwf := []any{} // packet-level framing problems only (what spec/Framing.tla's Walk rejects)
	for _, s := range d.WF {
		wf = append(wf, s)
		pwf = append(pwf, s)
	}
	for _, c := range d.Chunks {
		m, pr := vfChunkJSONb(c, txb, rxb, w.identFrag(from), func(sid int) vfSeqBase { return w.seqBase[[2]int{from, sid}] })
		chunks = append(chunks, m)
		kinds = append(kinds, m["k"])
		for _, s := range pr {
			wf = append(wf, s)
		}
	}
	vt := "other"
	switch d.Vtag {
	case 0:
		vt = "zero"
	case w.ep[1-from].cfg.Tag:
		vt = "peer"
	case w.ep[from].cfg.Tag:
		vt = "own"
	}
	h := map[string]any{"ev": ev, "ep": from, "pid": pid, "t": w.now(), "len": len(raw), "ck": d.CkClass,
		"vtag": vt, "ports": d.Sport == 5000 && d.Dport == 5000, "wf": wf, "pwf": pwf, "kinds": kinds, "n": len(chunks)}
	for k, v := range extra {
		h[k] = v
	}
	w.tr.mu.Lock()
	defer w.tr.mu.Unlock()
	w.tr.emitLocked(h)
	for i, m := range chunks {
		m["ev"], m["pid"], m["ep"], m["i"], m["t"] = "c", pid, from, i+1, h["t"]
		w.tr.emitLocked(m)
	}
}

// ---------------------------------------------------------------- construction

type vfWorldOpt struct {
	Label   string
	A, B    vfEpCfg
	Trace   *vfTrace
	Seed    int64
	NoSnap  bool
	RT      bool
	SnapAll bool
}

// vfNewWorld must be called from inside a synctest bubble.
func vfNewWorld(o vfWorldOpt) *vfWorld {
	w := &vfWorld{tr: o.Trace, t0: time.Now(), activity: make(chan struct{}, 1),
		msgs: map[int]*vfMsg{}, byHash: map[[32]byte]int{}, frags: map[[32]byte][]vfFragRef{},
		rng: rand.New(rand.NewSource(o.Seed)), noSnap: o.NoSnap, snapAll: o.SnapAll, label: o.Label, rt: o.RT}
	vfCurTrace = o.Trace
	cfgs := [2]vfEpCfg{o.A.norm(), o.B.norm()}
	for i := 0; i < 2; i++ {
		c := &vfConn{w: w, side: i, inbox: make(chan []byte, 1<<16), closed: make(chan struct{}),
			rdl: deadline.New(), wdl: deadline.New(), readFail: make(chan struct{})}
		w.ep[i] = &vfEndpoint{idx: i, cfg: cfgs[i], conn: c, streams: map[int]*Stream{}, inc: map[int]int{}}
	}
	return w
}

func (w *vfWorld) cfgEvent() {
	m := map[string]any{"ev": "cfg", "label": w.label, "tokens": w.tokens}
	for i, n := range []string{"A", "B"} {
		c := w.ep[i].cfg
		m[n] = map[string]any{"il": c.IL, "zc": c.ZC, "mtu": int(c.MTU), "buf": int(c.Buf), "maxmsg": int(c.MaxMsg),
			"W":      int((getMaxTSNOffset(c.Buf) + 63) / 64 * 64),
			"rtomax": int(c.RTOMax), "bw": c.BlockWrite, "mincwnd": int(c.MinCwnd), "sched": c.Sched,
			"server": c.Server, "wrapdist": vfWrapDist(c.InitTSN), "zcforeign": c.ZCForeign, "noifwd": c.NoIFwdAnnounced}
	}
	w.tr.emit(m)
}

// vfWrapDist: distance (in TSNs) from the initial TSN up to 2^32, capped — purely informative.
func vfWrapDist(init uint32) int {
	d := uint64(1<<32) - uint64(init)
	if d > 1<<30 {
		return 1 << 30
	}
	return int(d)
}

func (w *vfWorld) options(i int) []AssociationOption {
	c := w.ep[i].cfg
	var lf logging.LoggerFactory = vfNullLoggerFactory{}
	if c.SlowLog != nil {
		lf = vfSlowLoggerFactory{*c.SlowLog}
	}
	opts := []AssociationOption{WithNetConn(w.ep[i].conn), WithLoggerFactory(lf),
		WithName([]string{"A", "B"}[i]), WithEnableInterleaving(c.IL != c.OptFlipIL), WithEnableZeroChecksum(c.ZC != c.OptFlipZC),
		WithMTU(c.MTU), WithMaxReceiveBufferSize(c.Buf), WithMaxMessageSize(c.MaxMsg), WithBlockWrite(c.BlockWrite)}
	if c.RTOMax != 0 {
		opts = append(opts, WithRTOMax(c.RTOMax))
	}
	if c.MinCwnd != 0 {
		opts = append(opts, WithMinCwnd(c.MinCwnd))
	}
	if c.FastRtxWnd != 0 {
		opts = append(opts, WithFastRtxWnd(c.FastRtxWnd))
	}
	if c.CwndCAStep != 0 {
		opts = append(opts, WithCwndCAStep(c.CwndCAStep))
	}
	if c.MaxReasm != 0 {
		opts = append(opts, WithMaxReassemblyQueueEntries(c.MaxReasm))
	}
	switch c.Sched {
	case "rr":
		opts = append(opts, WithInterleavingOptions(WithInterleavingRoundRobinScheduler()))
	case "wfq":
		opts = append(opts, WithInterleavingOptions(WithInterleavingWeightedFairQueueingScheduler()))
	}
	return opts
}

// start launches the connect call of endpoint i (client or server role) in its own goroutine with
// the initial TSN and tag pinned. Call quiesce() afterwards.
func init() {
	// creation hook (build tag verif): hand every association built over one of our transports to its world
	verifOnCreate = func(a *Association) {
		if c, ok := a.netConn.(*vfConn); ok && c.w != nil {
			if f := c.w.ep[c.side].created; f != nil {
				f(a)
			}
		}
	}
}

// genTokens creates the out-of-band tokens of both endpoints (start "from exchanged tokens": no handshake
// packets; every association is created with WithSNAP(own token, peer's token)). The scripted randomness gives
// each token the configured initial TSN and tag.
func (w *vfWorld) genTokens() error {
	for i := 0; i < 2; i++ {
		c := w.ep[i].cfg
		saved := globalMathRandomGenerator
		globalMathRandomGenerator = &vfScriptedRand{vals: []uint32{c.InitTSN, c.Tag}, fall: rand.New(rand.NewSource(int64(i) + 99))}
		tok, err := GenerateOutOfBandToken(WithEnableInterleaving(c.IL), WithEnableZeroChecksum(c.ZC), WithMaxReceiveBufferSize(c.Buf))
		globalMathRandomGenerator = saved
		if err != nil {
			return err
		}
		w.snapTok[i] = tok
	}
	return nil
}

func (w *vfWorld) start(i int) {
	e := w.ep[i]
	saved := globalMathRandomGenerator
	globalMathRandomGenerator = &vfScriptedRand{vals: []uint32{e.cfg.InitTSN, e.cfg.Tag}, fall: rand.New(rand.NewSource(int64(i) + 77))}
	done := make(chan struct{})
	var once sync.Once
	e.created = func(a *Association) {
		e.a = a
		once.Do(func() { close(done) })
	}
	go func() {
		var err error
		// The PUBLIC connect functions are called; the association object reaches the harness through the
		// build-tag guarded creation hook (verifOnCreate), keyed by the transport it was given.
		opts := w.options(i)
		if w.snapTok[i] != nil {
			opts = append(opts, WithSNAP(w.snapTok[i], w.snapTok[1-i]))
		}
		w.tr.emit(map[string]any{"ev": "api", "ep": i, "op": "connect-call", "t": w.now()})
		if e.cfg.Server {
			so := make([]ServerOption, len(opts))
			for k, o := range opts {
				so[k] = o
			}
			_, err = ServerWithOptions(so...)
		} else {
			co := make([]ClientOption, len(opts))
			for k, o := range opts {
				co[k] = o
			}
			_, err = ClientWithOptions(co...)
		}
		once.Do(func() { close(done) })
		w.mu.Lock()
		e.connErr = err
		e.connRet = true
		w.mu.Unlock()
		w.tr.emit(map[string]any{"ev": "api", "ep": i, "op": "connect-ret", "ok": err == nil, "err": vfErrClass(err), "t": w.now()})
		w.poke()
	}()
	<-done
	globalMathRandomGenerator = saved
}

func vfErrClass(err error) string {
	switch {
	case err == nil:
		return "nil"
	case errors.Is(err, io.EOF):
		return "eof"
	case errors.Is(err, io.ErrShortBuffer):
		return "short"
	case errors.Is(err, ErrReadDeadlineExceeded), errors.Is(err, os.ErrDeadlineExceeded):
		return "deadline"
	case errors.Is(err, context.DeadlineExceeded), errors.Is(err, context.Canceled):
		return "ctx"
	case errors.Is(err, ErrOutboundPacketTooLarge):
		return "toolarge"
	case errors.Is(err, ErrStreamClosed):
		return "streamclosed"
	case errors.Is(err, ErrPayloadDataStateNotExist):
		return "notestablished"
	case errors.Is(err, ErrShutdownNonEstablished):
		return "shutdownnonest"
	case errors.Is(err, ErrHandshakeInitAck):
		return "hs-initack"
	case errors.Is(err, ErrHandshakeCookieEcho):
		return "hs-cookieecho"
	case errors.Is(err, ErrAssociationClosedBeforeConn):
		return "closedbeforeconn"
	case errors.Is(err, ErrChunk):
		return "abort:" + err.Error()
	case errors.Is(err, errVfInjected):
		return "injected"
	case errors.Is(err, ErrResetPacketInStateNotExist):
		return "resetnotestablished"
	default:
		return "other:" + err.Error()
	}
}

// ---------------------------------------------------------------- driver primitives

func (w *vfWorld) quiesce() {
	if w.rt {
		return
	}
	synctest.Wait()
	select {
	case <-w.activity:
	default:
	}
	if !w.noSnap {
		w.snap()
	}
}

// pending returns the ids of packets written by endpoint `from` (or any if from<0) not yet consumed.
func (w *vfWorld) pending(from int) []*vfPkt {
	w.mu.Lock()
	defer w.mu.Unlock()
	out := []*vfPkt{}
	for _, p := range w.pend {
		if from < 0 || p.from == from {
			out = append(out, p)
		}
	}
	return out
}

func (w *vfWorld) take(pid int) *vfPkt {
	w.mu.Lock()
	defer w.mu.Unlock()
	for k, p := range w.pend {
		if p.id == pid {
			w.pend = append(w.pend[:k:k], w.pend[k+1:]...)
			return p
		}
	}
	return nil
}

func (w *vfWorld) peek(pid int) *vfPkt {
	w.mu.Lock()
	defer w.mu.Unlock()
	for _, p := range w.pend {
		if p.id == pid {
			return p
		}
	}
	return nil
}

func (w *vfWorld) push(to int, raw []byte) bool {
	c := w.ep[to].conn
	if c.isClosed() {
		return false
	}
	b := make([]byte, len(raw))
	copy(b, raw)
	select {
	case c.inbox <- b:
		return true
	default:
		return false
	}
}

// deliver hands packet pid to its destination and removes it from the network.
func (w *vfWorld) deliver(pid int) {
	p := w.take(pid)
	if p == nil {
		return
	}
	ok := !w.ep[1-p.from].conn.isClosed()
	w.tr.emit(map[string]any{"ev": "rx", "to": 1 - p.from, "pid": pid, "t": w.now(), "ok": ok})
	w.push(1-p.from, p.raw)
	w.quiesce()
}

// dup delivers a copy of packet pid and keeps the original in the network.
func (w *vfWorld) dup(pid int) {
	p := w.peek(pid)
	if p == nil {
		return
	}
	ok := !w.ep[1-p.from].conn.isClosed()
	w.tr.emit(map[string]any{"ev": "rx", "to": 1 - p.from, "pid": pid, "t": w.now(), "ok": ok, "dup": true})
	w.push(1-p.from, p.raw)
	w.quiesce()
}

func (w *vfWorld) drop(pid int) {
	p := w.take(pid)
	if p == nil {
		return
	}
	w.tr.emit(map[string]any{"ev": "drop", "pid": pid, "t": w.now()})
}

// inject delivers forged bytes to endpoint `to`.
func (w *vfWorld) inject(to int, raw []byte, class string, genuine bool) {
	w.mu.Lock()
	w.nextPid++
	pid := w.nextPid
	w.mu.Unlock()
	w.emitPkt("forge", 1-to, pid, raw, map[string]any{"class": class, "genuine": genuine})
	ok := !w.ep[to].conn.isClosed()
	w.tr.emit(map[string]any{"ev": "rx", "to": to, "pid": pid, "t": w.now(), "ok": ok, "forged": true})
	w.push(to, raw)
	w.quiesce()
}

// tick lets virtual time advance until some endpoint writes a packet / an API call returns, or
// max elapses. Returns the elapsed virtual duration.
func (w *vfWorld) tick(max time.Duration) time.Duration {
	start := time.Now()
	select {
	case <-w.activity:
	default:
	}
	tm := time.NewTimer(max)
	select {
	case <-w.activity:
	case <-tm.C:
	}
	tm.Stop()
	el := time.Since(start)
	w.tr.emit(map[string]any{"ev": "tick", "t": w.now(), "dt": int(el / time.Millisecond)})
	w.quiesce()
	return el
}

// sleep advances virtual time by exactly d (other goroutines run as their timers fire).
func (w *vfWorld) sleep(d time.Duration) {
	time.Sleep(d)
	w.tr.emit(map[string]any{"ev": "tick", "t": w.now(), "dt": int(d / time.Millisecond)})
	w.quiesce()
}

// ---------------------------------------------------------------- messages & API

func vfPayload(id, n int) []byte {
	b := make([]byte, n)
	x := uint64(id)*0x9E3779B97F4A7C15 + uint64(n)*0xBF58476D1CE4E5B9 + 1
	for i := range b {
		if i%8 == 0 {
			x ^= x << 13
			x ^= x >> 7
			x ^= x << 17
		}
		b[i] = byte(x >> (8 * uint(i%8)))
	}
	return b
}

func (w *vfWorld) newMsg(ep, sid, n int, ppi uint32) *vfMsg {
	w.mu.Lock()
	defer w.mu.Unlock()
	for {
		w.nextMsg++
		id := w.nextMsg
		p := vfPayload(id, n)
		h := sha256.Sum256(append([]byte{byte(sid), byte(sid >> 8), byte(ep)}, p...))
		if _, dupl := w.byHash[h]; dupl && n > 0 {
			continue
		}
		m := &vfMsg{ID: id, Ep: ep, Sid: sid, Len: n, PPI: ppi, Payload: p}
		w.msgs[id] = m
		if n > 0 {
			w.byHash[h] = id
		}
		return m
	}
}

func (w *vfWorld) indexFrags(m *vfMsg, maxPayload int) {
	if maxPayload <= 0 {
		return
	}
	w.mu.Lock()
	defer w.mu.Unlock()
	idx := 0
	for off := 0; off < len(m.Payload); off += maxPayload {
		end := off + maxPayload
		if end > len(m.Payload) {
			end = len(m.Payload)
		}
		h := sha256.Sum256(m.Payload[off:end])
		w.frags[h] = append(w.frags[h], vfFragRef{m.ID, idx})
		idx++
	}
}

func (w *vfWorld) identMsg(ep, sid int, payload []byte) int {
	h := sha256.Sum256(append([]byte{byte(sid), byte(sid >> 8), byte(ep)}, payload...))
	w.mu.Lock()
	defer w.mu.Unlock()
	return w.byHash[h] // 0 = unknown = Corrupt
}

func (w *vfWorld) stream(ep, sid int) *Stream { return w.ep[ep].streams[sid] }

func (w *vfWorld) open(ep, sid int, ppi uint32) *Stream {
	e := w.ep[ep]
	s, err := e.a.OpenStream(uint16(sid), PayloadProtocolIdentifier(ppi))
	if err == nil {
		e.streams[sid] = s
		e.inc[sid]++
	}
	w.tr.emit(map[string]any{"ev": "api", "ep": ep, "op": "open", "sid": sid, "ok": err == nil, "err": vfErrClass(err), "t": w.now()})
	w.quiesce()
	return s
}

// presetSeq moves the sender's SSN / MID counters of stream sid on endpoint ep to base (and the
// receiver's expected counters likewise, creating the receiving stream object) so that a scenario
// crosses the 16/32-bit wraps after a few messages. White-box, harness only; call before any traffic
// on the stream. Sequence numbers in the trace stay relative to the preset.
func (w *vfWorld) presetSeq(ep, sid int, base vfSeqBase) {
	if w.seqBase == nil {
		w.seqBase = map[[2]int]vfSeqBase{}
	}
	w.seqBase[[2]int{ep, sid}] = base
	s := w.stream(ep, sid)
	s.lock.Lock()
	s.sequenceNumber, s.nextOrderedMID, s.nextUnorderedMID = base.ssn, base.mid, base.mid
	s.lock.Unlock()
	peer := w.ep[1-ep]
	ps, err := peer.a.OpenStream(uint16(sid), PayloadProtocolIdentifier(51))
	if err == nil {
		peer.streams[sid] = ps
		peer.inc[sid]++
		ps.lock.Lock()
		ps.reassemblyQueue.nextSSN, ps.reassemblyQueue.nextMID = base.ssn, base.mid
		ps.lock.Unlock()
		w.tr.emit(map[string]any{"ev": "api", "ep": 1 - ep, "op": "open", "sid": sid, "ok": true, "err": "nil", "t": w.now(), "preset": true})
	}
	w.tr.emit(map[string]any{"ev": "note", "what": "presetseq", "ep": ep, "sid": sid, "t": w.now()})
}

func (w *vfWorld) setRel(ep, sid int, unordered bool, rtype byte, rval uint32) {
	s := w.stream(ep, sid)
	s.SetReliabilityParams(unordered, rtype, rval)
	w.tr.emit(map[string]any{"ev": "api", "ep": ep, "op": "setrel", "sid": sid, "unord": unordered, "rtype": int(rtype), "rval": int(rval), "t": w.now()})
}

// write performs a (non-blocking-mode) WriteSCTP synchronously and logs it at its return.
func (w *vfWorld) write(ep, sid, n int, ppi uint32) (*vfMsg, error) {
	e := w.ep[ep]
	s := e.streams[sid]
	m := w.newMsg(ep, sid, n, ppi)
	w.indexFrags(m, int(e.a.maxPayloadSize))
	s.lock.RLock()
	unord, rt, rv := s.unordered, s.reliabilityType, s.reliabilityValue
	s.lock.RUnlock()
	w.tr.emit(map[string]any{"ev": "wcall", "ep": ep, "sid": sid, "id": m.ID, "len": n, "ppi": int(ppi),
		"unord": unord && ppi != uint32(PayloadTypeWebRTCDCEP), "rtype": int(rt), "rval": int(rv), "t": w.now(), "ok": true})
	nw, err := s.WriteSCTP(m.Payload, PayloadProtocolIdentifier(ppi))
	w.tr.emit(map[string]any{"ev": "write", "ep": ep, "sid": sid, "id": m.ID, "len": n, "ppi": int(ppi), "ok": err == nil,
		"n": nw, "err": vfErrClass(err), "unord": unord && ppi != uint32(PayloadTypeWebRTCDCEP), "rtype": int(rt), "rval": int(rv), "t": w.now()})
	if !w.noQuiesce {
		w.quiesce()
	}
	return m, err
}

// writeAsync performs WriteSCTP in its own goroutine (blocking mode); logged at its return.
func (w *vfWorld) writeAsync(ep, sid, n int, ppi uint32) *vfMsg {
	e := w.ep[ep]
	s := e.streams[sid]
	m := w.newMsg(ep, sid, n, ppi)
	w.indexFrags(m, int(e.a.maxPayloadSize))
	s.lock.RLock()
	unord, rt, rv := s.unordered, s.reliabilityType, s.reliabilityValue
	s.lock.RUnlock()
	w.tr.emit(map[string]any{"ev": "wcall", "ep": ep, "sid": sid, "id": m.ID, "len": n, "ppi": int(ppi),
		"unord": unord && ppi != uint32(PayloadTypeWebRTCDCEP), "rtype": int(rt), "rval": int(rv), "t": w.now(), "ok": true, "async": true})
	go func() {
		nw, err := s.WriteSCTP(m.Payload, PayloadProtocolIdentifier(ppi))
		w.tr.emit(map[string]any{"ev": "write", "ep": ep, "sid": sid, "id": m.ID, "len": n, "ppi": int(ppi), "ok": err == nil,
			"n": nw, "err": vfErrClass(err), "unord": unord && ppi != uint32(PayloadTypeWebRTCDCEP), "rtype": int(rt), "rval": int(rv), "t": w.now(), "async": true})
		w.poke()
	}()
	w.quiesce()
	return m
}

func (w *vfWorld) readable(ep, sid int) bool {
	s := w.stream(ep, sid)
	if s == nil {
		return false
	}
	s.lock.RLock()
	defer s.lock.RUnlock()
	return s.reassemblyQueue.isReadable() || s.readErr != nil
}

// read performs ReadSCTP if it would not block (single reader per stream) and logs the result.
func (w *vfWorld) read(ep, sid, bufSize int) (id int, err error, did bool) {
	if !w.readable(ep, sid) {
		return 0, nil, false
	}
	s := w.stream(ep, sid)
	buf := make([]byte, bufSize)
	n, ppi, err := s.ReadSCTP(buf)
	id = 0
	if err == nil {
		id = w.identMsg(1-ep, sid, buf[:n])
	}
	w.tr.emit(map[string]any{"ev": "read", "ep": ep, "sid": sid, "id": id, "len": n, "ppi": int(ppi), "ok": err == nil, "err": vfErrClass(err), "buf": bufSize, "t": w.now()})
	w.quiesce()
	return id, err, true
}

// readBlocking starts a ReadSCTP in its own goroutine; result logged when it returns.
func (w *vfWorld) readBlocking(ep, sid, bufSize int) {
	s := w.stream(ep, sid)
	w.tr.emit(map[string]any{"ev": "api", "ep": ep, "op": "read-call", "sid": sid, "t": w.now()})
	go func() {
		buf := make([]byte, bufSize)
		n, ppi, err := s.ReadSCTP(buf)
		id := 0
		if err == nil {
			id = w.identMsg(1-ep, sid, buf[:n])
		}
		w.tr.emit(map[string]any{"ev": "read", "ep": ep, "sid": sid, "id": id, "len": n, "ppi": int(ppi), "ok": err == nil, "err": vfErrClass(err), "buf": bufSize, "t": w.now(), "async": true})
		w.poke()
	}()
	w.quiesce()
}

// accept drains the accept channel without blocking.
func (w *vfWorld) accept(ep int) int {
	e := w.ep[ep]
	n := 0
	for {
		// While the association lives the PUBLIC call is used (a stream is queued: it cannot block). Once the read loop
		// has ended AcceptStream chooses at random between a queued stream and io.EOF, so the queue is read directly.
		alive := true
		select {
		case <-e.a.readLoopCloseCh:
			alive = false
		default:
		}
		if alive {
			if len(e.a.acceptCh) == 0 {
				return n
			}
			s, err := e.a.AcceptStream()
			if err != nil || s == nil {
				w.tr.emit(map[string]any{"ev": "api", "ep": ep, "op": "accept", "sid": -1, "ok": false, "err": vfErrClass(err), "t": w.now()})
				return n
			}
			sid := int(s.streamIdentifier)
			e.streams[sid] = s
			e.inc[sid]++
			w.tr.emit(map[string]any{"ev": "api", "ep": ep, "op": "accept", "sid": sid, "ok": true, "err": "nil", "t": w.now()})
			n++
			continue
		}
		select {
		case s, ok := <-e.a.acceptCh:
			if !ok || s == nil {
				return n
			}
			sid := int(s.streamIdentifier)
			e.streams[sid] = s
			e.inc[sid]++
			w.tr.emit(map[string]any{"ev": "api", "ep": ep, "op": "accept", "sid": sid, "ok": true, "err": "nil", "t": w.now()})
			n++
		default:
			return n
		}
	}
}

func (w *vfWorld) closeStream(ep, sid int) error {
	s := w.stream(ep, sid)
	err := s.Close()
	w.tr.emit(map[string]any{"ev": "api", "ep": ep, "op": "closestream", "sid": sid, "ok": err == nil, "err": vfErrClass(err), "t": w.now()})
	w.quiesce()
	return err
}

func (w *vfWorld) apiAsync(ep int, op string, f func() error) {
	w.tr.emit(map[string]any{"ev": "api", "ep": ep, "op": op + "-call", "t": w.now()})
	go func() {
		err := f()
		w.tr.emit(map[string]any{"ev": "api", "ep": ep, "op": op + "-ret", "ok": err == nil, "err": vfErrClass(err), "t": w.now()})
		w.poke()
	}()
	w.quiesce()
}

// ---------------------------------------------------------------- projection (snapshots)

func (w *vfWorld) snap() {
	for i := 0; i < 2; i++ {
		e := w.ep[i]
		if e.a == nil {
			continue
		}
		m := w.project(i)
		b, _ := json.Marshal(m)
		if string(b) == e.lastSnap && !w.snapAll {
			w.tr.emit(map[string]any{"ev": "same", "ep": i, "t": w.now()})
			continue
		}
		e.lastSnap = string(b)
		m["ev"] = "snap"
		m["ep"] = i
		m["t"] = w.now()
		w.tr.emit(m)
	}
}

var vfStateNames = map[uint32]string{closed: "closed", cookieWait: "cookieWait", cookieEchoed: "cookieEchoed", established: "established",
	shutdownAckSent: "shutdownAckSent", shutdownPending: "shutdownPending", shutdownReceived: "shutdownReceived", shutdownSent: "shutdownSent"}

// project returns the abstract state of endpoint i. It takes the association lock (the system
// is quiescent when it is called).
func (w *vfWorld) project(i int) map[string]any {
	e := w.ep[i]
	a := e.a
	txb, rxb := w.bases(i)
	a.lock.RLock()
	defer a.lock.RUnlock()
	m := map[string]any{}
	m["st"] = vfStateNames[a.getState()]
	m["nexttsn"] = vfRel(a.myNextTSN, txb)
	m["cumack"] = vfRel(a.cumulativeTSNAckPoint, txb)
	m["advack"] = vfRel(a.advancedPeerTSNAckPoint, txb)
	m["cwnd"], m["ssthresh"], m["rwnd"] = int(a.cwnd), int(a.ssthresh), int(a.rwnd)
	m["pba"] = int(a.partialBytesAcked)
	m["infr"] = a.inFastRecovery
	m["frexit"] = vfRel(a.fastRecoverExitPoint, txb)
	m["inflb"] = a.inflightQueue.getNumBytes()
	m["infln"] = a.inflightQueue.size()
	m["pendb"] = a.pendingQueue.getNumBytes()
	m["pendn"] = a.pendingQueue.size()
	m["abuf"] = a.inflightQueue.getNumBytes() + a.pendingQueue.getNumBytes()
	m["useil"] = a.useInterleaving
	m["usefwd"], m["useifwd"] = a.useForwardTSN, a.useIForwardTSN
	m["sendzc"], m["recvzc"] = a.sendZeroChecksum, a.recvZeroChecksum
	m["ackst"] = a.ackState
	// in-flight chunks (bounded)
	infl := []any{}
	for k := 0; k < a.inflightQueue.size() && k < 64; k++ {
		c := a.inflightQueue.chunks.At(k)
		infl = append(infl, []any{vfRel(c.tsn, txb), int(c.streamIdentifier), int(c.nSent), vfB(c.acked), vfB(c.abandoned()), vfB(c.retransmit), len(c.userData)})
	}
	m["infl"] = infl
	// receiver record
	q := a.payloadQueue
	m["rcum"] = vfRel(q.cumulativeTSN, rxb)
	held := []any{}
	if q.chunkSize > 0 {
		for t := q.cumulativeTSN + 1; sna32LTE(t, q.tailTSN) && len(held) < 4096; t++ {
			if q.hasChunk(t) {
				held = append(held, vfRel(t, rxb))
			}
		}
	}
	m["held"] = held
	m["nheld"] = q.chunkSize
	m["arwnd"] = int(a.getMyReceiverWindowCredit())
	sids := []int{}
	for sid := range a.streams {
		sids = append(sids, int(sid))
	}
	sort.Ints(sids)
	regs := []any{}
	for _, sid := range sids {
		regs = append(regs, sid)
	}
	m["reg"] = regs
	// stream objects: the registered one for each id, else the one the harness knows
	objs := map[int]*Stream{}
	for sid, so := range e.streams {
		objs[sid] = so
	}
	for sid, so := range a.streams {
		objs[int(sid)] = so
	}
	hs := []int{}
	for sid := range objs {
		hs = append(hs, sid)
	}
	sort.Ints(hs)
	sts := []any{}
	for _, sid := range hs {
		s := objs[sid]
		s.lock.RLock()
		_, isReg := a.streams[uint16(sid)]
		ob, pb := w.seqBase[[2]int{i, sid}], w.seqBase[[2]int{1 - i, sid}]
		sts = append(sts, map[string]any{"sid": sid, "ba": int(s.bufferedAmount), "rb": s.reassemblyQueue.getNumBytes(),
			"ssn": int(int16(s.sequenceNumber - ob.ssn)), "omid": int(int32(s.nextOrderedMID - ob.mid)), "umid": int(int32(s.nextUnorderedMID - ob.mid)),
			"state": s.state.String(), "rerr": vfErrClass(s.readErr), "readable": s.reassemblyQueue.isReadable(),
			"rssn": int(int16(s.reassemblyQueue.nextSSN - pb.ssn)), "rmid": int(int32(s.reassemblyQueue.nextMID - pb.mid)), "reg": isReg,
			"known": e.streams[sid] == s})
		s.lock.RUnlock()
	}
	m["streams"] = sts
	m["nt3"] = int(a.stats.getNumT3Timeouts())
	m["nfast"] = int(a.stats.getNumFastRetrans())
	m["timers"] = map[string]any{"t1i": a.t1Init.isRunning(), "t1c": a.t1Cookie.isRunning(), "t2": a.t2Shutdown.isRunning(),
		"t3": a.t3RTX.isRunning(), "trc": a.tReconfig.isRunning(), "ack": a.ackTimer.isRunning()}
	m["rto"] = int(a.rtoMgr.getRTO())
	m["srtt"] = int(a.SRTT() * 1000)
	m["hbsent"] = int(a.stats.getNumPacketsSent()) * 0
	m["nreconf"] = len(a.reconfigs)
	m["nreconfreq"] = len(a.reconfigRequests)
	return m
}

func vfB(b bool) int {
	if b {
		return 1
	}
	return 0
}

// ---------------------------------------------------------------- end of scenario: leak detection

// finish closes whatever is still open (optionally), waits for quiescence and reports leaked
// goroutines of the bubble as an event instead of letting synctest panic.
func (w *vfWorld) finish(closeAll bool) {
	if closeAll {
		for i := 0; i < 2; i++ {
			if e := w.ep[i]; e.a != nil {
				a := e.a
				go a.Close() //nolint:errcheck
			}
			w.ep[i].conn.Close()
		}
	}
	synctest.Wait()
	// let pending timers (at most the 200 ms abort flush etc.) run out
	time.Sleep(2 * time.Second)
	synctest.Wait()
	leaks := vfLeaked()
	ev := map[string]any{"ev": "end", "t": w.now(), "leaks": len(leaks), "clean": len(leaks) == 0}
	// timers still armed after teardown ("ep:name"); only for associations whose transport is closed
	armed := []any{}
	for i := 0; i < 2; i++ {
		e := w.ep[i]
		if e.a == nil || !e.conn.isClosed() {
			continue
		}
		for _, tm := range []struct {
			n string
			t *rtxTimer
		}{{"t1init", e.a.t1Init}, {"t1cookie", e.a.t1Cookie}, {"t2shutdown", e.a.t2Shutdown}, {"t3rtx", e.a.t3RTX}, {"treconfig", e.a.tReconfig}} {
			if tm.t != nil && tm.t.isRunning() {
				armed = append(armed, fmt.Sprintf("%d:%s", i, tm.n))
			}
		}
		if e.a.ackTimer != nil && e.a.ackTimer.isRunning() {
			armed = append(armed, fmt.Sprintf("%d:ack", i))
		}
	}
	ev["timers"] = armed
	if len(leaks) > 0 {
		ls := []any{}
		for _, l := range leaks {
			ls = append(ls, l)
		}
		ev["stacks"] = ls
	}
	w.tr.emit(ev)
}

// vfLeaked lists goroutines of the current bubble other than the caller that are still alive.
func vfLeaked() []string {
	buf := make([]byte, 1<<22)
	n := runtime.Stack(buf, true)
	var out []string
	mine := ""
	for k, g := range strings.Split(string(buf[:n]), "\n\n") {
		if k == 0 {
			// the caller: remember which bubble this is ("..., synctest bubble N]:")
			if i := strings.Index(g, "synctest bubble "); i >= 0 {
				j := strings.Index(g[i:], "]")
				if j > 0 {
					mine = g[i : i+j]
				}
			}
			continue
		}
		if !strings.Contains(g, "synctest bubble") || (mine != "" && !strings.Contains(g, mine+"]")) {
			continue
		}
		if strings.Contains(g, "[synctest.Run") || strings.Contains(g, "testingSynctestTest") || strings.Contains(g, "synctest.Test(") {
			continue
		}
		lines := strings.Split(g, "\n")
		fn := ""
		for _, l := range lines[1:] {
			if strings.Contains(l, "pion/sctp") || strings.Contains(l, "deadline") {
				fn = strings.TrimSpace(l)
				break
			}
		}
		if fn == "" && len(lines) > 1 {
			fn = strings.TrimSpace(lines[1])
		}
		out = append(out, fmt.Sprintf("%s | %s", strings.TrimSpace(lines[0]), fn))
	}
	return out
}
