package sctp

// Seeded transfer scenarios: configuration lattice x workload x per-packet fault decisions.
// The generator only drives; the recorded trace is judged by /verif/spec/ObsTrace.tla.

import (
	"fmt"
	"math/rand"
	"os"
	"sort"
	"strings"
	"testing"
	"time"
)

type vfStreamPlan struct {
	ep, sid   int
	unord     bool
	rtype     byte
	rval      uint32
	threshold int
	dcepFirst bool
	seqWrap   int // >0: SSN/MID counters preset this far below their wrap
}

type vfXfer struct {
	Seed    int64
	Profile string
	Label   string
	A, B    vfEpCfg
	Streams []vfStreamPlan
	NMsgs   int
	PDrop   float64
	PDup    float64
	PReord  float64
	Budget  int
	Pause   int // reader paused until this step (0 = never paused)
	MaxLen  int
}

var vfWrapOffsets = []uint32{1, 2, 3, 5, 17, 63, 64, 65, 100, 127, 128, 129, 1000, 2047, 2048, 2049, 4095, 4096, 4097, 8447, 8448, 8449}

func vfPickTSN(r *rand.Rand, profile string) uint32 {
	switch {
	case profile == "wrap" || r.Intn(6) == 0:
		return uint32(0) - vfWrapOffsets[r.Intn(len(vfWrapOffsets))]
	case r.Intn(5) == 0:
		return 0
	case r.Intn(5) == 0:
		return 1 << 31
	default:
		return r.Uint32()
	}
}

func vfPlanXfer(seed int64, profile string) vfXfer {
	r := rand.New(rand.NewSource(seed))
	x := vfXfer{Seed: seed, Profile: profile, Label: fmt.Sprintf("xfer-%s#%d", profile, seed)}
	mtus := []uint32{1191, 1191, 1191, 576, 1500, 200, 100}
	bufs := []uint32{1 << 20, 1 << 20, 65536, 16384}
	il := r.Intn(2) == 0
	ilB := il
	if r.Intn(5) == 0 {
		ilB = !il
	}
	scheds := []string{"", "wfq", "rr"}
	x.A = vfEpCfg{InitTSN: vfPickTSN(r, profile), Tag: 0xA0000000 + uint32(r.Intn(1<<20)) + 1, IL: il, ZC: r.Intn(3) == 0, MTU: mtus[r.Intn(len(mtus))],
		Buf: bufs[r.Intn(len(bufs))], Sched: scheds[r.Intn(3)]}
	x.B = vfEpCfg{InitTSN: vfPickTSN(r, profile), Tag: 0xB0000000 + uint32(r.Intn(1<<20)) + 1, IL: ilB, ZC: r.Intn(3) == 0, MTU: mtus[r.Intn(len(mtus))],
		Buf: bufs[r.Intn(len(bufs))], Sched: scheds[r.Intn(3)], Server: r.Intn(2) == 0}
	if r.Intn(4) == 0 {
		x.A.RTOMax = []float64{1000, 2000, 5000}[r.Intn(3)]
		x.B.RTOMax = x.A.RTOMax
	}
	x.PDrop, x.PDup, x.PReord = 0.05, 0.03, 0.1
	x.NMsgs = 4 + r.Intn(20)
	x.Budget = 1500
	x.MaxLen = 6000
	switch profile {
	case "basic":
	case "clean":
		x.PDrop, x.PDup, x.PReord = 0, 0, 0
	case "lossy":
		x.PDrop, x.PDup, x.PReord = 0.2, 0.05, 0.2
	case "reorder":
		x.PDrop, x.PDup, x.PReord = 0.02, 0.1, 0.6
	case "zwin":
		x.A.Buf, x.B.Buf = []uint32{4096, 8192, 3000}[r.Intn(3)], []uint32{4096, 8192, 3000}[r.Intn(3)]
		x.Pause = 100 + r.Intn(300)
		x.MaxLen = 2500
		x.PDrop = 0.08
	case "pr":
		x.PDrop, x.PDup, x.PReord = 0.25, 0.03, 0.15
	case "wrap":
	case "il":
		x.A.IL, x.B.IL = true, true
		x.MaxLen = 12000
	case "big":
		x.NMsgs = 2 + r.Intn(4)
		x.MaxLen = 65536
		x.Budget = 4000
		x.A.MTU, x.B.MTU = 1191, 1191
	case "tiny":
		x.A.MTU, x.B.MTU = 36+uint32(r.Intn(3))*4, 36+uint32(r.Intn(3))*4
		x.MaxLen = 60
	}
	nA, nB := 1+r.Intn(3), r.Intn(3)
	sid := 0
	mk := func(ep int) vfStreamPlan {
		sid++
		p := vfStreamPlan{ep: ep, sid: sid}
		if profile == "pr" || r.Intn(4) == 0 {
			p.unord = r.Intn(2) == 0
			switch r.Intn(3) {
			case 0:
				p.rtype, p.rval = ReliabilityTypeRexmit, uint32(r.Intn(3))
			case 1:
				p.rtype, p.rval = ReliabilityTypeTimed, []uint32{0, 1, 100, 1500, 5000}[r.Intn(5)]
			}
		} else if r.Intn(4) == 0 {
			p.unord = true
		}
		p.threshold = []int{0, 0, 1, 500, 3000}[r.Intn(5)]
		p.dcepFirst = r.Intn(3) == 0
		if profile == "wrap" || r.Intn(5) == 0 {
			p.seqWrap = 1 + r.Intn(4)
		}
		return p
	}
	for i := 0; i < nA; i++ {
		x.Streams = append(x.Streams, mk(0))
	}
	for i := 0; i < nB; i++ {
		x.Streams = append(x.Streams, mk(1))
	}
	// C02 speaks about workloads whose in-progress messages fit the receive buffer: with k sending
	// streams up to k messages (interleaving) can be in progress at once, each is kept below buf/(k+1)
	for _, pair := range [][2]int{{nA, int(x.B.Buf)}, {nB, int(x.A.Buf)}} {
		if lim := pair[1]/(pair[0]+1) - 64; pair[0] > 0 && x.MaxLen > lim {
			x.MaxLen = lim
		}
	}
	return x
}

func vfPickLen(r *rand.Rand, p, maxLen int) int {
	c := []int{1, 2, 3, 4, 10, 100, p - 1, p, p + 1, 2 * p, 2*p + 1, 3*p + 1, 5 * p, 1 + r.Intn(maxLen)}
	n := c[r.Intn(len(c))]
	if n < 1 {
		n = 1
	}
	if n > maxLen {
		n = maxLen
	}
	return n
}

// vfConnect performs a fault-free handshake. Returns false if it did not complete.
func (w *vfWorld) vfConnect() bool {
	w.cfgEvent()
	w.start(0)
	w.quiesce()
	w.start(1)
	w.quiesce()
	for i := 0; i < 20; i++ {
		if w.pump(20) == 0 {
			break
		}
	}
	w.mu.Lock()
	ok := w.ep[0].connRet && w.ep[1].connRet && w.ep[0].connErr == nil && w.ep[1].connErr == nil
	w.mu.Unlock()
	return ok
}

func (w *vfWorld) installCallback(ep, sid, threshold int) {
	s := w.stream(ep, sid)
	s.SetBufferedAmountLowThreshold(uint64(threshold))
	s.OnBufferedAmountLow(func() {
		// re-enter the API from inside the callback: must not deadlock (C15/C20)
		ba := s.BufferedAmount()
		ab := s.association.BufferedAmount()
		_ = s.BufferedAmountLowThreshold()
		w.tr.emit(map[string]any{"ev": "cb", "ep": ep, "sid": sid, "ba": int(ba), "abuf": ab, "t": w.now()})
	})
	w.tr.emit(map[string]any{"ev": "api", "ep": ep, "op": "threshold", "sid": sid, "val": threshold, "t": w.now()})
}

// drainReads reads everything readable on every known stream of both endpoints.
func (w *vfWorld) drainReads() int {
	n := 0
	for ep := 0; ep < 2; ep++ {
		w.accept(ep)
		for _, sid := range w.sortedSids(ep) {
			for k := 0; k < 10000; k++ {
				s := w.stream(ep, sid)
				s.lock.RLock()
				rd := s.reassemblyQueue.isReadable()
				s.lock.RUnlock()
				if !rd {
					break
				}
				w.read(ep, sid, 1<<17)
				n++
			}
		}
	}
	return n
}

func (w *vfWorld) idle() bool {
	if len(w.pending(-1)) > 0 {
		return false
	}
	for i := 0; i < 2; i++ {
		a := w.ep[i].a
		a.lock.RLock()
		busy := a.inflightQueue.size() > 0 || a.pendingQueue.size() > 0 || a.ackState != ackStateIdle ||
			a.t3RTX.isRunning() || a.tReconfig.isRunning() || a.willSendForwardTSN || a.willRetransmitFast
		a.lock.RUnlock()
		if busy {
			return false
		}
	}
	return true
}

// heal: no more faults; deliver everything in order, let timers run, keep reading, for at most d.
func (w *vfWorld) heal(d time.Duration) {
	start := time.Now()
	w.tr.emit(map[string]any{"ev": "note", "what": "heal", "t": w.now()})
	quiet := 0
	for time.Since(start) < d {
		w.drainReads()
		if w.pump(10000) > 0 {
			quiet = 0
			continue
		}
		if w.idle() {
			quiet++
			if quiet >= 2 {
				break
			}
		}
		rem := d - time.Since(start)
		if rem > 3*time.Second {
			rem = 3 * time.Second
		}
		if rem <= 0 {
			break
		}
		w.tick(rem)
	}
	w.drainReads()
	w.pump(10000)
	w.drainReads()
}

func vfRunXfer(t *testing.T, tr *vfTrace, x vfXfer) (hung bool) {
	return vfBubble(t, x.Label, func() {
		r := rand.New(rand.NewSource(x.Seed ^ 0x5eed))
		w := vfNewWorld(vfWorldOpt{Label: x.Label, Trace: tr, A: x.A, B: x.B, Seed: x.Seed})
		if !w.vfConnect() {
			w.tr.emit(map[string]any{"ev": "note", "what": "handshake-failed", "t": w.now()})
			w.finish(true)
			return
		}
		for _, sp := range x.Streams {
			w.open(sp.ep, sp.sid, 51)
			if sp.unord || sp.rtype != 0 {
				w.setRel(sp.ep, sp.sid, sp.unord, sp.rtype, sp.rval)
			}
			w.installCallback(sp.ep, sp.sid, sp.threshold)
			if sp.seqWrap > 0 {
				w.presetSeq(sp.ep, sp.sid, vfSeqBase{ssn: uint16(0) - uint16(sp.seqWrap), mid: uint32(0) - uint32(sp.seqWrap)})
			}
		}
		sent := map[int]int{}
		nWritten := 0
		rtoMax := 60000.0
		if x.A.RTOMax != 0 {
			rtoMax = x.A.RTOMax
		}
		for step := 0; step < x.Budget; step++ {
			pend := w.pending(-1)
			c := r.Float64()
			switch {
			case len(pend) > 0 && c < 0.62:
				k := 0
				if r.Float64() < x.PReord {
					k = r.Intn(len(pend))
				}
				f := r.Float64()
				switch {
				case f < x.PDrop:
					w.drop(pend[k].id)
				case f < x.PDrop+x.PDup:
					w.dup(pend[k].id)
				default:
					w.deliver(pend[k].id)
				}
			case nWritten < x.NMsgs && c < 0.85:
				sp := x.Streams[r.Intn(len(x.Streams))]
				a := w.ep[sp.ep].a
				p := int(a.maxPayloadSize)
				n := vfPickLen(r, p, x.MaxLen)
				ppi := uint32(51 + 2*r.Intn(2))
				if sp.dcepFirst && sent[sp.sid] == 0 {
					ppi = 50
					if n > 200 {
						n = 20
					}
				}
				w.write(sp.ep, sp.sid, n, ppi)
				sent[sp.sid]++
				nWritten++
			case step >= x.Pause && c < 0.95:
				w.accept(0)
				w.accept(1)
				ep := r.Intn(2)
				for _, sid := range w.sortedSids(ep) {
					if w.readable(ep, sid) && w.stream(ep, sid).reassemblyQueue.isReadable() {
						w.read(ep, sid, 1<<17)
						break
					}
				}
			case len(pend) > 0:
				w.deliver(pend[0].id)
			default:
				if nWritten >= x.NMsgs && step >= x.Pause {
					step = x.Budget
					break
				}
				w.tick(time.Duration(50+r.Intn(1500)) * time.Millisecond)
			}
		}
		healAt := w.now()
		d := time.Duration(3*rtoMax+2000) * time.Millisecond
		w.heal(d)
		// final quiescent observation point: everything readable has been read
		w.snapAll = true
		w.quiesce()
		w.tr.emit(map[string]any{"ev": "expect", "drained": true, "healt": healAt, "t": w.now(), "d": int(d / time.Millisecond)})
		w.finish(true)
	})
}

func init() {
	// VF_MODE=xfer: VF_N scenarios of VF_PROFILE (comma list), seeds VF_SEED*1000+k, into VF_OUT/xfer-<shard>.ndjson
	vfModes["xfer"] = func(t *testing.T) {
		n := vfEnvInt("VF_N", 20)
		seed := int64(vfEnvInt("VF_SEED", 1))
		shard := vfEnvInt("VF_SHARD", 0)
		profiles := vfSplit(os.Getenv("VF_PROFILE"), []string{"basic", "lossy", "reorder", "zwin", "pr", "wrap", "il", "tiny", "clean"})
		tr, err := vfNewTrace(vfOut(fmt.Sprintf("xfer-%d.ndjson", shard)))
		if err != nil {
			t.Fatal(err)
		}
		defer tr.close()
		for k := 0; k < n; k++ {
			p := profiles[k%len(profiles)]
			x := vfPlanXfer(seed*100000+int64(shard)*1000+int64(k), p)
			if vfRunXfer(t, tr, x) {
				tr.emit(map[string]any{"ev": "hang", "label": x.Label})
				t.Fatalf("scenario %s hung", x.Label)
			}
		}
	}
}

func vfSplit(s string, def []string) []string {
	if s == "" {
		return def
	}
	out := []string{}
	cur := ""
	for _, c := range s {
		if c == ',' {
			if cur != "" {
				out = append(out, cur)
			}
			cur = ""
		} else {
			cur += string(c)
		}
	}
	if cur != "" {
		out = append(out, cur)
	}
	return out
}

// ---------------------------------------------------------------- directed PR-SCTP scenarios (C07)

type vfPktData struct {
	id, fi, tsn int
	first       bool
}

// dataIn lists the DATA chunks of a pending packet with "first transmission" flags.
func (w *vfWorld) dataIn(p *vfPkt) []vfPktData {
	d := vfDecodePacket(p.raw)
	txb, rxb := w.bases(p.from)
	out := []vfPktData{}
	for _, c := range d.Chunks {
		if c.Typ != 0 && c.Typ != 64 {
			continue
		}
		m, _ := vfChunkJSON(c, txb, rxb, w.identFrag(p.from))
		tsn := m["tsn"].(int)
		key := [2]int{p.from, tsn}
		w.mu.Lock()
		if w.firstPid == nil {
			w.firstPid = map[[2]int]int{}
		}
		fp, seen := w.firstPid[key]
		if !seen {
			w.firstPid[key] = p.id
			fp = p.id
		}
		w.mu.Unlock()
		out = append(out, vfPktData{id: m["id"].(int), fi: m["fi"].(int), tsn: tsn, first: fp == p.id})
	}
	return out
}

type vfDirected struct {
	Label     string
	IL        bool
	Unord     bool
	RType     byte
	RVal      uint32
	NFrag     []int           // fragments per message
	Drop      map[[2]int]bool // (message index 1.., fragment) whose FIRST transmission is dropped
	DropFwd   int             // number of FORWARD-TSN packets to drop
	RecvUnord bool            // receiver application configures its stream object differently
	Mixed     bool            // odd messages are sent with the opposite ordering (ordered/unordered share the stream)
	Burst     bool            // all messages are written before the network moves (one FORWARD-TSN can cover several messages)
	SeqWrap   int             // >0: SSN/MID counters preset this far below their wrap
	RelFrag   bool            // the fully reliable stream sends two-fragment messages and loses the first copy of each last fragment
}

func vfRunDirected(t *testing.T, tr *vfTrace, x vfDirected) bool {
	return vfBubble(t, x.Label, func() {
		w := vfNewWorld(vfWorldOpt{Label: x.Label, Trace: tr, A: vfEpCfg{InitTSN: 1000, IL: x.IL, Tag: 0xA1}, B: vfEpCfg{InitTSN: 5000, IL: x.IL, Tag: 0xB1, Server: true}})
		if !w.vfConnect() {
			w.finish(true)
			return
		}
		w.open(0, 1, 51)
		w.setRel(0, 1, x.Unord, x.RType, x.RVal)
		w.installCallback(0, 1, 0)
		// a second, fully reliable ordered stream: its traffic must never suffer (C07)
		w.open(0, 2, 51)
		if x.SeqWrap > 0 {
			w.presetSeq(0, 1, vfSeqBase{ssn: uint16(0) - uint16(x.SeqWrap), mid: uint32(0) - uint32(x.SeqWrap)})
			w.presetSeq(0, 2, vfSeqBase{ssn: uint16(0) - uint16(x.SeqWrap+1), mid: uint32(0) - uint32(x.SeqWrap+1)})
		}
		p := int(w.ep[0].a.maxPayloadSize)
		fwdDropped := 0
		ids := map[int]int{}
		relIds := map[int]bool{}
		relWrite := func(i int) {
			n := 10 + i
			if x.RelFrag {
				n = 2*p - 3 - i
			}
			m, _ := w.write(0, 2, n, 53)
			if x.RelFrag && m != nil {
				relIds[m.ID] = true
			}
		}
		pumpSel := func() {
			for k := 0; k < 200; k++ {
				pend := w.pending(-1)
				if len(pend) == 0 {
					return
				}
				pk := pend[0]
				drop := false
				for _, d := range w.dataIn(pk) {
					if mi, ok := ids[d.id]; ok && d.first && x.Drop[[2]int{mi, d.fi}] {
						drop = true
					}
					if relIds[d.id] && d.first && d.fi == 1 {
						drop = true
					}
				}
				if !drop && fwdDropped < x.DropFwd {
					dd := vfDecodePacket(pk.raw)
					for _, c := range dd.Chunks {
						if c.Typ == 192 || c.Typ == 194 {
							drop = true
							fwdDropped++
							break
						}
					}
				}
				if drop {
					w.drop(pk.id)
				} else {
					w.deliver(pk.id)
				}
				if x.RecvUnord && w.accept(1) > 0 {
					if s := w.stream(1, 1); s != nil {
						w.setRel(1, 1, !x.Unord, ReliabilityTypeReliable, 0)
					}
				}
			}
		}
		for i, nf := range x.NFrag {
			n := nf*p - 3
			if nf == 1 {
				n = 20 + i
			}
			if x.Mixed && i%2 == 1 {
				w.setRel(0, 1, !x.Unord, x.RType, x.RVal)
			} else if x.Mixed {
				w.setRel(0, 1, x.Unord, x.RType, x.RVal)
			}
			m, _ := w.write(0, 1, n, 51)
			ids[m.ID] = i + 1
			if !x.Burst {
				relWrite(i)
				pumpSel()
			}
		}
		if x.Burst { // the reliable stream's traffic follows the burst of partially reliable messages
			for i := range x.NFrag {
				relWrite(i)
			}
		}
		pumpSel()
		w.heal(200 * time.Second)
		w.snapAll = true
		w.quiesce()
		w.tr.emit(map[string]any{"ev": "expect", "drained": true, "t": w.now()})
		w.finish(true)
	})
}

func init() {
	// prdir: exhaustive enumeration of abandonment positions on one stream (see DESIGN C07)
	vfModes["prdir"] = func(t *testing.T) {
		shard, nshards := vfEnvInt("VF_SHARD", 0), vfEnvInt("VF_NSHARDS", 1)
		full := os.Getenv("VF_FULL") == "1"
		tr, err := vfNewTrace(vfOut(fmt.Sprintf("prdir-%d.ndjson", shard)))
		if err != nil {
			t.Fatal(err)
		}
		defer tr.close()
		k := 0
		shapes := [][]int{{1, 1, 1, 1}, {2, 1, 2, 1}, {1, 3, 1, 1}}
		for _, il := range []bool{false, true} {
			for _, unord := range []bool{false, true} {
				for si, shape := range shapes {
					// all drop sets of <= 2 (message, fragment) positions
					var pos [][2]int
					for mi, nf := range shape {
						for f := 0; f < nf; f++ {
							pos = append(pos, [2]int{mi + 1, f})
						}
					}
					var sets []map[[2]int]bool
					for a := 0; a < len(pos); a++ {
						sets = append(sets, map[[2]int]bool{pos[a]: true})
						for b := a + 1; b < len(pos); b++ {
							sets = append(sets, map[[2]int]bool{pos[a]: true, pos[b]: true})
						}
					}
					for di, ds := range sets {
						for _, variant := range []string{"plain", "fwdlost", "recvcfg", "mixed", "burst", "burstwrap", "wrap", "relfrag", "relfragburst", "mixedburst", "mixedfwdlost"} {
							sel := 0
							if strings.HasPrefix(variant, "mixed") && variant != "mixed" {
								sel = 1 // neighbouring messages of different ordering lost together: one (I-)FORWARD-TSN reports both
							}
							if !full && variant != "plain" && di%3 != sel {
								continue
							}
							if only := os.Getenv("VF_ONLY"); only != "" && !strings.Contains(variant, only) {
								continue
							}
							k++
							if k%nshards != shard {
								continue
							}
							x := vfDirected{Label: fmt.Sprintf("prdir-%s-il%v-u%v-s%d-d%d#%d", variant, il, unord, si, di, k), IL: il, Unord: unord,
								RType: ReliabilityTypeRexmit, RVal: 0, NFrag: shape, Drop: ds}
							switch variant {
							case "fwdlost":
								x.DropFwd = 1
							case "recvcfg":
								x.RecvUnord = true
							case "mixed":
								x.Mixed = true
							case "burst":
								x.Burst = true
							case "burstwrap":
								x.Burst, x.SeqWrap = true, 1+di%3
							case "wrap":
								x.SeqWrap = 1 + di%3
							case "mixedburst":
								x.Mixed, x.Burst = true, true
							case "mixedfwdlost":
								x.Mixed, x.DropFwd = true, 1
							case "relfrag":
								x.RelFrag = true
							case "relfragburst":
								x.RelFrag, x.Burst = true, true
							}
							if vfRunDirected(t, tr, x) {
								t.Fatalf("scenario %s hung", x.Label)
							}
						}
					}
				}
			}
		}
	}
}

func (w *vfWorld) sortedSids(ep int) []int {
	out := []int{}
	for sid := range w.ep[ep].streams {
		out = append(out, sid)
	}
	sort.Ints(out)
	return out
}
