package sctp

// Shutdown family (C08): one-sided and crossed graceful shutdown with queued data, with every
// (kind, sender, ordinal) loss / duplication decision over DATA, SACK, SHUTDOWN, SHUTDOWN-ACK and
// SHUTDOWN-COMPLETE enumerated up to k faults, plus stale shutdown chunks injected in every state.

import (
	"bufio"
	"context"
	"encoding/binary"
	"encoding/json"
	"fmt"
	"math/rand"
	"os"
	"strings"
	"testing"
	"time"
)

type vfFault struct {
	kind string
	from int
	n    int
	dup  bool
}

type vfShut struct {
	Label  string
	Who    int // 0: A, 1: B, 2: both (crossed)
	NMsgA  int
	NMsgB  int
	Faults []vfFault
	IL     bool
	Late   bool // shutdown is called after half of the data moved
	Stray  int  // chunk type of a stray control chunk (SHUTDOWN-ACK 8, SHUTDOWN-COMPLETE 14; 0 = none) that reaches the caller
	// right after its Shutdown call, while its data is still outstanding: not what the peer sent, to be ignored
	Base [2]uint32
}

func vfRunShut(t *testing.T, tr *vfTrace, x vfShut) bool {
	return vfBubble(t, x.Label, func() {
		w := vfNewWorld(vfWorldOpt{Label: x.Label, Trace: tr, A: vfEpCfg{InitTSN: x.Base[0], Tag: 0xA3, IL: x.IL}, B: vfEpCfg{InitTSN: x.Base[1], Tag: 0xB3, IL: x.IL, Server: true}})
		if !w.vfConnect() {
			w.finish(true)
			return
		}
		w.open(0, 1, 51)
		w.open(1, 2, 51)
		p := int(w.ep[0].a.maxPayloadSize)
		for i := 0; i < x.NMsgA; i++ {
			w.write(0, 1, p*(1+i%2), 51)
		}
		for i := 0; i < x.NMsgB; i++ {
			w.write(1, 2, p, 53)
		}
		seenKind := map[[2]any]int{}
		done := map[int]bool{}
		used := make([]bool, len(x.Faults))
		step := func() bool {
			pend := w.pending(-1)
			if len(pend) == 0 {
				return false
			}
			pk := pend[0]
			k := vfFirstKind(pk.raw)
			if k == "idata" {
				k = "data"
			}
			if !done[pk.id] {
				done[pk.id] = true
				seenKind[[2]any{k, pk.from}]++
			}
			ord := seenKind[[2]any{k, pk.from}]
			for i, f := range x.Faults {
				if !used[i] && f.kind == k && f.from == pk.from && f.n == ord {
					used[i] = true
					if f.dup {
						w.dup(pk.id)
						return true
					}
					w.drop(pk.id)
					return true
				}
			}
			w.deliver(pk.id)
			return true
		}
		if x.Late {
			for i := 0; i < 3; i++ {
				step()
			}
		}
		call := func(ep int) {
			a := w.ep[ep].a
			w.apiAsync(ep, "shutdown", func() error { return a.Shutdown(context.Background()) })
			// a write attempted after shutdown began must be rejected (C08 / C18)
			sid := 1 + ep
			w.write(ep, sid, 10, 51)
		}
		if x.Who == 0 || x.Who == 2 {
			call(0)
		}
		if x.Who == 1 || x.Who == 2 {
			call(1)
		}
		if x.Stray != 0 {
			for ep := 0; ep < 2; ep++ {
				if x.Who == ep || x.Who == 2 {
					w.inject(ep, w.vfForge(ep, vfEncChunk(x.Stray, 0, nil)), "stray-shutdown-chunk", false)
				}
			}
		}
		start := time.Now()
		for time.Since(start) < 400*time.Second {
			w.accept(0)
			w.accept(1)
			w.drainReads()
			if step() {
				continue
			}
			c0, c1 := w.ep[0].conn.isClosed(), w.ep[1].conn.isClosed()
			if c0 && c1 {
				break
			}
			// "the peer at the latest when its transport closes": once one side is closed and the
			// other has been given 10 s, the surviving transport is closed as DTLS would do
			if (c0 || c1) && time.Since(start) > 10*time.Second {
				for e := 0; e < 2; e++ {
					if !w.ep[e].conn.isClosed() {
						w.tr.emit(map[string]any{"ev": "api", "ep": e, "op": "connfail", "t": w.now()})
						w.ep[e].conn.Close()
						w.quiesce()
					}
				}
				continue
			}
			w.tick(5 * time.Second)
		}
		w.drainReads()
		// after closure every stream reports it: one more read per stream
		for ep := 0; ep < 2; ep++ {
			for _, sid := range w.sortedSids(ep) {
				w.read(ep, sid, 1<<17)
			}
		}
		w.snapAll = true
		w.quiesce()
		w.tr.emit(map[string]any{"ev": "shutend", "who": x.Who, "t": w.now()})
		w.finish(false)
	})
}

func init() {
	vfModes["shutdown"] = func(t *testing.T) {
		shard, nshards := vfEnvInt("VF_SHARD", 0), vfEnvInt("VF_NSHARDS", 1)
		full := vfEnvInt("VF_FULL", 0) == 1
		seed := int64(vfEnvInt("VF_SEED", 1))
		tr, err := vfNewTrace(vfOut(fmt.Sprintf("shutdown-%d.ndjson", shard)))
		if err != nil {
			t.Fatal(err)
		}
		defer tr.close()
		var singles []vfFault
		for _, k := range []string{"data", "sack", "shutdown", "shutdownack", "shutdowncomplete"} {
			for from := 0; from < 2; from++ {
				for n := 1; n <= 2; n++ {
					singles = append(singles, vfFault{k, from, n, false})
					if n == 1 {
						singles = append(singles, vfFault{k, from, n, true})
					}
				}
			}
		}
		sets := [][]vfFault{{}}
		for _, f := range singles {
			sets = append(sets, []vfFault{f})
		}
		for i := range singles {
			for j := i + 1; j < len(singles); j++ {
				sets = append(sets, []vfFault{singles[i], singles[j]})
			}
		}
		r := rand.New(rand.NewSource(seed))
		k := 0
		// a stray SHUTDOWN-ACK / SHUTDOWN-COMPLETE reaches an endpoint that has called Shutdown and still has data
		// outstanding (SHUTDOWN-PENDING): it completes nothing
		for _, stray := range []int{8, 14} {
			for who := 0; who < 3; who++ {
				for _, lose := range []int{1, 2} {
					for _, il := range []bool{false, true} {
						k++
						if k%nshards != shard {
							continue
						}
						x := vfShut{Label: fmt.Sprintf("shutdown-stray%d-w%d-l%d-il%v#%d", stray, who, lose, il, k), Who: who, NMsgA: 3, NMsgB: 2, Stray: stray,
							Faults: []vfFault{{"data", 0, lose, false}, {"data", 1, 1, false}}, IL: il, Base: [2]uint32{uint32(k * 7919), uint32(0) - uint32(k%5)}}
						if vfRunShut(t, tr, x) {
							t.Fatalf("scenario %s hung", x.Label)
						}
					}
				}
			}
		}
		for who := 0; who < 3; who++ {
			for _, nm := range [][2]int{{0, 0}, {1, 0}, {3, 1}, {4, 2}} {
				for si, fs := range sets {
					if !full && len(fs) == 2 && r.Intn(12) != 0 {
						continue
					}
					k++
					if k%nshards != shard {
						continue
					}
					x := vfShut{Label: fmt.Sprintf("shutdown-w%d-m%d%d-f%d#%d", who, nm[0], nm[1], si, k), Who: who, NMsgA: nm[0], NMsgB: nm[1], Faults: fs,
						IL: k%2 == 0, Late: k%3 == 0, Base: [2]uint32{uint32(k * 7919), uint32(0) - uint32(k%5)}}
					if vfRunShut(t, tr, x) {
						t.Fatalf("scenario %s hung", x.Label)
					}
				}
			}
		}
	}
}

// ---------------------------------------------------------------------------------------------
// shut-replay: behaviours of spec/Shutdown.tla replayed on real associations. Control packets are matched
// by (sender, kind, ordinal), SACKs by (sender, cumulative TSN ack) -- the real receiver delays and merges
// acknowledgements, so the driver lets up to 250 ms pass when the SACK the model delivers has not been
// written yet --, DATA by (sender, ordinal of the DATA packet). A behaviour the real code cannot follow
// ends as drift (not a verdict); afterwards everything is delivered loss-free and the C08 monitors of
// ObsTrace judge the history.

type vfShOp struct {
	Op   string `json:"op"`
	E    int    `json:"e"`
	From int    `json:"from"`
	K    string `json:"k"`
	N    int    `json:"n"`
	Cum  int    `json:"cum"`
}

func init() {
	vfModes["shut-replay"] = func(t *testing.T) {
		shard, nshards := vfEnvInt("VF_SHARD", 0), vfEnvInt("VF_NSHARDS", 1)
		na, nb := vfEnvInt("VF_NA", 2), vfEnvInt("VF_NB", 1)
		f, err := os.Open(os.Getenv("VF_IN"))
		if err != nil {
			t.Fatal(err)
		}
		defer f.Close()
		tr, err := vfNewTrace(vfOut(fmt.Sprintf("sr-%d.ndjson", shard)))
		if err != nil {
			t.Fatal(err)
		}
		defer tr.close()
		sc := bufio.NewScanner(f)
		sc.Buffer(make([]byte, 1<<20), 1<<26)
		k, drifts, followed := 0, 0, 0
		for sc.Scan() {
			line := strings.TrimSpace(sc.Text())
			if line == "" {
				continue
			}
			k++
			if k%nshards != shard {
				continue
			}
			var ops []vfShOp
			if err := json.Unmarshal([]byte(line), &ops); err != nil {
				t.Fatalf("bad behaviour: %v", err)
			}
			il := k%2 == 0
			label := fmt.Sprintf("shut-replay-il%v#%d", il, k)
			hung := vfBubble(t, label, func() {
				w := vfNewWorld(vfWorldOpt{Label: label, Trace: tr, A: vfEpCfg{InitTSN: uint32(k * 6007), Tag: 0xA2, IL: il}, B: vfEpCfg{InitTSN: uint32(0) - uint32(k%6), Tag: 0xB2, IL: il, Server: true}})
				if !w.vfConnect() {
					w.finish(true)
					return
				}
				w.open(0, 1, 51)
				w.open(1, 2, 51)
				p := int(w.ep[0].a.maxPayloadSize)
				for i := 0; i < na; i++ {
					w.write(0, 1, p, 51) // one chunk per packet: nothing can be bundled with it
				}
				for i := 0; i < nb; i++ {
					w.write(1, 2, p, 53)
				}
				ord := map[int]int{}
				cnt := map[[2]any]int{}
				kindOf := func(raw []byte) string {
					kd := vfFirstKind(raw)
					if kd == "idata" {
						kd = "data"
					}
					return kd
				}
				scan := func() {
					for _, pk := range w.pending(-1) {
						if _, ok := ord[pk.id]; ok {
							continue
						}
						kd := kindOf(pk.raw)
						cnt[[2]any{pk.from, kd}]++
						ord[pk.id] = cnt[[2]any{pk.from, kd}]
					}
				}
				sackCum := func(pk *vfPkt) int {
					d := vfDecodePacket(pk.raw)
					for _, c := range d.Chunks {
						if c.Typ == 3 && len(c.Val) >= 4 {
							// relative to the data sender's (= packet receiver's) initial TSN, 1-based like the model
							return int(int32(binary.BigEndian.Uint32(c.Val[0:4])-w.ep[1-pk.from].cfg.InitTSN)) + 1
						}
					}
					return -1
				}
				find := func(op vfShOp) *vfPkt {
					for try := 0; try < 3; try++ {
						scan()
						for _, pk := range w.pending(op.From) {
							kd := kindOf(pk.raw)
							if kd != op.K {
								continue
							}
							if kd == "sack" {
								if sackCum(pk) == op.Cum {
									return pk
								}
								continue
							}
							if ord[pk.id] == op.N {
								return pk
							}
						}
						if op.K != "sack" {
							return nil
						}
						w.sleep(125 * time.Millisecond) // a delayed acknowledgement may still be due
					}
					return nil
				}
				drift := ""
				called := false
				sackSeen := map[int]int{}
			loop:
				for _, op := range ops {
					w.accept(0)
					w.accept(1)
					w.drainReads()
					switch op.Op {
					case "call":
						called = true
						a := w.ep[op.E].a
						if a.getState() != established {
							drift = "call: not established"
							break loop
						}
						w.apiAsync(op.E, "shutdown", func() error { return a.Shutdown(context.Background()) })
					case "deliver", "drop":
						pk := find(op)
						if pk == nil && op.K == "sack" {
							// the real receiver merges acknowledgements: a SACK with a higher cumulative ack stands in
							// for the one the model delivers; one the model still has in flight may be gone already
							if op.Cum <= sackSeen[op.From] || op.Op == "drop" {
								continue
							}
							for _, q := range w.pending(op.From) {
								if kindOf(q.raw) == "sack" && sackCum(q) >= op.Cum {
									pk = q
									break
								}
							}
						}
						if pk == nil {
							drift = fmt.Sprintf("no %s #%d/cum %d from %d", op.K, op.N, op.Cum, op.From)
							break loop
						}
						if op.K == "sack" && op.Op == "deliver" && sackCum(pk) > sackSeen[op.From] {
							sackSeen[op.From] = sackCum(pk)
						}
						if op.Op == "drop" {
							w.drop(pk.id)
						} else {
							w.deliver(pk.id)
						}
					case "t2", "t3":
						kinds := []string{"shutdown", "shutdownack"}
						if op.Op == "t3" {
							kinds = []string{"data"}
						}
						total := func() int {
							scan()
							n := 0
							for _, kd := range kinds {
								n += cnt[[2]any{op.E, kd}]
							}
							return n
						}
						before := total()
						for i := 0; i < 30 && total() == before; i++ {
							w.tick(5 * time.Second)
						}
						if total() == before {
							drift = op.Op + ": the timer did not re-send"
							break loop
						}
					case "connclose":
						if !w.ep[op.E].conn.isClosed() {
							w.tr.emit(map[string]any{"ev": "api", "ep": op.E, "op": "connfail", "t": w.now()})
							w.ep[op.E].conn.Close()
							w.quiesce()
						}
					}
				}
				if drift != "" {
					drifts++
					w.tr.emit(map[string]any{"ev": "note", "what": "replay-drift: " + drift, "t": w.now()})
				} else {
					followed++
				}
				// settle: loss-free FIFO delivery; the survivor's transport closes 10 s after the peer has gone
				start := time.Now()
				for time.Since(start) < 400*time.Second {
					w.accept(0)
					w.accept(1)
					w.drainReads()
					if pend := w.pending(-1); len(pend) > 0 {
						w.deliver(pend[0].id)
						continue
					}
					c0, c1 := w.ep[0].conn.isClosed(), w.ep[1].conn.isClosed()
					if c0 && c1 {
						break
					}
					if (c0 || c1) && time.Since(start) > 10*time.Second {
						for e := 0; e < 2; e++ {
							if !w.ep[e].conn.isClosed() {
								w.tr.emit(map[string]any{"ev": "api", "ep": e, "op": "connfail", "t": w.now()})
								w.ep[e].conn.Close()
								w.quiesce()
							}
						}
						continue
					}
					if !c0 && !c1 && w.ep[0].a.getState() == established && w.ep[1].a.getState() == established && w.idle() {
						break // nobody shut down (a behaviour prefix without a call): nothing more will happen
					}
					w.tick(5 * time.Second)
				}
				w.drainReads()
				for ep := 0; ep < 2; ep++ {
					for _, sid := range w.sortedSids(ep) {
						w.read(ep, sid, 1<<17)
					}
				}
				w.snapAll = true
				w.quiesce()
				if called {
					w.tr.emit(map[string]any{"ev": "shutend", "who": 2, "t": w.now()})
				}
				w.finish(true)
			})
			if hung {
				t.Fatalf("scenario %s hung", label)
			}
		}
		vfWriteJSON(vfOut(fmt.Sprintf("sr-%d.json", shard)), map[string]any{"behaviours": k, "followed": followed, "drift": drifts})
	}
}
