package sctp

// Shutdown family (C08): one-sided and crossed graceful shutdown with queued data, with every
// (kind, sender, ordinal) loss / duplication decision over DATA, SACK, SHUTDOWN, SHUTDOWN-ACK and
// SHUTDOWN-COMPLETE enumerated up to k faults, plus stale shutdown chunks injected in every state.

import (
	"context"
	"fmt"
	"math/rand"
	"testing"
	"time"
)

type vfFault struct {
	kind string
	from int
	n    int
	dup  bool
}

type vfShut struct {
	Label  string
	Who    int // 0: A, 1: B, 2: both (crossed)
	NMsgA  int
	NMsgB  int
	Faults []vfFault
	IL     bool
	Late   bool // shutdown is called after half of the data moved
	Base   [2]uint32
}

func vfRunShut(t *testing.T, tr *vfTrace, x vfShut) bool {
	return vfBubble(t, x.Label, func() {
		w := vfNewWorld(vfWorldOpt{Label: x.Label, Trace: tr, A: vfEpCfg{InitTSN: x.Base[0], Tag: 0xA3, IL: x.IL}, B: vfEpCfg{InitTSN: x.Base[1], Tag: 0xB3, IL: x.IL, Server: true}})
		if !w.vfConnect() {
			w.finish(true)
			return
		}
		w.open(0, 1, 51)
		w.open(1, 2, 51)
		p := int(w.ep[0].a.maxPayloadSize)
		for i := 0; i < x.NMsgA; i++ {
			w.write(0, 1, p*(1+i%2), 51)
		}
		for i := 0; i < x.NMsgB; i++ {
			w.write(1, 2, p, 53)
		}
		seenKind := map[[2]any]int{}
		done := map[int]bool{}
		used := make([]bool, len(x.Faults))
		step := func() bool {
			pend := w.pending(-1)
			if len(pend) == 0 {
				return false
			}
			pk := pend[0]
			k := vfFirstKind(pk.raw)
			if k == "idata" {
				k = "data"
			}
			if !done[pk.id] {
				done[pk.id] = true
				seenKind[[2]any{k, pk.from}]++
			}
			ord := seenKind[[2]any{k, pk.from}]
			for i, f := range x.Faults {
				if !used[i] && f.kind == k && f.from == pk.from && f.n == ord {
					used[i] = true
					if f.dup {
						w.dup(pk.id)
						return true
					}
					w.drop(pk.id)
					return true
				}
			}
			w.deliver(pk.id)
			return true
		}
		if x.Late {
			for i := 0; i < 3; i++ {
				step()
			}
		}
		call := func(ep int) {
			a := w.ep[ep].a
			w.apiAsync(ep, "shutdown", func() error { return a.Shutdown(context.Background()) })
			// a write attempted after shutdown began must be rejected (C08 / C18)
			sid := 1 + ep
			w.write(ep, sid, 10, 51)
		}
		if x.Who == 0 || x.Who == 2 {
			call(0)
		}
		if x.Who == 1 || x.Who == 2 {
			call(1)
		}
		start := time.Now()
		for time.Since(start) < 400*time.Second {
			w.accept(0)
			w.accept(1)
			w.drainReads()
			if step() {
				continue
			}
			c0, c1 := w.ep[0].conn.isClosed(), w.ep[1].conn.isClosed()
			if c0 && c1 {
				break
			}
			// "the peer at the latest when its transport closes": once one side is closed and the
			// other has been given 10 s, the surviving transport is closed as DTLS would do
			if (c0 || c1) && time.Since(start) > 10*time.Second {
				for e := 0; e < 2; e++ {
					if !w.ep[e].conn.isClosed() {
						w.tr.emit(map[string]any{"ev": "api", "ep": e, "op": "connfail", "t": w.now()})
						w.ep[e].conn.Close()
						w.quiesce()
					}
				}
				continue
			}
			w.tick(5 * time.Second)
		}
		w.drainReads()
		// after closure every stream reports it: one more read per stream
		for ep := 0; ep < 2; ep++ {
			for _, sid := range w.sortedSids(ep) {
				w.read(ep, sid, 1<<17)
			}
		}
		w.snapAll = true
		w.quiesce()
		w.tr.emit(map[string]any{"ev": "shutend", "who": x.Who, "t": w.now()})
		w.finish(false)
	})
}

func init() {
	vfModes["shutdown"] = func(t *testing.T) {
		shard, nshards := vfEnvInt("VF_SHARD", 0), vfEnvInt("VF_NSHARDS", 1)
		full := vfEnvInt("VF_FULL", 0) == 1
		seed := int64(vfEnvInt("VF_SEED", 1))
		tr, err := vfNewTrace(vfOut(fmt.Sprintf("shutdown-%d.ndjson", shard)))
		if err != nil {
			t.Fatal(err)
		}
		defer tr.close()
		var singles []vfFault
		for _, k := range []string{"data", "sack", "shutdown", "shutdownack", "shutdowncomplete"} {
			for from := 0; from < 2; from++ {
				for n := 1; n <= 2; n++ {
					singles = append(singles, vfFault{k, from, n, false})
					if n == 1 {
						singles = append(singles, vfFault{k, from, n, true})
					}
				}
			}
		}
		sets := [][]vfFault{{}}
		for _, f := range singles {
			sets = append(sets, []vfFault{f})
		}
		for i := range singles {
			for j := i + 1; j < len(singles); j++ {
				sets = append(sets, []vfFault{singles[i], singles[j]})
			}
		}
		r := rand.New(rand.NewSource(seed))
		k := 0
		for who := 0; who < 3; who++ {
			for _, nm := range [][2]int{{0, 0}, {1, 0}, {3, 1}, {4, 2}} {
				for si, fs := range sets {
					if !full && len(fs) == 2 && r.Intn(12) != 0 {
						continue
					}
					k++
					if k%nshards != shard {
						continue
					}
					x := vfShut{Label: fmt.Sprintf("shutdown-w%d-m%d%d-f%d#%d", who, nm[0], nm[1], si, k), Who: who, NMsgA: nm[0], NMsgB: nm[1], Faults: fs,
						IL: k%2 == 0, Late: k%3 == 0, Base: [2]uint32{uint32(k * 7919), uint32(0) - uint32(k%5)}}
					if vfRunShut(t, tr, x) {
						t.Fatalf("scenario %s hung", x.Label)
					}
				}
			}
		}
	}
}
