package sctp

// C16: the real serial-number comparison functions evaluated on a boundary-dense grid (validated by
// TLC against spec/Serial.tla through SerialTrace.tla), and the shift-invariance differential of
// whole association runs (same schedule at different initial TSNs).

import (
	"encoding/json"
	"fmt"
	"math/rand"
	"strings"
	"testing"
)

func init() {
	vfModes["sna-trace"] = func(t *testing.T) {
		seed := int64(vfEnvInt("VF_SEED", 1))
		n := vfEnvInt("VF_N", 20000)
		r := rand.New(rand.NewSource(seed))
		tr, err := vfNewTrace(vfOut("sna-0.ndjson"))
		if err != nil {
			t.Fatal(err)
		}
		defer tr.close()
		e16 := func(a, b uint16) {
			tr.emit(map[string]any{"ev": "sna", "bits": 16, "a": int(a), "b": int(b), "lt": sna16LT(a, b), "lte": sna16LTE(a, b),
				"gt": sna16GT(a, b), "gte": sna16GTE(a, b), "eq": sna16EQ(a, b)})
		}
		e32 := func(a, b uint32) {
			tr.emit(map[string]any{"ev": "sna", "bits": 32, "ahi": int(a >> 16), "alo": int(a & 0xffff), "bhi": int(b >> 16), "blo": int(b & 0xffff),
				"lt": sna32LT(a, b), "lte": sna32LTE(a, b), "gt": sna32GT(a, b), "gte": sna32GTE(a, b), "eq": sna32EQ(a, b)})
		}
		var b16 []uint16
		for _, c := range []int{0, 1 << 15, 1 << 16} {
			for d := -3; d <= 3; d++ {
				b16 = append(b16, uint16(c+d))
			}
		}
		for _, a := range b16 {
			for _, b := range b16 {
				e16(a, b)
			}
		}
		var b32 []uint32
		for _, c := range []int64{0, 1 << 15, 1 << 16, 1 << 31, 1 << 32} {
			for d := int64(-3); d <= 3; d++ {
				b32 = append(b32, uint32(c+d))
			}
		}
		for _, a := range b32 {
			for _, b := range b32 {
				e32(a, b)
			}
		}
		for i := 0; i < n; i++ {
			a16 := uint16(r.Uint32())
			e16(a16, a16+uint16(r.Intn(7))-3+uint16(r.Intn(2))<<15)
			e16(uint16(r.Uint32()), uint16(r.Uint32()))
			a32 := r.Uint32()
			e32(a32, a32+uint32(r.Intn(7))-3+uint32(r.Intn(2))<<31)
			e32(r.Uint32(), r.Uint32())
		}
		tr.emit(map[string]any{"ev": "snaend"})
	}

	// wrapdiff: one seeded plan run at several initial-TSN pairs around the 2^32 / 2^31 boundaries (and
	// with SSN/MID counters preset just below their wraps). There is deliberately NO trace-equality
	// verdict between the runs: goroutine scheduling inside an endpoint makes two runs of one plan differ
	// legitimately. Wrap invisibility is decided by validating every run, normalised, against the
	// base-free specifications (ObsTrace monitors, RecvTSN, Reasm).
	vfModes["wrapdiff"] = func(t *testing.T) {
		seed := int64(vfEnvInt("VF_SEED", 1))
		shard := vfEnvInt("VF_SHARD", 0)
		n := vfEnvInt("VF_N", 4)
		nb := vfEnvInt("VF_NBASES", 6)
		tr, err := vfNewTrace(vfOut(fmt.Sprintf("wrapdiff-%d.ndjson", shard)))
		if err != nil {
			t.Fatal(err)
		}
		defer tr.close()
		profiles := []string{"wrap", "lossy", "pr", "reorder", "il"}
		for k := 0; k < n; k++ {
			s := seed*100000 + int64(shard)*1000 + int64(k)
			r := rand.New(rand.NewSource(s ^ 0x77))
			base := vfPlanXfer(s, profiles[k%len(profiles)])
			base.NMsgs = 4 + r.Intn(8)
			base.Budget = 600
			for i := range base.Streams {
				base.Streams[i].seqWrap = 1 + r.Intn(3)
			}
			for pi := 0; pi < nb; pi++ {
				o1 := vfWrapOffsets[r.Intn(len(vfWrapOffsets))]
				o2 := vfWrapOffsets[r.Intn(len(vfWrapOffsets))]
				var pr [2]uint32
				switch r.Intn(4) {
				case 0:
					pr = [2]uint32{uint32(0) - o1, uint32(0) - o2}
				case 1:
					pr = [2]uint32{1<<31 - o1, uint32(0) - o2}
				case 2:
					pr = [2]uint32{uint32(0) - o1, r.Uint32()}
				default:
					pr = [2]uint32{uint32(0) - uint32(r.Intn(12)) - 1, uint32(0) - uint32(r.Intn(12)) - 1}
				}
				x := base
				x.A.InitTSN, x.B.InitTSN = pr[0], pr[1]
				x.Label = fmt.Sprintf("wrapdiff-%s#%d@%d", x.Profile, s, pi)
				if vfRunXfer(t, tr, x) {
					t.Fatalf("scenario %s hung", x.Label)
				}
			}
		}
	}
}

var _ = strings.TrimSpace
var _ = json.Marshal
