package sctp

// C16: the real serial-number comparison functions evaluated on a boundary-dense grid (validated by
// TLC against spec/Serial.tla through SerialTrace.tla), and the shift-invariance differential of
// whole association runs (same schedule at different initial TSNs).

import (
	"encoding/json"
	"fmt"
	"math/rand"
	"strings"
	"testing"
)

func init() {
	vfModes["sna-trace"] = func(t *testing.T) {
		seed := int64(vfEnvInt("VF_SEED", 1))
		n := vfEnvInt("VF_N", 20000)
		r := rand.New(rand.NewSource(seed))
		tr, err := vfNewTrace(vfOut("sna-0.ndjson"))
		if err != nil {
			t.Fatal(err)
		}
		defer tr.close()
		e16 := func(a, b uint16) {
			tr.emit(map[string]any{"ev": "sna", "bits": 16, "a": int(a), "b": int(b), "lt": sna16LT(a, b), "lte": sna16LTE(a, b),
				"gt": sna16GT(a, b), "gte": sna16GTE(a, b), "eq": sna16EQ(a, b)})
		}
		e32 := func(a, b uint32) {
			tr.emit(map[string]any{"ev": "sna", "bits": 32, "ahi": int(a >> 16), "alo": int(a & 0xffff), "bhi": int(b >> 16), "blo": int(b & 0xffff),
				"lt": sna32LT(a, b), "lte": sna32LTE(a, b), "gt": sna32GT(a, b), "gte": sna32GTE(a, b), "eq": sna32EQ(a, b)})
		}
		var b16 []uint16
		for _, c := range []int{0, 1 << 15, 1 << 16} {
			for d := -3; d <= 3; d++ {
				b16 = append(b16, uint16(c+d))
			}
		}
		for _, a := range b16 {
			for _, b := range b16 {
				e16(a, b)
			}
		}
		var b32 []uint32
		for _, c := range []int64{0, 1 << 15, 1 << 16, 1 << 31, 1 << 32} {
			for d := int64(-3); d <= 3; d++ {
				b32 = append(b32, uint32(c+d))
			}
		}
		for _, a := range b32 {
			for _, b := range b32 {
				e32(a, b)
			}
		}
		for i := 0; i < n; i++ {
			a16 := uint16(r.Uint32())
			e16(a16, a16+uint16(r.Intn(7))-3+uint16(r.Intn(2))<<15)
			e16(uint16(r.Uint32()), uint16(r.Uint32()))
			a32 := r.Uint32()
			e32(a32, a32+uint32(r.Intn(7))-3+uint32(r.Intn(2))<<31)
			e32(r.Uint32(), r.Uint32())
		}
		tr.emit(map[string]any{"ev": "snaend"})
	}

	// wrapdiff: one seeded schedule replayed at several initial-TSN pairs; per-endpoint normalised
	// projections must be identical. Every run is also a normal scenario for ObsTrace.
	vfModes["wrapdiff"] = func(t *testing.T) {
		seed := int64(vfEnvInt("VF_SEED", 1))
		shard := vfEnvInt("VF_SHARD", 0)
		n := vfEnvInt("VF_N", 4)
		nb := vfEnvInt("VF_NBASES", 6)
		tr, err := vfNewTrace(vfOut(fmt.Sprintf("wrapdiff-%d.ndjson", shard)))
		if err != nil {
			t.Fatal(err)
		}
		defer tr.close()
		profiles := []string{"basic", "lossy", "pr", "reorder", "il"}
		for k := 0; k < n; k++ {
			s := seed*100000 + int64(shard)*1000 + int64(k)
			r := rand.New(rand.NewSource(s ^ 0x77))
			base := vfPlanXfer(s, profiles[k%len(profiles)])
			base.NMsgs = 4 + r.Intn(8)
			base.Budget = 600
			pairs := [][2]uint32{{0, 0}, {0, 0}}
			for len(pairs) < nb+1 {
				o1 := vfWrapOffsets[r.Intn(len(vfWrapOffsets))]
				o2 := vfWrapOffsets[r.Intn(len(vfWrapOffsets))]
				switch r.Intn(4) {
				case 0:
					pairs = append(pairs, [2]uint32{uint32(0) - o1, uint32(0) - o2})
				case 1:
					pairs = append(pairs, [2]uint32{1<<31 - o1, uint32(0) - o2})
				case 2:
					pairs = append(pairs, [2]uint32{uint32(0) - o1, r.Uint32()})
				default:
					pairs = append(pairs, [2]uint32{uint32(0) - uint32(r.Intn(12)) - 1, uint32(0) - uint32(r.Intn(12)) - 1})
				}
			}
			var ref []string
			deterministic := true
			for pi, pr := range pairs {
				x := base
				x.A.InitTSN, x.B.InitTSN = pr[0], pr[1]
				x.Label = fmt.Sprintf("wrapdiff-%s#%d@%d", x.Profile, s, pi)
				mem, _ := vfNewTrace("")
				if vfRunXfer(t, mem, x) {
					t.Fatalf("scenario %s hung", x.Label)
				}
				proj := vfProject(mem.keep)
				for _, e := range mem.keep {
					tr.emit(e)
				}
				switch {
				case pi == 0:
					ref = proj
				case pi == 1:
					if d := vfFirstDiff(ref, proj); d >= 0 {
						deterministic = false // the schedule itself is not reproducible: no verdict
					}
				default:
					if !deterministic {
						continue
					}
					d := vfFirstDiff(ref, proj)
					ev := map[string]any{"ev": "diff", "label": x.Label, "equal": d < 0, "idx": d, "a": "", "b": ""}
					if d >= 0 {
						if d < len(ref) {
							ev["a"] = ref[d]
						}
						if d < len(proj) {
							ev["b"] = proj[d]
						}
					}
					tr.emit(map[string]any{"ev": "cfg", "label": x.Label + "-diff", "A": map[string]any{"il": false, "zc": false, "mtu": 0, "buf": 0, "maxmsg": 0, "W": 0, "rtomax": 0, "bw": false, "mincwnd": 0, "sched": "", "server": false, "wrapdist": 0},
						"B": map[string]any{"il": false, "zc": false, "mtu": 0, "buf": 0, "maxmsg": 0, "W": 0, "rtomax": 0, "bw": false, "mincwnd": 0, "sched": "", "server": false, "wrapdist": 0}})
					tr.emit(ev)
					tr.emit(map[string]any{"ev": "end", "clean": true, "leaks": 0, "t": 0})
				}
			}
			if !deterministic {
				tr.emit(map[string]any{"ev": "note", "what": "nondeterministic-schedule", "seed": s})
			}
		}
	}
}

// vfProject renders the base-independent behaviour of a run: per endpoint, the sequence of API
// results, packets written (structure and relative sequence numbers) and the final snapshot.
func vfProject(evs []map[string]any) []string {
	// one sequence per (endpoint, category): API results and wire output are produced by different
	// goroutines, so only their per-category order is meaningful
	seqs := map[string][]string{}
	last := map[int]string{}
	for _, e := range evs {
		ep, _ := e["ep"].(int)
		switch e["ev"] {
		case "write", "read", "cb":
			k := fmt.Sprintf("api%d", ep)
			seqs[k] = append(seqs[k], vfStable(e, "t"))
		case "c", "tx":
			k := fmt.Sprintf("wire%d", ep)
			seqs[k] = append(seqs[k], vfStable(e, "t", "pid"))
		case "snap":
			last[ep] = vfStable(e, "t", "rto")
		}
	}
	var out []string
	for _, k := range []string{"api0", "api1", "wire0", "wire1"} {
		out = append(out, "== "+k)
		out = append(out, seqs[k]...)
	}
	out = append(out, "final0:"+last[0], "final1:"+last[1])
	return out
}

func vfStable(e map[string]any, drop ...string) string {
	m := map[string]any{}
	for k, v := range e {
		m[k] = v
	}
	for _, d := range drop {
		delete(m, d)
	}
	b, _ := json.Marshal(m)
	return string(b)
}

func vfFirstDiff(a, b []string) int {
	n := len(a)
	if len(b) < n {
		n = len(b)
	}
	for i := 0; i < n; i++ {
		if a[i] != b[i] {
			return i
		}
	}
	if len(a) != len(b) {
		return n
	}
	return -1
}

var _ = strings.TrimSpace
