package sctp

// Adversary family (C03): every association situation x every class of invalid / misplaced chunk,
// built from live values of the target, plus seeded byte-level mutations of genuine packets.

import (
	"context"
	"encoding/binary"
	"fmt"
	"math/rand"
	"os"
	"strings"
	"testing"
	"time"
)

// vfForge builds a packet for endpoint `to` as if it came from its peer.
func (w *vfWorld) vfForge(to int, chunks ...[]byte) []byte {
	return vfEncPacket(5000, 5000, w.ep[to].cfg.Tag, "ok", chunks...)
}

type vfAdvClass struct {
	name  string
	build func(w *vfWorld, to int, il bool) []byte
}

// vfUnknownLen: a packet with the right tag whose only chunk has an unrecognised type and the given declared length
// (8 bytes are really there), followed by nothing.
func vfUnknownLen(w *vfWorld, to int, typ int, declared int) []byte {
	b := w.vfForge(to, vfEncChunk(typ, 0, []byte{1, 2, 3, 4}))
	binary.BigEndian.PutUint16(b[14:], uint16(declared))
	vfSetCRC(b)
	return b
}

func vfAdvClasses() []vfAdvClass {
	live := func(w *vfWorld, to int) (cumAck, nextTSN, rcum uint32, W uint32) {
		a := w.ep[to].a
		a.lock.RLock()
		defer a.lock.RUnlock()
		return a.cumulativeTSNAckPoint, a.myNextTSN, a.payloadQueue.cumulativeTSN, a.payloadQueue.maxTSNOffset
	}
	cs := []vfAdvClass{
		{"sack-cum-beyond-sent", func(w *vfWorld, to int, il bool) []byte {
			_, nx, _, _ := live(w, to)
			return w.vfForge(to, vfEncSack(nx+5, 100000, nil, nil))
		}},
		{"sack-cum-far-beyond", func(w *vfWorld, to int, il bool) []byte {
			_, nx, _, _ := live(w, to)
			return w.vfForge(to, vfEncSack(nx+1<<30, 100000, nil, nil))
		}},
		{"sack-cum-behind", func(w *vfWorld, to int, il bool) []byte {
			ca, _, _, _ := live(w, to)
			return w.vfForge(to, vfEncSack(ca-3, 100000, nil, nil))
		}},
		{"sack-gap-start-zero", func(w *vfWorld, to int, il bool) []byte {
			ca, _, _, _ := live(w, to)
			return w.vfForge(to, vfEncSack(ca, 100000, [][2]int{{0, 1}}, nil))
		}},
		{"sack-gap-reversed", func(w *vfWorld, to int, il bool) []byte {
			ca, _, _, _ := live(w, to)
			return w.vfForge(to, vfEncSack(ca, 100000, [][2]int{{3, 2}}, nil))
		}},
		{"sack-gap-beyond-inflight", func(w *vfWorld, to int, il bool) []byte {
			ca, _, _, _ := live(w, to)
			return w.vfForge(to, vfEncSack(ca, 100000, [][2]int{{2, 60000}}, nil))
		}},
		{"sack-gap-65535", func(w *vfWorld, to int, il bool) []byte {
			ca, _, _, _ := live(w, to)
			return w.vfForge(to, vfEncSack(ca, 100000, [][2]int{{65535, 65535}}, nil))
		}},
		{"sack-gaps-unsorted-overlap", func(w *vfWorld, to int, il bool) []byte {
			ca, _, _, _ := live(w, to)
			return w.vfForge(to, vfEncSack(ca, 100000, [][2]int{{4, 5}, {2, 4}}, nil))
		}},
		// a block that reaches far beyond anything sent, followed by a perfectly valid one: validating only the last
		// block (or only one end of each) is not enough
		{"sack-gaps-first-beyond", func(w *vfWorld, to int, il bool) []byte {
			ca, _, _, _ := live(w, to)
			return w.vfForge(to, vfEncSack(ca, 100000, [][2]int{{1, 1000}, {1, 1}}, nil))
		}},
		{"sack-gaps-middle-beyond", func(w *vfWorld, to int, il bool) []byte {
			ca, _, _, _ := live(w, to)
			return w.vfForge(to, vfEncSack(ca, 100000, [][2]int{{1, 1}, {2, 40000}, {2, 2}}, nil))
		}},
		{"sack-many-dups", func(w *vfWorld, to int, il bool) []byte {
			ca, _, _, _ := live(w, to)
			d := make([]uint32, 200)
			return w.vfForge(to, vfEncSack(ca, 100000, nil, d))
		}},
		{"fwd-behind-cum", func(w *vfWorld, to int, il bool) []byte {
			_, _, rc, _ := live(w, to)
			typ := 192
			if il {
				typ = 194
			}
			return w.vfForge(to, vfEncChunk(typ, 0, vfU32(rc-2)))
		}},
		{"fwd-wrong-variant", func(w *vfWorld, to int, il bool) []byte {
			_, _, rc, _ := live(w, to)
			typ := 194
			if il {
				typ = 192
			}
			return w.vfForge(to, vfEncChunk(typ, 0, vfU32(rc+1)))
		}},
		{"fwd-odd-length", func(w *vfWorld, to int, il bool) []byte {
			_, _, rc, _ := live(w, to)
			typ := 192
			if il {
				typ = 194
			}
			return w.vfForge(to, vfEncChunk(typ, 0, append(vfU32(rc), 1, 2)))
		}},
		{"data-wrong-kind", func(w *vfWorld, to int, il bool) []byte {
			_, _, rc, _ := live(w, to)
			return w.vfForge(to, vfEncData(!il, rc+1, 1, 0, 0, 0, 51, true, true, false, false, []byte("xxxx")))
		}},
		// the kind check does not depend on where the TSN lies: a duplicate or out-of-window TSN is still the wrong kind
		{"data-wrong-kind-dup-tsn", func(w *vfWorld, to int, il bool) []byte {
			_, _, rc, _ := live(w, to)
			return w.vfForge(to, vfEncData(!il, rc, 1, 0, 0, 0, 51, true, true, false, false, []byte("xxxx")))
		}},
		{"data-wrong-kind-beyond-window", func(w *vfWorld, to int, il bool) []byte {
			_, _, rc, W := live(w, to)
			return w.vfForge(to, vfEncData(!il, rc+W+10, 1, 0, 0, 0, 51, true, true, false, false, []byte("xxxx")))
		}},
		// a fragment that claims to belong to a message the receiver already holds COMPLETE (same stream and SSN /
		// MID, fragment number past the end, E bit): it must not change or block what the application reads
		{"frag-after-complete", func(w *vfWorld, to int, il bool) []byte {
			_, _, rc, _ := live(w, to)
			sid := 1
			if to == 0 {
				sid = 2
			}
			return w.vfForge(to, vfEncData(il, rc+40, sid, 0, 0, 2, 51, false, true, false, false, []byte("EVIL")))
		}},
		{"data-beyond-window", func(w *vfWorld, to int, il bool) []byte {
			_, _, rc, W := live(w, to)
			return w.vfForge(to, vfEncData(il, rc+W+10, 9, 0, 0, 0, 51, true, true, false, false, []byte("yyyy")))
		}},
		{"data-behind-cum", func(w *vfWorld, to int, il bool) []byte {
			_, _, rc, _ := live(w, to)
			return w.vfForge(to, vfEncData(il, rc-1, 9, 0, 0, 0, 51, true, true, false, false, []byte("zzzz")))
		}},
		{"data-empty-payload", func(w *vfWorld, to int, il bool) []byte {
			_, _, rc, W := live(w, to)
			return w.vfForge(to, vfEncData(il, rc+W+20, 9, 0, 0, 0, 51, true, true, false, false, nil))
		}},
		{"data-header-truncated", func(w *vfWorld, to int, il bool) []byte {
			return w.vfForge(to, vfEncChunk(0, 3, []byte{1, 2, 3, 4, 5}))
		}},
		{"unknown-chunk-type", func(w *vfWorld, to int, il bool) []byte {
			return w.vfForge(to, vfEncChunk(0x3F, 0, []byte{1, 2, 3, 4}))
		}},
		{"unknown-chunk-report-bit", func(w *vfWorld, to int, il bool) []byte {
			return w.vfForge(to, vfEncChunk(0xFE, 0, []byte{1, 2, 3, 4}))
		}},
		// unrecognised chunk types of all four "action" classes (upper two bits: stop / stop+report / skip / skip+report)
		// whose declared length is impossible: a decoder that skips unknown chunks by their length must not trust it
		{"unknown-00-len0", func(w *vfWorld, to int, il bool) []byte { return vfUnknownLen(w, to, 0x3F, 0) }},
		{"unknown-00-len3", func(w *vfWorld, to int, il bool) []byte { return vfUnknownLen(w, to, 0x3F, 3) }},
		{"unknown-01-len0", func(w *vfWorld, to int, il bool) []byte { return vfUnknownLen(w, to, 0x7E, 0) }},
		{"unknown-01-len3", func(w *vfWorld, to int, il bool) []byte { return vfUnknownLen(w, to, 0x7E, 3) }},
		{"unknown-10-len0", func(w *vfWorld, to int, il bool) []byte { return vfUnknownLen(w, to, 0x84, 0) }},
		{"unknown-10-len3", func(w *vfWorld, to int, il bool) []byte { return vfUnknownLen(w, to, 0x84, 3) }},
		{"unknown-10-beyond", func(w *vfWorld, to int, il bool) []byte { return vfUnknownLen(w, to, 0x84, 400) }},
		{"unknown-11-len0", func(w *vfWorld, to int, il bool) []byte { return vfUnknownLen(w, to, 0xC1, 0) }},
		{"unknown-11-len3", func(w *vfWorld, to int, il bool) []byte { return vfUnknownLen(w, to, 0xC1, 3) }},
		{"unknown-11-beyond", func(w *vfWorld, to int, il bool) []byte { return vfUnknownLen(w, to, 0xC1, 400) }},
		{"stale-init", func(w *vfWorld, to int, il bool) []byte {
			v := append(vfU32(0x12345678, 200000), 0, 10, 0, 10)
			v = append(v, vfU32(777)...)
			return vfEncPacket(5000, 5000, 0, "ok", vfEncChunk(1, 0, v))
		}},
		{"init-bundled", func(w *vfWorld, to int, il bool) []byte {
			v := append(vfU32(0x12345678, 200000), 0, 10, 0, 10)
			v = append(v, vfU32(777)...)
			return vfEncPacket(5000, 5000, 0, "ok", vfEncChunk(1, 0, v), vfEncChunk(11, 0, nil))
		}},
		{"init-zero-streams", func(w *vfWorld, to int, il bool) []byte {
			v := append(vfU32(0x12345678, 200000), 0, 0, 0, 0)
			v = append(v, vfU32(777)...)
			return vfEncPacket(5000, 5000, 0, "ok", vfEncChunk(1, 0, v))
		}},
		{"stale-init-ack", func(w *vfWorld, to int, il bool) []byte {
			v := append(vfU32(0x12345678, 200000), 0, 10, 0, 10)
			v = append(v, vfU32(777)...)
			v = append(v, vfEncTLV(7, []byte("cookiecookie"))...)
			return w.vfForge(to, vfEncChunk(2, 0, v))
		}},
		{"init-ack-no-cookie", func(w *vfWorld, to int, il bool) []byte {
			v := append(vfU32(0x12345678, 200000), 0, 10, 0, 10)
			v = append(v, vfU32(777)...)
			return w.vfForge(to, vfEncChunk(2, 0, v))
		}},
		{"cookie-echo-wrong", func(w *vfWorld, to int, il bool) []byte {
			return w.vfForge(to, vfEncChunk(10, 0, []byte("not-your-cookie-not-your-cookie!")))
		}},
		{"cookie-ack", func(w *vfWorld, to int, il bool) []byte { return w.vfForge(to, vfEncChunk(11, 0, nil)) }},
		{"shutdown-ack", func(w *vfWorld, to int, il bool) []byte { return w.vfForge(to, vfEncChunk(8, 0, nil)) }},
		{"shutdown-complete", func(w *vfWorld, to int, il bool) []byte { return w.vfForge(to, vfEncChunk(14, 0, nil)) }},
		{"shutdown-cum-beyond", func(w *vfWorld, to int, il bool) []byte {
			_, nx, _, _ := live(w, to)
			return w.vfForge(to, vfEncChunk(7, 0, vfU32(nx+9)))
		}},
		{"error-chunk", func(w *vfWorld, to int, il bool) []byte {
			return w.vfForge(to, vfEncChunk(9, 0, vfEncTLV(6, []byte{0x3f, 0, 0, 4})))
		}},
		{"error-cause-bad-length", func(w *vfWorld, to int, il bool) []byte {
			return w.vfForge(to, vfEncChunk(9, 0, []byte{0, 6, 0, 2}))
		}},
		{"reconfig-response-unknown", func(w *vfWorld, to int, il bool) []byte {
			return w.vfForge(to, vfEncChunk(130, 0, vfEncTLV(16, vfU32(0xdeadbeef, 1))))
		}},
		{"reconfig-request-far-tsn", func(w *vfWorld, to int, il bool) []byte {
			_, _, rc, _ := live(w, to)
			v := vfU32(0xabcdef01, 0, rc+1<<30)
			v = append(v, 0, 1)
			return w.vfForge(to, vfEncChunk(130, 0, vfEncTLV(13, v)))
		}},
		{"reconfig-unknown-param", func(w *vfWorld, to int, il bool) []byte {
			return w.vfForge(to, vfEncChunk(130, 0, vfEncTLV(15, vfU32(1))))
		}},
		{"reconfig-empty", func(w *vfWorld, to int, il bool) []byte { return w.vfForge(to, vfEncChunk(130, 0, nil)) }},
		{"heartbeat-no-info", func(w *vfWorld, to int, il bool) []byte { return w.vfForge(to, vfEncChunk(4, 0, nil)) }},
		{"heartbeat-ack-unsolicited", func(w *vfWorld, to int, il bool) []byte {
			return w.vfForge(to, vfEncChunk(5, 0, vfEncTLV(1, []byte{1, 2, 3, 4, 5, 6, 7, 8})))
		}},
		{"chunk-len-zero", func(w *vfWorld, to int, il bool) []byte {
			b := w.vfForge(to, vfEncChunk(3, 0, make([]byte, 12)))
			binary.BigEndian.PutUint16(b[14:], 0)
			vfSetCRC(b)
			return b
		}},
		{"chunk-len-beyond", func(w *vfWorld, to int, il bool) []byte {
			b := w.vfForge(to, vfEncChunk(3, 0, make([]byte, 12)))
			binary.BigEndian.PutUint16(b[14:], 4000)
			vfSetCRC(b)
			return b
		}},
		{"sack-truncated", func(w *vfWorld, to int, il bool) []byte {
			v := make([]byte, 12)
			binary.BigEndian.PutUint16(v[8:], 5) // claims 5 gap blocks, carries none
			return w.vfForge(to, vfEncChunk(3, 0, v))
		}},
		{"port-zero", func(w *vfWorld, to int, il bool) []byte {
			return vfEncPacket(0, 5000, w.ep[to].cfg.Tag, "ok", vfEncChunk(11, 0, nil))
		}},
		{"only-header", func(w *vfWorld, to int, il bool) []byte { return vfEncPacket(5000, 5000, w.ep[to].cfg.Tag, "ok") }},
		{"short-garbage", func(w *vfWorld, to int, il bool) []byte { return []byte{1, 2, 3} }},
	}
	return cs
}

var vfAdvSituations = []string{"cookiewait", "idle", "inflight", "gap", "closing-stream", "shutdown-sent", "shutdown-received", "unread"}

// vfAdvSetup drives the pair into the situation; returns false if not reachable.
func vfAdvSetup(w *vfWorld, sit string) bool {
	if sit == "cookiewait" {
		w.cfgEvent()
		w.start(0)
		w.quiesce()
		return true
	}
	if !w.vfConnect() {
		return false
	}
	w.open(0, 1, 51)
	w.open(1, 2, 51)
	p := int(w.ep[0].a.maxPayloadSize)
	switch sit {
	case "idle":
		w.write(0, 1, 100, 51)
		w.heal(5 * time.Second)
	case "inflight":
		w.write(0, 1, 3*p, 51)
		w.write(1, 2, 2*p, 53)
	case "unread":
		// a complete two-fragment message (first of its stream: SSN / MID 0) sits unread at each receiver
		w.write(0, 1, 2*p, 51)
		w.write(1, 2, 2*p, 53)
		for i := 0; i < 10 && w.pump(20) > 0; i++ {
		}
		w.sleep(300 * time.Millisecond)
		w.pump(20)
	case "gap":
		w.write(0, 1, 3*p, 51)
		pend := w.pending(0)
		if len(pend) >= 2 {
			w.deliver(pend[1].id)
		}
	case "closing-stream":
		w.write(0, 1, 2*p, 51)
		w.closeStream(0, 1)
	case "shutdown-sent":
		a := w.ep[0].a
		w.apiAsync(0, "shutdown", func() error { return a.Shutdown(contextBG()) })
	case "shutdown-received":
		w.write(0, 1, 2*p, 51)
		b := w.ep[1].a
		w.apiAsync(1, "shutdown", func() error { return b.Shutdown(contextBG()) })
		for _, pk := range w.pending(1) {
			w.deliver(pk.id)
		}
	}
	return true
}

func init() {
	vfModes["adversary"] = func(t *testing.T) {
		shard, nshards := vfEnvInt("VF_SHARD", 0), vfEnvInt("VF_NSHARDS", 1)
		tr, err := vfNewTrace(vfOut(fmt.Sprintf("adversary-%d.ndjson", shard)))
		if err != nil {
			t.Fatal(err)
		}
		defer tr.close()
		journal := vfOut(fmt.Sprintf("adversary-%d.journal", shard))
		k := 0
		for _, sit := range vfAdvSituations {
			for ci, cl := range vfAdvClasses() {
				if only := os.Getenv("VF_ONLY"); only != "" && !strings.Contains(cl.name, only) {
					continue
				}
				for _, il := range []bool{false, true} {
					for to := 0; to < 2; to++ {
						k++
						if k%nshards != shard {
							continue
						}
						if sit == "cookiewait" && to == 1 {
							continue
						}
						// a fragment for a message that is still incomplete is indistinguishable from a genuine one:
						// this class is only meaningful against a message the receiver already holds complete
						if (cl.name == "frag-after-complete") != (sit == "unread") {
							continue
						}
						label := fmt.Sprintf("adv-%s-%s-il%v-to%d#%d", sit, cl.name, il, to, k)
						vfWriteJSON(journal, map[string]any{"scenario": label})
						cl := cl
						ci := ci
						vfBubble(t, label, func() {
							w := vfNewWorld(vfWorldOpt{Label: label, Trace: tr, A: vfEpCfg{InitTSN: uint32(k * 31), Tag: 0xA8, IL: il}, B: vfEpCfg{InitTSN: uint32(0) - uint32(ci), Tag: 0xB8, IL: il, Server: true}})
							if !vfAdvSetup(w, sit) {
								w.finish(true)
								return
							}
							raw := cl.build(w, to, il)
							t0 := time.Now()
							_ = t0
							w.inject(to, raw, cl.name, false)
							w.tr.emit(map[string]any{"ev": "note", "what": "injected", "class": cl.name, "sit": sit, "to": to, "t": w.now()})
							if sit == "cookiewait" {
								w.start(1)
								w.quiesce()
								for i := 0; i < 10 && w.pump(20) > 0; i++ {
								}
								if w.ep[0].a != nil && w.ep[0].a.getState() == established {
									w.open(0, 1, 51)
									w.write(0, 1, 500, 51)
								}
							} else if sit != "shutdown-sent" && sit != "shutdown-received" {
								if w.ep[0].a.getState() == established && w.stream(0, 1).State() == StreamStateOpen {
									w.write(0, 1, 300, 51)
								}
								if w.ep[1].a.getState() == established {
									w.write(1, 2, 200, 53)
								}
							}
							w.heal(130 * time.Second)
							w.snapAll = true
							w.quiesce()
							// the drain obligation applies when the pair is still up (an ABORT answer to a protocol
							// violation or a shutdown in progress legitimately ends the association)
							if w.ep[0].a != nil && w.ep[1].a != nil && w.ep[0].a.getState() == established && w.ep[1].a.getState() == established {
								w.tr.emit(map[string]any{"ev": "expect", "drained": true, "t": w.now(), "adv": cl.name, "sit": sit})
							}
							w.tr.emit(map[string]any{"ev": "advend", "class": cl.name, "sit": sit, "to": to,
								"st": []any{vfStateNames[w.ep[0].a.getState()], func() string {
									if w.ep[1].a == nil {
										return "none"
									}
									return vfStateNames[w.ep[1].a.getState()]
								}()}, "t": w.now()})
							w.finish(true)
						})
					}
				}
			}
		}
		vfWriteJSON(journal, map[string]any{"scenario": ""})
	}

	// fuzz: seeded mutations of genuine packets, injected before the genuine packet.
	vfModes["fuzz"] = func(t *testing.T) {
		seed := int64(vfEnvInt("VF_SEED", 1))
		shard := vfEnvInt("VF_SHARD", 0)
		n := vfEnvInt("VF_N", 8)
		nmut := vfEnvInt("VF_NMUT", 20)
		tr, err := vfNewTrace(vfOut(fmt.Sprintf("fuzz-%d.ndjson", shard)))
		if err != nil {
			t.Fatal(err)
		}
		defer tr.close()
		journal := vfOut(fmt.Sprintf("fuzz-%d.journal", shard))
		for k := 0; k < n; k++ {
			r := rand.New(rand.NewSource(seed*7777 + int64(shard)*131 + int64(k)))
			il := r.Intn(2) == 0
			label := fmt.Sprintf("fuzz-il%v#%d-%d-%d", il, seed, shard, k)
			vfWriteJSON(journal, map[string]any{"scenario": label})
			vfBubble(t, label, func() {
				w := vfNewWorld(vfWorldOpt{Label: label, Trace: tr, A: vfEpCfg{InitTSN: r.Uint32(), Tag: 0xA8, IL: il}, B: vfEpCfg{InitTSN: r.Uint32(), Tag: 0xB8, IL: il, Server: true}})
				w.cfgEvent()
				w.start(0)
				w.quiesce()
				w.start(1)
				w.quiesce()
				mutate := func(g *vfPkt) {
					for m := 0; m < nmut; m++ {
						b := make([]byte, len(g.raw))
						copy(b, g.raw)
						switch r.Intn(5) {
						case 0: // bit flips
							for x := 0; x < 1+r.Intn(4); x++ {
								pos := 12*8 + r.Intn((len(b)-12)*8)
								b[pos/8] ^= 1 << uint(pos%8)
							}
						case 1: // truncate
							b = b[:12+r.Intn(len(b)-12)]
						case 2: // length field edit of the first chunk
							if len(b) >= 16 {
								binary.BigEndian.PutUint16(b[14:], uint16(r.Intn(70000)))
							}
						case 3: // splice a random chunk header in the middle
							if len(b) > 20 {
								pos := 12 + 4*r.Intn((len(b)-12)/4)
								b[pos] = byte(r.Intn(256))
							}
						case 4: // extend with garbage
							g := make([]byte, 1+r.Intn(40))
							r.Read(g)
							b = append(b, g...)
						}
						if len(b) >= 12 {
							vfSetCRC(b)
						}
						w.inject(1-g.from, b, "mutated", false)
					}
				}
				step := func(limit int) {
					for i := 0; i < limit; i++ {
						p := w.pending(-1)
						if len(p) == 0 {
							return
						}
						if r.Intn(3) == 0 {
							mutate(p[0])
						}
						w.deliver(p[0].id)
					}
				}
				step(20)
				if w.ep[0].a != nil && w.ep[1].a != nil && w.ep[0].a.getState() == established && w.ep[1].a.getState() == established {
					w.open(0, 1, 51)
					w.open(1, 2, 51)
					for i := 0; i < 3; i++ {
						if w.ep[0].a.getState() == established {
							w.write(0, 1, 100+r.Intn(3000), 51)
						}
						if w.ep[1].a.getState() == established {
							w.write(1, 2, 50+r.Intn(2000), 53)
						}
						step(15)
					}
					if w.ep[0].a.getState() == established && r.Intn(2) == 0 {
						w.closeStream(0, 1)
						step(15)
					}
				}
				w.tr.emit(map[string]any{"ev": "note", "what": "fuzz-done", "t": w.now()})
				w.finish(true)
			})
		}
		vfWriteJSON(journal, map[string]any{"scenario": ""})
	}
}

func contextBG() context.Context { return context.Background() }
