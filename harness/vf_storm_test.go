package sctp

// Concurrency family (C20): storms of concurrent API calls (writers on many streams, readers,
// buffered-amount / state / deadline queries, low-threshold callbacks that re-enter the API, stream
// close, then Shutdown / Close / Abort racing each other) while a free-running lossy network and the
// retransmission timers are active. The binary is built with -race. The recorded history (calls,
// returns, reads, writes, wire) is judged by ObsTrace: every call returns, delivery guarantees hold.

import (
	"context"
	"fmt"
	"math/rand"
	"sync"
	"testing"
	"time"
)

func init() {
	vfModes["storm"] = func(t *testing.T) {
		seed := int64(vfEnvInt("VF_SEED", 1))
		shard := vfEnvInt("VF_SHARD", 0)
		n := vfEnvInt("VF_N", 4)
		tr, err := vfNewTrace(vfOut(fmt.Sprintf("storm-%d.ndjson", shard)))
		if err != nil {
			t.Fatal(err)
		}
		defer tr.close()
		journal := vfOut(fmt.Sprintf("storm-%d.journal", shard))
		for k := 0; k < n; k++ {
			r := rand.New(rand.NewSource(seed*991 + int64(shard)*37 + int64(k)))
			il := r.Intn(2) == 0
			ending := []string{"shutdown", "close", "abort", "closeboth"}[k%4]
			label := fmt.Sprintf("storm-%s-il%v#%d-%d-%d", ending, il, seed, shard, k)
			vfWriteJSON(journal, map[string]any{"scenario": label})
			vfBubble(t, label, func() {
				w := vfNewWorld(vfWorldOpt{Label: label, Trace: tr, A: vfEpCfg{InitTSN: r.Uint32(), Tag: 0xAD, IL: il, Buf: 1 << 18}, B: vfEpCfg{InitTSN: r.Uint32(), Tag: 0xBD, IL: il, Server: true, Buf: 1 << 18}, NoSnap: true})
				if !w.vfConnect() {
					w.finish(true)
					return
				}
				nstreams := 3 + r.Intn(4)
				for sid := 1; sid <= nstreams; sid++ {
					w.open(0, sid, 51)
					w.installCallback(0, sid, []int{0, 100, 2000}[sid%3])
					w.open(1, 100+sid, 51)
					w.installCallback(1, 100+sid, 0)
				}
				// free-running network: FIFO with small random delays, 3 % loss, until stopped
				stopNet := make(chan struct{})
				var netWG sync.WaitGroup
				netWG.Add(1)
				nr := rand.New(rand.NewSource(seed + 5))
				var oneClosedAt time.Time
				go func() {
					defer netWG.Done()
					for {
						select {
						case <-stopNet:
							return
						case <-time.After(time.Duration(1+nr.Intn(5)) * time.Millisecond):
						}
						// "the peer at the latest when its transport closes": once one transport is closed the
						// other follows 10 s later (as DTLS would), otherwise a lost SHUTDOWN-COMPLETE leaves the
						// survivor retransmitting SHUTDOWN-ACK for ever, which is correct but never ends
						c0, c1 := w.ep[0].conn.isClosed(), w.ep[1].conn.isClosed()
						if c0 != c1 {
							if oneClosedAt.IsZero() {
								oneClosedAt = time.Now()
							} else if time.Since(oneClosedAt) > 10*time.Second {
								w.tr.emit(map[string]any{"ev": "inject", "kind": "connclose", "ep": map[bool]int{true: 1, false: 0}[c0], "at": -1, "t": w.now()})
								w.ep[0].conn.Close()
								w.ep[1].conn.Close()
							}
						}
						for _, p := range w.pending(-1) {
							if nr.Intn(100) < 3 {
								if q := w.take(p.id); q != nil {
									w.tr.emit(map[string]any{"ev": "drop", "pid": p.id, "t": w.now()})
								}
								continue
							}
							if q := w.take(p.id); q != nil {
								w.tr.emit(map[string]any{"ev": "rx", "to": 1 - q.from, "pid": q.id, "t": w.now(), "ok": !w.ep[1-q.from].conn.isClosed()})
								w.push(1-q.from, q.raw)
							}
						}
					}
				}()
				var wg sync.WaitGroup
				// wait for the workers, but not for ever in virtual time: a call that never returns is a
				// finding (the trace then ends with that call outstanding), not a reason to spin
				waitAll := func(max time.Duration) bool {
					done := make(chan struct{})
					go func() { wg.Wait(); close(done) }()
					select {
					case <-done:
						return true
					case <-time.After(max):
						return false
					}
				}
				worker := func(ep int, op string, f func() error) {
					wg.Add(1)
					w.parked(ep, op, func() (string, error) { defer wg.Done(); return "", f() })
				}
				// writers: one per stream (the order of one writer's messages is checkable)
				for sid := 1; sid <= nstreams; sid++ {
					for _, es := range [][2]int{{0, sid}, {1, 100 + sid}} {
						ep, s := es[0], es[1]
						wr := rand.New(rand.NewSource(seed*13 + int64(s)))
						worker(ep, "writer", func() error {
							for i := 0; i < 6+wr.Intn(6); i++ {
								st := w.stream(ep, s)
								m := w.newMsg(ep, s, 1+wr.Intn(4000), 51)
								w.indexFrags(m, int(w.ep[ep].a.maxPayloadSize))
								w.tr.emit(map[string]any{"ev": "wcall", "ep": ep, "sid": s, "id": m.ID, "len": m.Len, "ppi": 51, "unord": false, "rtype": 0, "rval": 0, "t": w.now(), "ok": true, "async": true})
								nw, err := st.WriteSCTP(m.Payload, 51)
								w.tr.emit(map[string]any{"ev": "write", "ep": ep, "sid": s, "id": m.ID, "len": m.Len, "ppi": 51, "ok": err == nil, "n": nw, "err": vfErrClass(err), "unord": false, "rtype": 0, "rval": 0, "t": w.now(), "async": true})
								if err != nil {
									return nil
								}
								time.Sleep(time.Duration(wr.Intn(3)) * time.Millisecond)
							}
							return nil
						})
					}
				}
				// acceptors + readers: every accepted stream gets its own reading goroutine
				for ep := 0; ep < 2; ep++ {
					ep := ep
					a := w.ep[ep].a
					w.parked(ep, "accept", func() (string, error) {
						for {
							s, err := a.AcceptStream()
							if err != nil {
								return "", err
							}
							sid := int(s.streamIdentifier)
							w.tr.emit(map[string]any{"ev": "api", "ep": ep, "op": "accept", "sid": sid, "ok": true, "err": "nil", "t": w.now()})
							w.parked(ep, "read", func() (string, error) {
								buf := make([]byte, 1<<16)
								for {
									n, _, err := s.ReadSCTP(buf)
									if err != nil {
										return "", err
									}
									id := w.identMsg(1-ep, sid, buf[:n])
									w.tr.emit(map[string]any{"ev": "read", "ep": ep, "sid": sid, "id": id, "len": n, "ppi": 51, "ok": true, "err": "nil", "buf": 1 << 16, "t": w.now(), "async": true, "loop": true})
								}
							})
						}
					})
				}
				// observers: concurrent queries on every exported accessor
				for ep := 0; ep < 2; ep++ {
					ep := ep
					a := w.ep[ep].a
					worker(ep, "observer", func() error {
						or := rand.New(rand.NewSource(seed*7 + int64(ep)))
						for i := 0; i < 200; i++ {
							_ = a.BufferedAmount()
							_ = a.BytesSent() + a.BytesReceived()
							_ = a.SRTT()
							_ = a.MaxMessageSize()
							_, _ = a.Metadata()
							for sid, s := range map[int]*Stream{} {
								_, _ = sid, s
							}
							sid := 1 + or.Intn(nstreams)
							if ep == 1 {
								sid += 100
							}
							if s := w.stream(ep, sid); s != nil {
								_ = s.BufferedAmount()
								_ = s.BufferedAmountLowThreshold()
								_ = s.State()
								_ = s.StreamIdentifier()
								s.SetBufferedAmountLowThreshold(uint64([]int{0, 100, 2000}[i%3]))
								s.SetReadDeadline(time.Time{}) //nolint:errcheck
								s.SetDefaultPayloadType(PayloadTypeWebRTCString)
							}
							a.ActiveHeartbeat()
							time.Sleep(time.Duration(or.Intn(4)) * time.Millisecond)
						}
						return nil
					})
				}
				waitAll(600 * time.Second)
				// some streams are closed by their writer while traffic is still draining
				for sid := 1; sid <= nstreams; sid += 2 {
					s := w.stream(0, sid)
					worker(0, "closestream", func() error { return s.Close() })
				}
				waitAll(600 * time.Second)
				time.Sleep(3 * time.Second)
				// concurrent teardown
				a, b := w.ep[0].a, w.ep[1].a
				w.tr.emit(map[string]any{"ev": "inject", "kind": ending, "ep": 0, "at": -1, "t": w.now()})
				switch ending {
				case "shutdown":
					worker(0, "shutdown", func() error { return a.Shutdown(context.Background()) })
					worker(1, "shutdown", func() error { return b.Shutdown(context.Background()) })
				case "close":
					worker(0, "close", func() error { return a.Close() })
					worker(0, "close", func() error { return a.Close() })
					worker(0, "shutdown", func() error { a.Shutdown(context.Background()); return nil }) //nolint:errcheck
				case "abort":
					worker(0, "abort", func() error { a.Abort("storm"); return nil })
					worker(0, "close", func() error { return a.Close() })
				case "closeboth":
					worker(0, "close", func() error { return a.Close() })
					worker(1, "close", func() error { return b.Close() })
				}
				if !waitAll(900 * time.Second) {
					w.noSnap = false
					w.snapAll = true
					w.snap()
					w.tr.emit(map[string]any{"ev": "note", "what": "teardown-calls-outstanding", "t": w.now()})
				}
				time.Sleep(2 * time.Second)
				w.tr.emit(map[string]any{"ev": "inject", "kind": "connclose", "ep": 1, "at": -1, "t": w.now()})
				w.ep[0].conn.Close()
				w.ep[1].conn.Close()
				time.Sleep(2 * time.Second)
				close(stopNet)
				netWG.Wait()
				w.tr.emit(map[string]any{"ev": "stormend", "ending": ending, "t": w.now()})
				w.finish(false)
			})
		}
		vfWriteJSON(journal, map[string]any{"scenario": ""})
	}
}
