package sctp

// Binding of spec/Sched.tla to the real pendingQueue and its three policies.

import (
	"bufio"
	"encoding/json"
	"fmt"
	"math/rand"
	"os"
	"strings"
	"testing"
)

type vfSChunk struct {
	ID  int  `json:"id"`
	Sid int  `json:"sid"`
	Len int  `json:"len"`
	B   bool `json:"b"`
	E   bool `json:"e"`
	U   bool `json:"u"`
}

type vfSOp struct {
	Op string   `json:"op"`
	C  vfSChunk `json:"c"`
	W  int      `json:"w"`
	ID int      `json:"id"`
	Nb int      `json:"nb"`
	Nc int      `json:"nc"`
}

func vfNewPending(mode string, weights map[uint16]uint16) *pendingQueue {
	st := &interleavingSettings{}
	switch mode {
	case "rr":
		st.newStreamScheduler = func() InterleavingStreamScheduler { return newRoundRobinPendingQueuePolicy() }
	default:
		st.newStreamScheduler = func() InterleavingStreamScheduler { return newWeightedFairQueueingPendingQueuePolicy(weights) }
	}
	q := newPendingQueue(st.newStreamScheduler)
	if mode != "msg" {
		if err := q.setInterleaving(true); err != nil {
			panic(err)
		}
	}
	return q
}

func (c vfSChunk) real() *chunkPayloadData {
	return &chunkPayloadData{streamIdentifier: uint16(c.Sid), userData: make([]byte, c.Len), beginningFragment: c.B, endingFragment: c.E,
		unordered: c.U, messageIdentifier: uint32(c.ID)}
}

func init() {
	vfModes["sched-replay"] = func(t *testing.T) {
		mode := os.Getenv("VF_SCHED")
		f, err := os.Open(os.Getenv("VF_IN"))
		if err != nil {
			t.Fatal(err)
		}
		defer f.Close()
		sc := bufio.NewScanner(f)
		sc.Buffer(make([]byte, 1<<20), 1<<26)
		nb, nops := 0, 0
		mism := []map[string]any{}
		for sc.Scan() {
			line := strings.TrimSpace(sc.Text())
			if line == "" {
				continue
			}
			var ops []vfSOp
			if err := json.Unmarshal([]byte(line), &ops); err != nil {
				t.Fatalf("bad behaviour: %v", err)
			}
			nb++
			q := vfNewPending(mode, map[uint16]uint16{1: 1, 2: 2, 3: 4})
			byPtr := map[*chunkPayloadData]int{}
			for k, op := range ops {
				field, got := "", ""
				switch op.Op {
				case "push":
					c := op.C.real()
					byPtr[c] = op.C.ID
					q.push(c)
				case "peek":
					c := q.peek()
					id := 0
					if c != nil {
						id = byPtr[c]
					}
					if id != op.ID {
						field, got = "peek", fmt.Sprint(id)
					}
				case "pop":
					c := q.peek()
					if c == nil {
						field, got = "pop-empty", ""
						break
					}
					if err := q.pop(c); err != nil {
						field, got = "error", err.Error()
					} else if byPtr[c] != op.ID {
						field, got = "pop", fmt.Sprint(byPtr[c])
					}
				}
				nops++
				if field == "" && q.getNumBytes() != op.Nb {
					field, got = "nbytes", fmt.Sprint(q.getNumBytes())
				}
				if field == "" && q.size() != op.Nc {
					field, got = "nchunks", fmt.Sprint(q.size())
				}
				if field != "" {
					if len(mism) < 30 {
						mism = append(mism, map[string]any{"behaviour": nb, "step": k, "op": op.Op, "field": field, "got": got, "want": op})
					}
					break
				}
			}
		}
		vfWriteJSON(vfOut("sched-replay-"+mode+".json"), map[string]any{"mode": mode, "behaviours": nb, "ops": nops, "mismatches": mism})
	}

	vfModes["sched-trace"] = func(t *testing.T) {
		seed := int64(vfEnvInt("VF_SEED", 1))
		shard := vfEnvInt("VF_SHARD", 0)
		n := vfEnvInt("VF_N", 60)
		r := rand.New(rand.NewSource(seed*15485863 + int64(shard)))
		tr, err := vfNewTrace(vfOut(fmt.Sprintf("sched-%d.ndjson", shard)))
		if err != nil {
			t.Fatal(err)
		}
		defer tr.close()
		for k := 0; k < n; k++ {
			mode := []string{"msg", "rr", "wfq"}[k%3]
			weights := map[uint16]uint16{}
			wj := map[string]any{}
			ns := 2 + r.Intn(4)
			for sid := 1; sid <= ns; sid++ {
				wv := []uint16{1, 2, 4, 8}[r.Intn(4)]
				weights[uint16(sid)] = wv
				wj[fmt.Sprint(sid)] = int(wv)
			}
			q := vfNewPending(mode, weights)
			tr.emit(map[string]any{"ev": "sqinit", "mode": mode, "weights": wj, "label": fmt.Sprintf("sched-%s#%d-%d-%d", mode, seed, shard, k)})
			byPtr := map[*chunkPayloadData]int{}
			open := map[int]int{}
			next := 1
			// phases: bursts of pushes (building backlog) alternate with bursts of pops
			for step := 0; step < 120; step++ {
				phasePush := (step/15)%2 == 0
				c := r.Intn(10)
				switch {
				case (phasePush && c < 7) || (!phasePush && c < 2):
					sid := 1 + r.Intn(ns)
					if mode == "msg" { // fragments of a message are enqueued back to back
						for o, left := range open {
							if left > 0 {
								sid = o
							}
						}
					}
					cont := open[sid] > 0
					left := open[sid] - 1
					if !cont {
						left = r.Intn(4)
					}
					ch := vfSChunk{ID: next, Sid: sid, Len: []int{1, 2, 4, 8}[r.Intn(4)], B: !cont, E: left == 0, U: mode == "msg" && sid == ns}
					open[sid] = left
					next++
					rc := ch.real()
					byPtr[rc] = ch.ID
					q.push(rc)
					tr.emit(map[string]any{"ev": "sq", "op": "push", "c": ch, "nb": q.getNumBytes(), "nc": q.size()})
				case c == 9:
					pc := q.peek()
					id := 0
					if pc != nil {
						id = byPtr[pc]
					}
					tr.emit(map[string]any{"ev": "sq", "op": "peek", "id": id, "nb": q.getNumBytes(), "nc": q.size()})
				default:
					pc := q.peek()
					if pc == nil {
						continue
					}
					errs := ""
					if err := q.pop(pc); err != nil {
						errs = err.Error()
					}
					tr.emit(map[string]any{"ev": "sq", "op": "pop", "id": byPtr[pc], "nb": q.getNumBytes(), "nc": q.size(), "err": errs})
				}
			}
			tr.emit(map[string]any{"ev": "sqend"})
		}
	}
}
