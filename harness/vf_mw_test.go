package sctp

// Multi-writer family (C20, C18): several goroutines call WriteSCTP concurrently on the SAME stream of a
// blocking-write association with short write deadlines while a slow reader keeps the association
// unwritable for long stretches. A second writer then waits on the per-stream write mutex, which
// testing/synctest does not treat as durably blocking, so this family runs in REAL time outside a
// bubble. Its verdicts are therefore timing-independent laws only (spec/WriteSeqTrace.tla): the
// sequence numbers of accepted messages are gapless and unique, failed writes leave no trace on the wire,
// reads come in sequence order, and -- once the sender holds nothing unsent or unacknowledged -- every
// accepted message has been read.

import (
	"context"
	"fmt"
	"math/rand"
	"runtime"
	"sort"
	"strings"
	"sync"
	"sync/atomic"
	"testing"
	"time"
)

func init() {
	vfModes["mw-rt"] = func(t *testing.T) {
		seed := int64(vfEnvInt("VF_SEED", 1))
		shard := vfEnvInt("VF_SHARD", 0)
		n := vfEnvInt("VF_N", 3)
		out, err := vfNewTrace(vfOut(fmt.Sprintf("mw-rt-%d.ndjson", shard)))
		if err != nil {
			t.Fatal(err)
		}
		defer out.close()
		for k := 0; k < n; k++ {
			r := rand.New(rand.NewSource(seed*7919 + int64(shard)*101 + int64(k)))
			il := r.Intn(2) == 0
			nw := 2 + r.Intn(3)
			label := fmt.Sprintf("mw-rt-il%v-w%d#%d-%d-%d", il, nw, seed, shard, k)
			mem, _ := vfNewTrace("")
			w := vfNewWorld(vfWorldOpt{Label: label, Trace: mem, RT: true, NoSnap: true,
				A: vfEpCfg{InitTSN: r.Uint32(), Tag: 0xA7, IL: il, BlockWrite: true, Buf: 1 << 16},
				B: vfEpCfg{InitTSN: r.Uint32(), Tag: 0xB7, IL: il, Server: true, Buf: 16384}})
			// free-running loss-free FIFO network
			stopNet := make(chan struct{})
			var netWG sync.WaitGroup
			netWG.Add(1)
			go func() {
				defer netWG.Done()
				for {
					select {
					case <-stopNet:
						return
					case <-w.activity:
					case <-time.After(500 * time.Microsecond):
					}
					for _, p := range w.pending(-1) {
						if q := w.take(p.id); q != nil {
							w.push(1-q.from, q.raw)
						}
					}
				}
			}()
			w.start(1)
			w.start(0)
			est := false
			for i := 0; i < 30000 && !est; i++ {
				time.Sleep(time.Millisecond)
				w.mu.Lock()
				est = w.ep[0].connRet && w.ep[1].connRet && w.ep[0].connErr == nil && w.ep[1].connErr == nil
				w.mu.Unlock()
			}
			if !est {
				t.Fatalf("%s: associations did not establish", label)
			}
			out.emit(map[string]any{"ev": "mwcfg", "label": label, "il": il, "writers": nw})
			sids := []int{1, 2}
			for _, sid := range sids {
				w.open(0, sid, 51)
			}
			var reads int64
			// receiver: slow readers
			var rdWG sync.WaitGroup
			rdWG.Add(1)
			go func() {
				defer rdWG.Done()
				for {
					s, err := w.ep[1].a.AcceptStream()
					if err != nil {
						return
					}
					sid := int(s.streamIdentifier)
					rdWG.Add(1)
					go func() {
						defer rdWG.Done()
						rr := rand.New(rand.NewSource(seed + int64(sid)))
						buf := make([]byte, 1<<16)
						for {
							nb, _, err := s.ReadSCTP(buf)
							if err != nil {
								return
							}
							out.emit(map[string]any{"ev": "rd", "sid": sid, "id": w.identMsg(0, sid, buf[:nb])})
							atomic.AddInt64(&reads, 1)
							time.Sleep(time.Duration(rr.Intn(1500)) * time.Microsecond)
						}
					}()
				}
			}()
			// writers: nw goroutines per stream, each with its own short deadline before every call
			var wrWG sync.WaitGroup
			var oks int64
			for _, sid := range sids {
				st := w.stream(0, sid)
				for g := 0; g < nw; g++ {
					wr := rand.New(rand.NewSource(seed*31 + int64(sid)*7 + int64(g) + int64(k)*1000))
					wrWG.Add(1)
					go func() {
						defer wrWG.Done()
						for i := 0; i < 20; i++ {
							m := w.newMsg(0, sid, 200+wr.Intn(5000), 51)
							w.indexFrags(m, int(w.ep[0].a.maxPayloadSize))
							st.SetWriteDeadline(time.Now().Add(time.Duration(500+wr.Intn(15000)) * time.Microsecond)) //nolint:errcheck
							_, err := st.WriteSCTP(m.Payload, 51)
							out.emit(map[string]any{"ev": "wret", "sid": sid, "id": m.ID, "ok": err == nil, "err": vfErrClass(err)})
							if err == nil {
								atomic.AddInt64(&oks, 1)
							}
						}
					}()
				}
			}
			wrWG.Wait()
			// drain: wait until the sender holds nothing unsent / unacknowledged, then give the readers time
			idle := false
			for i := 0; i < 30000 && !idle; i++ {
				time.Sleep(time.Millisecond)
				a := w.ep[0].a
				a.lock.RLock()
				idle = a.pendingQueue.size() == 0 && a.inflightQueue.size() == 0
				a.lock.RUnlock()
			}
			for i := 0; i < 3000 && atomic.LoadInt64(&reads) < atomic.LoadInt64(&oks); i++ {
				time.Sleep(time.Millisecond)
			}
			// project the wire: first transmissions of the first fragment of every message A -> B
			mem.mu.Lock()
			seen := map[int]bool{}
			for _, e := range mem.keep {
				if e["ev"] == "c" && e["ep"] == 0 && (e["k"] == "data" || e["k"] == "idata") && e["b"] == true {
					tsn, _ := e["tsn"].(int)
					if seen[tsn] {
						continue
					}
					seen[tsn] = true
					sq := e["ssn"]
					if il {
						sq = e["mid"]
					}
					out.emit(map[string]any{"ev": "wire", "sid": e["sid"], "id": e["id"], "seq": sq, "tsn": tsn})
				}
			}
			if vfEnvInt("VF_MW_FULL", 0) == 1 {
				vfWriteJSON(vfOut(fmt.Sprintf("mwfull-%d-%d.json", shard, k)), mem.keep)
			}
			mem.keep = nil
			mem.mu.Unlock()
			out.emit(map[string]any{"ev": "mwend", "sender_idle": idle, "reads": int(atomic.LoadInt64(&reads)), "oks": int(atomic.LoadInt64(&oks))})
			w.ep[0].conn.Close()
			w.ep[1].conn.Close()
			if a := w.ep[0].a; a != nil {
				a.Close() //nolint:errcheck
			}
			if b := w.ep[1].a; b != nil {
				b.Close() //nolint:errcheck
			}
			close(stopNet)
			netWG.Wait()
			rdWG.Wait()
		}
	}
}

// mw-shut: several goroutines write the same stream of an ordinary (non-blocking) association while Shutdown is
// called concurrently. Writes fail from the moment the association leaves the established state; whatever was
// accepted before must carry gapless numbers and -- Shutdown having returned nil -- must have been delivered.
func init() {
	vfModes["mw-shut"] = func(t *testing.T) {
		seed := int64(vfEnvInt("VF_SEED", 1))
		shard := vfEnvInt("VF_SHARD", 0)
		n := vfEnvInt("VF_N", 30)
		out, err := vfNewTrace(vfOut(fmt.Sprintf("mw-shut-%d.ndjson", shard)))
		if err != nil {
			t.Fatal(err)
		}
		defer out.close()
		for k := 0; k < n; k++ {
			r := rand.New(rand.NewSource(seed*104729 + int64(shard)*211 + int64(k)))
			il := r.Intn(2) == 0
			nw := 3 + r.Intn(3)
			label := fmt.Sprintf("mw-shut-il%v-w%d#%d-%d-%d", il, nw, seed, shard, k)
			mem, _ := vfNewTrace("")
			w := vfNewWorld(vfWorldOpt{Label: label, Trace: mem, RT: true, NoSnap: true,
				A: vfEpCfg{InitTSN: r.Uint32(), Tag: 0xA5, IL: il}, B: vfEpCfg{InitTSN: r.Uint32(), Tag: 0xB5, IL: il, Server: true}})
			stopNet := make(chan struct{})
			var netWG sync.WaitGroup
			netWG.Add(1)
			go func() {
				defer netWG.Done()
				for {
					select {
					case <-stopNet:
						return
					case <-w.activity:
					case <-time.After(300 * time.Microsecond):
					}
					for _, p := range w.pending(-1) {
						if q := w.take(p.id); q != nil {
							w.push(1-q.from, q.raw)
						}
					}
				}
			}()
			w.start(1)
			w.start(0)
			est := false
			for i := 0; i < 30000 && !est; i++ {
				time.Sleep(time.Millisecond)
				w.mu.Lock()
				est = w.ep[0].connRet && w.ep[1].connRet && w.ep[0].connErr == nil && w.ep[1].connErr == nil
				w.mu.Unlock()
			}
			if !est {
				t.Fatalf("%s: associations did not establish", label)
			}
			out.emit(map[string]any{"ev": "mwcfg", "label": label, "il": il, "writers": nw})
			w.open(0, 1, 51)
			var rdWG sync.WaitGroup
			rdWG.Add(1)
			go func() {
				defer rdWG.Done()
				s, err := w.ep[1].a.AcceptStream()
				if err != nil {
					return
				}
				buf := make([]byte, 1<<16)
				for {
					nb, _, err := s.ReadSCTP(buf)
					if err != nil {
						return
					}
					out.emit(map[string]any{"ev": "rd", "sid": 1, "id": w.identMsg(0, 1, buf[:nb])})
				}
			}()
			st := w.stream(0, 1)
			var wrWG sync.WaitGroup
			var oks int64
			for g := 0; g < nw; g++ {
				wr := rand.New(rand.NewSource(seed*17 + int64(g) + int64(k)*100))
				wrWG.Add(1)
				go func() {
					defer wrWG.Done()
					for i := 0; i < 40; i++ {
						m := w.newMsg(0, 1, 20+wr.Intn(200), 51)
						w.indexFrags(m, int(w.ep[0].a.maxPayloadSize))
						_, err := st.WriteSCTP(m.Payload, 51)
						out.emit(map[string]any{"ev": "wret", "sid": 1, "id": m.ID, "ok": err == nil, "err": vfErrClass(err)})
						if err != nil {
							return
						}
						atomic.AddInt64(&oks, 1)
					}
				}()
			}
			time.Sleep(time.Duration(100+r.Intn(1500)) * time.Microsecond)
			ctx, cancel := context.WithTimeout(context.Background(), 8*time.Second)
			serr := w.ep[0].a.Shutdown(ctx)
			cancel()
			wrWG.Wait()
			// the peer's reader ends when the association closes
			done := make(chan struct{})
			go func() { rdWG.Wait(); close(done) }()
			select {
			case <-done:
			case <-time.After(5 * time.Second):
			}
			mem.mu.Lock()
			seen := map[int]bool{}
			for _, e := range mem.keep {
				if e["ev"] == "c" && e["ep"] == 0 && (e["k"] == "data" || e["k"] == "idata") && e["b"] == true {
					tsn, _ := e["tsn"].(int)
					if seen[tsn] {
						continue
					}
					seen[tsn] = true
					sq := e["ssn"]
					if il {
						sq = e["mid"]
					}
					out.emit(map[string]any{"ev": "wire", "sid": e["sid"], "id": e["id"], "seq": sq, "tsn": tsn})
				}
			}
			mem.keep = nil
			mem.mu.Unlock()
			// a graceful shutdown that returned nil has had everything acknowledged
			out.emit(map[string]any{"ev": "mwend", "sender_idle": serr == nil, "shutdown": vfErrClass(serr), "oks": int(atomic.LoadInt64(&oks))})
			w.ep[0].conn.Close()
			w.ep[1].conn.Close()
			w.ep[0].a.Close() //nolint:errcheck
			w.ep[1].a.Close() //nolint:errcheck
			close(stopNet)
			netWG.Wait()
			<-done
		}
	}
}

// mw-close: writers blocked in a blocking-write association (the peer's window is full, nobody reads) while Close,
// Abort or Shutdown is called concurrently with further writers ENTERING WriteSCTP. Every write call must return
// once the association is gone. The only verdict is a certified stuck call: a writer still inside WriteSCTP three
// seconds after the teardown call returned, seen at the same place in two stack samples one second apart.
func init() {
	vfModes["mw-close"] = func(t *testing.T) {
		seed := int64(vfEnvInt("VF_SEED", 1))
		shard := vfEnvInt("VF_SHARD", 0)
		n := vfEnvInt("VF_N", 20)
		out, err := vfNewTrace(vfOut(fmt.Sprintf("mw-close-%d.ndjson", shard)))
		if err != nil {
			t.Fatal(err)
		}
		defer out.close()
		for k := 0; k < n; k++ {
			r := rand.New(rand.NewSource(seed*7907 + int64(shard)*389 + int64(k)))
			il := r.Intn(2) == 0
			how := []string{"close", "abort", "shutdown", "connclose"}[k%4]
			label := fmt.Sprintf("mw-close-%s-il%v#%d-%d-%d", how, il, seed, shard, k)
			mem, _ := vfNewTrace("")
			w := vfNewWorld(vfWorldOpt{Label: label, Trace: mem, RT: true, NoSnap: true,
				A: vfEpCfg{InitTSN: r.Uint32(), Tag: 0xA4, IL: il, BlockWrite: true}, B: vfEpCfg{InitTSN: r.Uint32(), Tag: 0xB4, IL: il, Server: true, Buf: 4096}})
			stopNet := make(chan struct{})
			var netWG sync.WaitGroup
			netWG.Add(1)
			go func() {
				defer netWG.Done()
				for {
					select {
					case <-stopNet:
						return
					case <-w.activity:
					case <-time.After(300 * time.Microsecond):
					}
					for _, p := range w.pending(-1) {
						if q := w.take(p.id); q != nil {
							w.push(1-q.from, q.raw)
						}
					}
				}
			}()
			w.start(1)
			w.start(0)
			est := false
			for i := 0; i < 30000 && !est; i++ {
				time.Sleep(time.Millisecond)
				w.mu.Lock()
				est = w.ep[0].connRet && w.ep[1].connRet && w.ep[0].connErr == nil && w.ep[1].connErr == nil
				w.mu.Unlock()
			}
			if !est {
				t.Fatalf("%s: associations did not establish", label)
			}
			out.emit(map[string]any{"ev": "mwcfg", "label": label, "il": il, "writers": 6})
			w.open(0, 1, 51)
			w.open(0, 2, 51)
			a := w.ep[0].a
			var inFlight int64
			var wrWG sync.WaitGroup
			stopWriters := make(chan struct{})
			for g := 0; g < 6; g++ {
				sid := 1 + g%2
				st := w.stream(0, sid)
				wrWG.Add(1)
				go func() {
					defer wrWG.Done()
					buf := make([]byte, 1000)
					for {
						select {
						case <-stopWriters:
							return
						default:
						}
						atomic.AddInt64(&inFlight, 1)
						_, err := st.WriteSCTP(buf, 51)
						atomic.AddInt64(&inFlight, -1)
						if err != nil {
							return
						}
					}
				}()
			}
			time.Sleep(time.Duration(2000+r.Intn(6000)) * time.Microsecond)
			switch how {
			case "close":
				a.Close() //nolint:errcheck
			case "abort":
				a.Abort("mw-close")
			case "shutdown":
				ctx, cancel := context.WithTimeout(context.Background(), 300*time.Millisecond)
				a.Shutdown(ctx) //nolint:errcheck
				cancel()
				a.Close() //nolint:errcheck
			case "connclose":
				w.ep[0].conn.Close()
			}
			close(stopWriters)
			done := make(chan struct{})
			go func() { wrWG.Wait(); close(done) }()
			stuck := false
			select {
			case <-done:
			case <-time.After(3 * time.Second):
				s1 := vfInWrite()
				time.Sleep(time.Second)
				s2 := vfInWrite()
				if len(s1) > 0 && strings.Join(s1, "|") == strings.Join(s2, "|") {
					ls := []any{}
					for _, x := range s1 {
						ls = append(ls, x[strings.Index(x, " ")+1:])
					}
					out.emit(map[string]any{"ev": "stuck", "what": "WriteSCTP after " + how, "stacks": ls})
					stuck = true
				} else {
					select {
					case <-done:
					case <-time.After(20 * time.Second):
						t.Fatalf("%s: writers did not return, but no stable stuck call either: %v / %v", label, s1, s2)
					}
				}
			}
			out.emit(map[string]any{"ev": "mwend", "sender_idle": false, "oks": 0})
			w.ep[0].conn.Close()
			w.ep[1].conn.Close()
			w.ep[1].a.Close() //nolint:errcheck
			close(stopNet)
			netWG.Wait()
			if stuck {
				return // the stuck goroutines stay behind; end this shard here
			}
		}
	}
}

// vfInWrite lists goroutines that are inside Stream.WriteSCTP ("<goroutine id> <innermost pion function>").
func vfInWrite() []string {
	buf := make([]byte, 1<<22)
	n := runtime.Stack(buf, true)
	res := []string{}
	for _, g := range strings.Split(string(buf[:n]), "\n\n") {
		if !strings.Contains(g, "(*Stream).WriteSCTP") {
			continue
		}
		lines := strings.Split(g, "\n")
		fn := ""
		for _, l := range lines[1:] {
			if strings.Contains(l, "pion/sctp.") && !strings.Contains(l, "created by") && !strings.Contains(l, ".vf") {
				fn = strings.TrimSpace(l)
				if i := strings.LastIndex(fn, "("); i > 0 {
					fn = fn[:i]
				}
				break
			}
		}
		st := lines[0]
		if i := strings.Index(st, "["); i >= 0 {
			st = st[i:]
		}
		res = append(res, strings.Fields(lines[0])[1]+" "+strings.TrimPrefix(fn, "github.com/pion/sctp.")+" "+st)
	}
	sort.Strings(res)
	return res
}
